#!/bin/sh
# usage: selftest/run_mutant.sh <patch file> <property> [tier]
# Applies the patch to a scratch copy of /repo, runs the check against it,
# prints CAUGHT / MISSED, removes the copy.  Evidence/replay go to a scratch dir.
set -u
PATCH=$(realpath "$1"); PROP=$2; TIER=${3:-quick}
cd "$(dirname "$0")/.." || exit 2
D=$(mktemp -d /tmp/pvm-mut-XXXXXX)
rsync -a --exclude .git --exclude '*.so' --exclude '__pycache__' --exclude '*.egg-info' /repo/ "$D/repo/"
if ! (cd "$D/repo" && patch -p1 -s < "$PATCH"); then echo "PATCH-FAILED $PATCH"; rm -rf "$D"; exit 3; fi
mkdir -p "$D/ev" "$D/rp"
VERIF_REPO="$D/repo" VERIF_EVIDENCE_DIR="$D/ev" VERIF_REPLAY_DIR="$D/rp" ./check "$PROP" --tier "$TIER" > "$D/out.txt" 2>&1
rc=$?
if [ $rc -eq 1 ] && grep -q "^VIOLATION property=$PROP" "$D/out.txt"; then
  echo "CAUGHT $PROP $(basename "$PATCH") :: $(grep -m1 'signature=' "$D/out.txt")"
else
  echo "MISSED $PROP $(basename "$PATCH") rc=$rc :: $(tail -1 "$D/out.txt")"
fi
rm -rf "$D"
