"""Self-test aid: run every check (quick tier) with PVM_FUNCCOV set and list
the Python-level functions of the library that no check executed.

usage: /venv/bin/python selftest/funccov.py [outdir]   (scratch evidence)"""
import ast
import glob
import json
import os
import subprocess
import sys
import tempfile

V = os.path.dirname(os.path.dirname(os.path.abspath(__file__)))
REPO = os.environ.get("VERIF_REPO", "/repo")
out = sys.argv[1] if len(sys.argv) > 1 else tempfile.mkdtemp(prefix="funccov-")
cov = os.path.join(out, "cov")
os.makedirs(cov, exist_ok=True)
env = dict(os.environ, PVM_FUNCCOV=cov,
           VERIF_EVIDENCE_DIR=os.path.join(out, "ev"),
           VERIF_REPLAY_DIR=os.path.join(out, "rp"))
os.makedirs(env["VERIF_EVIDENCE_DIR"], exist_ok=True)
os.makedirs(env["VERIF_REPLAY_DIR"], exist_ok=True)
props = [f"C{i:02d}" for i in range(1, 21)]
if os.environ.get("FUNCCOV_SKIP_RUN") != "1":
    for p in props:
        r = subprocess.run([os.path.join(V, "check"), p, "--tier", "quick"],
                           env=env, cwd=V, capture_output=True, text=True)
        print(p, "rc", r.returncode, flush=True)
by = {}
for f in glob.glob(os.path.join(cov, "*.json")):
    prop = os.path.basename(f).split(".")[0]
    for fn, qn in json.load(open(f)):
        by.setdefault((fn, qn), set()).add(prop)
defined = []
src = os.path.join(REPO, "src", "pyunicorn")
for path in sorted(glob.glob(os.path.join(src, "**", "*.py"), recursive=True)):
    rel = os.path.relpath(path, src)
    if rel.startswith("version") or "/tests" in rel:
        continue
    tree = ast.parse(open(path).read())

    def walk(node, prefix):
        for ch in ast.iter_child_nodes(node):
            if isinstance(ch, (ast.FunctionDef, ast.AsyncFunctionDef)):
                defined.append((rel, prefix + ch.name))
                walk(ch, prefix + ch.name + ".<locals>.")
            elif isinstance(ch, ast.ClassDef):
                walk(ch, prefix + ch.name + ".")
    walk(tree, "")
missing = [d for d in defined if d not in by]
lines = ["# Library functions (Python level) executed by the checks", "",
         f"{len(defined)} functions defined in src/pyunicorn/**/*.py, "
         f"{len(defined) - len(missing)} executed by at least one quick "
         "check, listed below are the others.", ""]
cur = None
for rel, qn in missing:
    if rel != cur:
        lines += ["", f"## {rel}", ""]
        cur = rel
    lines.append(f"- `{qn}`")
open(os.path.join(out, "not_executed.md"), "w").write("\n".join(lines) + "\n")
json.dump({f"{k[0]}::{k[1]}": sorted(v) for k, v in sorted(by.items())},
          open(os.path.join(out, "executed_by.json"), "w"), indent=0)
print(len(defined), "defined;", len(missing), "never executed ->",
      os.path.join(out, "not_executed.md"))
