#!/bin/bash
# usage: selftest/confirm_seed.sh <seed dir with patch.diff demo.py notes.md> <PROP> <name>
# Confirms a seeded change independently (scratch worktree of /repo HEAD):
#   demo passes on the clean tree, patch applies, demo fails with it, the
#   repository's own test suite still passes with it; then runs the quick
#   check of PROP (as committed in /verif HEAD) against the patched worktree.  Writes /verif/seeded/<name>/.
set -u
SEED=$(realpath "$1"); PROP=$2; NAME=$3; shift 3; EXTRA="$*"
VERIF=$(cd "$(dirname "$0")/.." && pwd)
OUT="$VERIF/seeded/$NAME"; mkdir -p "$OUT"
W=$(mktemp -d /tmp/seedw-XXXXXX); rmdir "$W"
git -C /repo worktree add -q "$W" HEAD || exit 2
cleanup() { git -C /repo worktree remove --force "$W" 2>/dev/null; git -C /repo worktree prune; rm -rf "$W.ev" "$W.rp" "$W.verif"; }
trap cleanup EXIT
cd "$W" || exit 2
/venv/bin/python setup.py build_ext --inplace -j4 >/dev/null 2>&1
run_demo() { (cd "$W" && PYTHONPATH="$W/src" timeout 600 /venv/bin/python "$SEED/demo.py" >"$1" 2>&1); echo $?; }
demo_clean=$(run_demo "$OUT/demo_clean.log")
if git apply --check "$SEED/patch.diff" 2>/dev/null; then git apply "$SEED/patch.diff"; applied=clean
elif patch -p1 -s --fuzz=3 < "$SEED/patch.diff" >/dev/null 2>&1; then applied=fuzzy
else applied=CONFLICT; fi
git diff > "$OUT/patch.diff"
if grep -qE '\.(pyx|pxd|c|h)$|setup\.py' <(git diff --name-only); then /venv/bin/python setup.py build_ext --inplace -j4 >/dev/null 2>&1; fi
demo_patched=$(run_demo "$OUT/demo_patched.log")
tests=$(cd "$W" && PYTHONPATH="$W/src" /venv/bin/python -m pytest -q -p no:cacheprovider -n 8 --timeout=900 2>&1 | tail -1)
mkdir -p "$W.ev" "$W.rp" "$W.verif"
# the checks as committed (not the working copy, which may be mid-edit)
git -C "$VERIF" archive HEAD | tar -x -C "$W.verif"
ln -s "$VERIF/.cache" "$W.verif/.cache"
VCOMMIT=$(git -C "$VERIF" log -1 --format=%h)
CHK="$W.verif"
(cd "$CHK" && VERIF_REPO="$W" VERIF_EVIDENCE_DIR="$W.ev" VERIF_REPLAY_DIR="$W.rp" ./check "$PROP" --tier quick > "$OUT/check_quick.log" 2>&1); rc=$?
sigs=$(grep -c '^VIOLATION' "$OUT/check_quick.log")
first=$(grep -m3 'signature=' "$OUT/check_quick.log" | sed 's/^ *//' | tr '\n' ';' | cut -c1-400)
extra_json="{}"
for XP in $EXTRA; do
  (cd "$CHK" && VERIF_REPO="$W" VERIF_EVIDENCE_DIR="$W.ev" VERIF_REPLAY_DIR="$W.rp" ./check "$XP" --tier quick > "$OUT/check_quick_$XP.log" 2>&1); xrc=$?
  xfirst=$(grep -m2 'signature=' "$OUT/check_quick_$XP.log" | sed 's/^ *//' | tr '\n' ';' | cut -c1-300)
  extra_json=$(/venv/bin/python -c "import json,sys; d=json.loads(sys.argv[1]); d[sys.argv[2]]={'exit':int(sys.argv[3]),'first_signatures':sys.argv[4]}; print(json.dumps(d))" "$extra_json" "$XP" "$xrc" "$xfirst")
done
cp "$SEED/demo.py" "$OUT/demo.py"; cp "$SEED/notes.md" "$OUT/notes.md" 2>/dev/null
/venv/bin/python - "$OUT" "$PROP" "$NAME" "$applied" "$demo_clean" "$demo_patched" "$tests" "$rc" "$sigs" "$first" "$extra_json" "$VCOMMIT" <<'EOF'
import json, sys, subprocess
out, prop, name, applied, dc, dp, tests, rc, sigs, first, extra, vcommit = sys.argv[1:]
extra = json.loads(extra)
head = subprocess.check_output(["git", "-C", "/repo", "log", "-1", "--format=%h"]).decode().strip()
meta = {"property": prop, "name": name, "repo_head": head,
        "verif_commit_of_checks": vcommit,
        "patch_applied": applied,
        "demo_exit_clean_tree": int(dc), "demo_exit_with_change": int(dp),
        "repo_test_suite_with_change": tests,
        "confirmed": applied != "CONFLICT" and int(dc) == 0 and int(dp) != 0 and " passed" in tests and "failed" not in tests,
        "check_quick_exit": int(rc), "check_quick_violation_lines": int(sigs),
        "check_quick_first_signatures": first,
        "caught_by_quick": int(rc) == 1 and int(sigs) > 0,
        "other_checks_quick": extra,
        "caught_by_other_checks": sorted(k for k, v in extra.items() if v["exit"] == 1),
        "what_ran": "scratch worktree of /repo HEAD: demo.py on clean tree, git apply patch.diff, rebuild, demo.py, full pytest suite, ./check %s --tier quick with VERIF_REPO=<worktree>" % prop,
        "needs_to_manifest": "see notes.md"}
json.dump(meta, open(out + "/meta.json", "w"), indent=1)
print(name, "confirmed=%s" % meta["confirmed"], "caught=%s" % meta["caught_by_quick"], "applied=" + applied, "demo", dc, dp, "|", tests[-60:], "|", first[:200])
EOF
