"""Summarise /verif/seeded/*/meta.json into seeded/SUMMARY.md."""
import glob
import json
import os
import re

V = os.path.dirname(os.path.dirname(os.path.abspath(__file__)))
rows = []
for f in sorted(glob.glob(os.path.join(V, "seeded", "*", "meta.json"))):
    m = json.load(open(f))
    d = os.path.dirname(f)
    notes = ""
    try:
        txt = open(os.path.join(d, "notes.md")).read()
        notes = re.sub(r"\s+", " ", txt)[:260]
    except OSError:
        pass
    caught = []
    if m.get("caught_by_quick"):
        caught.append(m["property"])
    caught += m.get("caught_by_other_checks", [])
    sig = (m.get("check_quick_first_signatures") or "").split(";")[0]
    if not m.get("caught_by_quick"):
        for k, v in m.get("other_checks_quick", {}).items():
            if v["exit"] == 1:
                sig = v["first_signatures"].split(";")[0]
    fp = os.path.join(d, "meta_first_pass.json")
    first = "caught" if caught else "-"
    if os.path.exists(fp):
        m1 = json.load(open(fp))
        first = "caught" if m1.get("caught_by_quick") else "missed"
        if m["name"] == "C04-r2s2":
            first = "invalid (check was mid-edit)"
    rows.append((m["name"], m["property"], m["confirmed"], ", ".join(caught)
                 or "-", sig.replace("signature=", "")[:110], notes, first))
out = ["# Independently seeded changes", "",
       "Each directory holds the change (`patch.diff`), the seeding agent's "
       "demonstration (`demo.py`: passes on the clean tree, fails with the "
       "change), its `notes.md`, my confirmation logs and `meta.json`.", "",
       "Round 1 = `CNN-sK`, round 2 = `CNN-r2sK`, round 3 = `CNN-r3sK`, round 4 = `CNN-r4sK`, round 5 = `CNN-r5sK`, round 6 = `CNN-r6sK`, round 7 = `CNN-r7sK`, round 8 = `CNN-r8sK`, round 9 = `CNN-r9sK`.  'first pass' is the "
       "verdict of the property's quick check as it stood when the seed was "
       "first confirmed (round 1 first-pass misses are listed in DESIGN.md "
       "section 12, rounds 2-9 in ROUND2_FIRST_PASS.md .. ROUND9_FIRST_PASS.md); 'caught by' is the "
       "verdict of the checks after strengthening.", "",
       "| seed | breaks | confirmed | first pass | caught by (quick tier) | first signature |",
       "|---|---|---|---|---|---|"]
for r in rows:
    fp = r[6] if "-r" in r[0] else "see DESIGN 12"
    out.append(f"| {r[0]} | {r[1]} | {r[2]} | {fp} | {r[3]} | `{r[4]}` |")
open(os.path.join(V, "seeded", "SUMMARY.md"), "w").write("\n".join(out) + "\n")
print("\n".join(out[4:]))
print(len(rows), "seeds;", sum(1 for r in rows if r[3] != "-"), "caught")
