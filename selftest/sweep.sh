#!/bin/bash
# usage: selftest/sweep.sh <tier> <seed> [props...]   -- runs checks on the unchanged tree, scratch evidence
TIER=$1; SEED=$2; shift 2
PROPS=${@:-C01 C02 C03 C04 C05 C06 C07 C08 C09 C10 C11 C12 C13 C14 C15 C16 C17 C18 C19 C20}
cd "$(dirname "$0")/.." || exit 2
E=$(mktemp -d /tmp/sweep-ev-XXXX); R=$(mktemp -d /tmp/sweep-rp-XXXX)
for p in $PROPS; do
  VERIF_SEED=$SEED VERIF_EVIDENCE_DIR=$E VERIF_REPLAY_DIR=$R ./check $p --tier $TIER > /tmp/sweep-$p-$TIER-$SEED.log 2>&1; rc=$?
  echo "SWEEP $p tier=$TIER seed=$SEED rc=$rc :: $(grep "^\[$p\]" /tmp/sweep-$p-$TIER-$SEED.log) $(grep -c '^VIOLATION\|^INCONCLUSIVE' /tmp/sweep-$p-$TIER-$SEED.log) alarms"
  grep '^VIOLATION\|signature=\|^INCONCLUSIVE' /tmp/sweep-$p-$TIER-$SEED.log | head -8 | cut -c1-220
done
rm -rf $E $R
