"""Reflection helpers shared by the history/twin/purity/permutation monitors:
discover the public query surface of an object and compare returned values."""
import inspect
import itertools

import numpy as np

DENY_PREFIX = ("set_", "randomly_", "del_", "clear_", "save", "Load",
               "SmallTest", "From", "Model", "cache_", "plot", "print",
               "update_", "normalize_", "rewire", "_")
DENY_EXACT = {
    "copy", "permuted_copy", "splitted_copy", "undirected_copy", "method",
    "ErdosRenyi", "BarabasiAlbert", "BarabasiAlbert_igraph", "Configuration",
    "WattsStrogatz", "GrowWeights", "GrowPreferentially", "Import",
    "RandomlySetCrossLinks", "RandomlyRewireCrossLinks",
    "RandomlySetCrossLinks_sparse", "nsi_spreading", "spreading",
    "hamming_distance_from", "geographical_distribution",
    "geographical_cumulative_distribution", "test_threshold_significance",
    "original_distribution", "eval_fast_code", "SmallTestData",
    "SmallTestGrid", "RegularGrid", "clear_cache", "info", "test_data",
    "white_noise_surrogates", "correlated_noise_surrogates",
    "AAFT_surrogates", "refined_AAFT_surrogates", "twin_surrogates",
    "resample_diagline_dist", "resample_vertline_dist", "rejection_sampling",
    "bootstrap_distance_matrix", "shuffled_anomaly",
    "inter_system_recurrence_matrix_plot",
}

# values tried for optional parameters (by parameter name)
PARAM_VALUES = {
    "key": ["w"], "link_attribute": ["w"], "typical_weight": [2.137],
    "direction": ["in"], "only_connected": [False], "add_local_ends": [True],
    "exclude_neighbors": [False], "stopping_mode": ["twinness"],
    "l_min": [3], "v_min": [3], "w_min": [2], "lag": [1],
    "normalize": [False], "use_directed": [False],
    "replace_inf_by": [99.0],
}
# required parameters we know how to supply
REQUIRED_VALUES = {
    "order": [3, 4], "attribute_name": ["w"], "metric": ["euclidean",
                                                         "supremum"],
    "link_density": [0.35], "recurrence_rate": [0.3],
}


def public_methods(obj, deny_extra=()):
    cls = type(obj)
    out = []
    for n in sorted(dir(cls)):
        if n.startswith(DENY_PREFIX) or n in DENY_EXACT or n in deny_extra:
            continue
        st = inspect.getattr_static(cls, n)
        if isinstance(st, (staticmethod, classmethod, property)):
            continue
        f = getattr(cls, n, None)
        if not callable(f) or inspect.isclass(f):
            continue
        try:
            sig = inspect.signature(f)
        except (TypeError, ValueError):
            continue
        out.append((n, sig))
    return out


def query_patterns(obj, deny_extra=(), have_attr=True, max_patterns=4):
    """-> list of (label, method name, kwargs)."""
    res = []
    for n, sig in public_methods(obj, deny_extra):
        params = [p for p in list(sig.parameters.values())[1:]
                  if p.kind in (p.POSITIONAL_OR_KEYWORD, p.KEYWORD_ONLY)]
        if any(p.kind in (p.VAR_POSITIONAL, p.VAR_KEYWORD)
               for p in sig.parameters.values()):
            continue
        req = [p for p in params if p.default is p.empty]
        opt = [p for p in params if p.default is not p.empty]
        if any(p.name not in REQUIRED_VALUES for p in req):
            continue
        if not have_attr and any(p.name in ("attribute_name",) for p in req):
            continue
        base_sets = [dict(zip([p.name for p in req], vals)) for vals in
                     itertools.product(*[REQUIRED_VALUES[p.name]
                                         for p in req])] or [{}]
        pats = []
        for b in base_sets:
            pats.append(dict(b))
            for p in opt:
                if p.name in PARAM_VALUES:
                    if p.name in ("key", "link_attribute") and not have_attr:
                        continue
                    for v in PARAM_VALUES[p.name]:
                        pats.append({**b, p.name: v})
            both = {p.name for p in opt} & {"key", "typical_weight"}
            if len(both) == 2 and have_attr:
                pats.append({**b, "key": "w", "typical_weight": 2.137})
        for kw in pats[:max_patterns + len(base_sets)]:
            label = n + ("(" + ",".join(f"{k}={v}" for k, v in
                                        sorted(kw.items())) + ")" if kw
                         else "()")
            res.append((label, n, kw))
    return res


def cached_method_names(obj):
    return [n for n in dir(type(obj))
            if hasattr(getattr(type(obj), n, None), "cache_info")]


# ---------------------------------------------------------------------------

def _is_sparse(x):
    return hasattr(x, "toarray") and hasattr(x, "nnz")


def same(a, b, rtol=1e-9, atol=1e-12):
    """-> (comparable, equal)"""
    if a is None or b is None:
        return True, a is None and b is None
    if _is_sparse(a) or _is_sparse(b):
        if not (_is_sparse(a) and _is_sparse(b)):
            return True, False
        return same(a.toarray(), b.toarray(), rtol, atol)
    if isinstance(a, (str, bytes, bool)) or isinstance(b, (str, bytes, bool)):
        return True, type(a) is type(b) and a == b
    if isinstance(a, dict) and isinstance(b, dict):
        if set(a) != set(b):
            return True, False
        for k in a:
            c, e = same(a[k], b[k], rtol, atol)
            if not c:
                return False, False
            if not e:
                return True, False
        return True, True
    if isinstance(a, (list, tuple)) and isinstance(b, (list, tuple)):
        try:
            aa, bb = np.asarray(a), np.asarray(b)
            if aa.dtype != object and bb.dtype != object:
                return same(aa, bb, rtol, atol)
        except Exception:  # noqa  ragged
            pass
        if len(a) != len(b):
            return True, False
        for x, y in zip(a, b):
            c, e = same(x, y, rtol, atol)
            if not c:
                return False, False
            if not e:
                return True, False
        return True, True
    if isinstance(a, (int, float, complex, np.number, np.ndarray)) and \
            isinstance(b, (int, float, complex, np.number, np.ndarray)):
        aa, bb = np.asarray(a), np.asarray(b)
        if aa.dtype == object or bb.dtype == object:
            return False, False
        if aa.shape != bb.shape:
            return True, False
        if aa.dtype.kind in "biu" and bb.dtype.kind in "biu":
            return True, bool(np.array_equal(aa, bb))
        if aa.dtype.kind in "SU" or bb.dtype.kind in "SU":
            return True, bool(np.array_equal(aa, bb))
        with np.errstate(all="ignore"):
            fa = aa.astype(complex if np.iscomplexobj(aa) or
                           np.iscomplexobj(bb) else float)
            fb = bb.astype(fa.dtype)
            eq = (fa == fb) | (np.isnan(fa) & np.isnan(fb))
            fin = np.isfinite(fa) & np.isfinite(fb)
            scale = np.max(np.abs(fb[fin])) if fin.any() else 0.0
            closev = np.zeros(fa.shape, dtype=bool)
            closev[fin] = np.abs(fa[fin] - fb[fin]) <= \
                rtol * np.maximum(np.abs(fb[fin]), scale * 1e-3) + atol
        return True, bool(np.all(eq | closev))
    # library objects
    if hasattr(a, "adjacency") and hasattr(b, "adjacency"):
        return same(np.asarray(a.adjacency), np.asarray(b.adjacency))
    if hasattr(a, "get_edgelist") and hasattr(b, "get_edgelist"):
        return True, (a.vcount() == b.vcount() and
                      sorted(a.get_edgelist()) == sorted(b.get_edgelist()))
    return False, False


def snapshot(v):
    """Deep, detached copy of a returned value for later comparison."""
    import copy
    if isinstance(v, np.ndarray):
        return v.copy()
    if _is_sparse(v):
        return v.copy()
    try:
        return copy.deepcopy(v)
    except Exception:  # noqa
        return v


def brief(v):
    if isinstance(v, np.ndarray):
        if v.size <= 30:
            return v.tolist()
        return {"shape": list(v.shape), "head": v.ravel()[:12].tolist()}
    if _is_sparse(v):
        return brief(v.toarray())
    if isinstance(v, Exception):
        return repr(v)
    if isinstance(v, (int, float, str, bool, type(None), np.number)):
        return v
    if isinstance(v, (list, tuple)) and len(v) <= 12:
        return [brief(x) for x in v]
    return repr(v)[:200]
