"""Subjects for the history / twin / purity monitors (C01, C06):
for each library class a *model* of its primary inputs, a builder through the
public constructor, public mutators that update object and model together,
and the query surface (reflection + summary attributes).

A model is a plain dict; `build(model)` must be a pure function of it."""
import copy

import numpy as np

from pvm.gen import graphs as G
from pvm.mon import reflect


def _series(rng, n, dim=1):
    t = np.arange(n)
    x = np.sin(t * rng.uniform(0.2, 1.2)) + 0.4 * rng.normal(size=n)
    if dim == 1:
        return np.round(x * 16) / 16
    return np.round(np.column_stack([x] + [rng.normal(size=n)
                                           for _ in range(dim - 1)]) * 16) / 16


COPY_INPUTS = [True]      # C06 switches this off to hand the model's own
#                           arrays to the library (purity of caller inputs)


def _c(a):
    return a.copy() if COPY_INPUTS[0] else a


class Subject:
    name = "?"
    culprits = ()              # (label, fn(obj)) random / object-returning
    #                            methods that take part as culprits only
    attrs = ()                 # summary attributes read as queries
    deny = ()                  # extra methods excluded from reflection
    max_patterns = 4
    str_tail = False           # compare str() without its first line

    def gen(self, rng, small=True):
        raise NotImplementedError

    def build(self, m):
        raise NotImplementedError

    def mutators(self):
        """list of (name, fn(obj, model, rng) -> new model)"""
        raise NotImplementedError

    def have_attr(self, m):
        return bool(m.get("attrs"))

    def queries(self, obj, m):
        qs = []
        for label, n, kw in reflect.query_patterns(
                obj, self.deny, have_attr=True,
                max_patterns=self.max_patterns):
            qs.append((label, (lambda o, n=n, kw=kw: getattr(o, n)(**kw))))
        for a in self.attrs:
            qs.append((f"attr:{a}", (lambda o, a=a: getattr(o, a))))
        # the printed summary (class, sizes, settings) is a query like any
        # other: it describes the object as it is now
        qs.append(("attr:str()", (lambda o: str(o)) if not self.str_tail
                   else (lambda o: str(o).split("\n", 1)[-1])))
        qs += self.extra_queries(obj, m)
        return qs

    def extra_queries(self, obj, m):
        return []


# ---------------------------------------------------------------------------
# Network family

NET_ATTRS = ("N", "n_links", "link_density", "total_node_weight",
             "mean_node_weight", "adjacency", "node_weights")


def _rand_net_model(rng, directed, nmin=4, nmax=9):
    n = int(rng.integers(nmin, nmax + 1))
    A = G.gnp(rng, n, float(rng.choice([0.3, 0.5, 0.7])), directed)
    m = {"A": A, "directed": directed,
         "w": G.pos_weights(rng, n) if rng.random() < 0.7 else None,
         "attrs": {}}
    if rng.random() < 0.7:
        # (half of the attributes are small integers: ties between path
        #  lengths, and path lengths that coincide with N)
        m["attrs"]["w"] = G.link_attr(rng, A, directed,
                                      ties=bool(rng.random() < 0.5))
    return m


def _net_mutators(directed):
    def adj_same(o, m, r):
        n = len(m["A"])
        A = G.gnp(r, n, float(r.choice([0.2, 0.5, 0.8])), directed)
        o.adjacency = A
        return {**m, "A": A, "attrs": {}}

    def adj_sparse(o, m, r):
        import scipy.sparse as sp
        n = len(m["A"])
        A = G.gnp(r, n, 0.5, directed)
        o.adjacency = sp.csr_matrix(A)
        return {**m, "A": A, "attrs": {}}

    def adj_newN(o, m, r):
        n = int(r.integers(3, 10))
        A = G.gnp(r, n, 0.5, directed)
        w = G.pos_weights(r, n)
        o.adjacency = A
        o.node_weights = w
        return {**m, "A": A, "w": w, "attrs": {}}

    def edge_list(o, m, r):
        n = len(m["A"])
        A = G.gnp(r, n, 0.5, directed)
        if not A.any():
            A[0, 1] = 1
            if not directed:
                A[1, 0] = 1
        e = np.argwhere(A if directed else np.triu(A))
        o.set_edge_list(e, n_nodes=n)
        return {**m, "A": A, "attrs": {}}

    def edge_list_span(o, m, r):
        # without n_nodes the node count is documented to follow from the
        # largest index in the list: fewer or more nodes than before
        n = int(r.integers(3, len(m["A"]) + 3))
        A = G.gnp(r, n, 0.5, directed)
        A[0, n - 1] = 1                    # the last node appears in the list
        if not directed:
            A[n - 1, 0] = 1
        e = np.argwhere(A if directed else np.triu(A))
        w = G.pos_weights(r, n)
        o.set_edge_list(e)
        o.node_weights = w
        return {**m, "A": A, "w": w, "attrs": {}}

    def node_w(o, m, r):
        w = G.pos_weights(r, len(m["A"]), "loguni")
        o.node_weights = w
        return {**m, "w": w}

    def node_w_none(o, m, r):
        o.node_weights = None
        return {**m, "w": None}

    def set_attr(o, m, r):
        W = G.link_attr(r, m["A"], directed)
        o.set_link_attribute("w", W)
        return {**m, "attrs": {**m["attrs"], "w": W}}

    def del_attr(o, m, r):
        o.del_link_attribute("w")
        a = dict(m["attrs"])
        a.pop("w", None)
        return {**m, "attrs": a}

    def rewire(o, m, r):
        import random
        if directed or m["A"].sum() < 4:
            raise Skip()
        random.seed(int(r.integers(1 << 30)))
        o.randomly_rewire(int(r.integers(1, 6)))
        return {**m, "A": np.asarray(o.sp_A.toarray(), dtype=np.int8),
                "attrs": {}}
    def node_attr(o, m, r):
        # a node attribute of the owner's, set and removed again: nothing
        # any measure reports depends on it
        vals = [float(v) for v in r.integers(0, 9, int(o.N))]
        o.set_node_attribute("owner_tag", vals)
        if list(o.node_attribute("owner_tag")) != vals:
            raise AssertionError("node attribute not stored as given")
        if r.random() < 0.7:
            o.del_node_attribute("owner_tag")
        return dict(m)
    return [("adjacency=", adj_same), ("adjacency=sparse", adj_sparse),
            ("set+del_node_attribute", node_attr),
            ("adjacency=newN+node_weights=", adj_newN),
            ("set_edge_list", edge_list),
            ("set_edge_list(no n_nodes)+node_weights=", edge_list_span),
            ("node_weights=", node_w),
            ("node_weights=None", node_w_none),
            ("set_link_attribute", set_attr),
            ("del_link_attribute", del_attr), ("randomly_rewire", rewire)]


class Skip(Exception):
    """Mutator not applicable to this model (precondition), not an event."""


class NetworkS(Subject):
    attrs = NET_ATTRS
    deny = ("nsi_arenas_betweenness", "arenas_betweenness",
            "distance_based_measures")

    def __init__(self, directed):
        self.directed = directed
        self.name = "Network[directed]" if directed else "Network"

    def gen(self, rng, small=True):
        return _rand_net_model(rng, self.directed)

    def build(self, m):
        from pyunicorn.core import Network
        net = Network(adjacency=m["A"], directed=m["directed"],
                      node_weights=m["w"], silence_level=3)
        for k, W in m["attrs"].items():
            net.set_link_attribute(k, W)
        return net

    def mutators(self):
        return _net_mutators(self.directed)


class InteractingS(NetworkS):
    def __init__(self):
        NetworkS.__init__(self, False)
        self.name = "InteractingNetworks"

    def gen(self, rng, small=True):
        m = _rand_net_model(rng, False)
        if rng.random() < 0.4:
            # two components: unreachable pairs between (and inside) groups
            n = len(m["A"])
            cut = int(rng.integers(1, n))
            perm = rng.permutation(n)
            a, b = perm[:cut], perm[cut:]
            m["A"][np.ix_(a, b)] = 0
            m["A"][np.ix_(b, a)] = 0
            if "w" in m["attrs"]:
                m["attrs"]["w"] = m["attrs"]["w"] * (m["A"] != 0)
        return m

    def build(self, m):
        from pyunicorn.core import InteractingNetworks
        net = InteractingNetworks(adjacency=m["A"], directed=False,
                                  node_weights=m["w"], silence_level=3)
        for k, W in m["attrs"].items():
            net.set_link_attribute(k, W)
        return net

    def extra_queries(self, obj, m):
        qs = []
        names = ["cross_degree", "cross_link_density", "internal_degree",
                 "number_cross_links", "cross_local_clustering",
                 "cross_transitivity", "cross_average_path_length",
                 "nsi_cross_degree", "nsi_cross_local_clustering",
                 "cross_betweenness", "internal_average_path_length",
                 "nsi_cross_mean_degree", "nsi_internal_degree",
                 "cross_closeness", "nsi_cross_closeness_centrality",
                 "cross_adjacency", "internal_adjacency"]
        for n in names:
            if not hasattr(obj, n):
                continue

            def q(o, n=n):
                N = o.N
                a, b = list(range(N // 2)), list(range(N // 2, N))
                f = getattr(o, n)
                try:
                    return f(a, b)
                except TypeError:
                    return f(a)
            qs.append((f"{n}(g1,g2)", q))
        return qs


class GeoNetworkS(Subject):
    name = "GeoNetwork"
    attrs = NET_ATTRS
    deny = NetworkS.deny

    def gen(self, rng, small=True):
        m = _rand_net_model(rng, False)
        n = len(m["A"])
        m["lat"] = np.round(rng.uniform(-80, 80, n))
        m["lon"] = np.round(rng.uniform(-170, 170, n))
        m["nwt"] = str(rng.choice(["surface", "irrigation"]))
        m["w"] = "type"
        return m

    def build(self, m):
        from pyunicorn.core import GeoNetwork
        from pvm.gen.objects import geogrid
        g = geogrid(m["lat"], m["lon"])
        net = GeoNetwork(g, adjacency=m["A"], directed=False,
                         node_weight_type=m["nwt"], silence_level=3)
        if not isinstance(m["w"], str):
            net.node_weights = m["w"]
        for k, W in m["attrs"].items():
            net.set_link_attribute(k, W)
        return net

    def mutators(self):
        base = [x for x in _net_mutators(False)
                if x[0] not in ("adjacency=newN+node_weights=",)]

        def nwt(o, m, r):
            t = str(r.choice([t for t in ("surface", "irrigation")
                              if t != m["nwt"]]))
            o.set_node_weight_type(t)
            return {**m, "nwt": t, "w": "type"}

        def geo1(o, m, r):
            from pvm.checks.c20 import geomodel_swappable
            D = o.grid.angular_distance()
            if not geomodel_swappable(o, D, 10.0, "I"):
                raise Skip()
            np.random.seed(int(r.integers(1 << 30)))
            o.randomly_rewire_geomodel_I(D, 1, 10.0)
            return {**m, "A": np.asarray(o.sp_A.toarray(), dtype=np.int8),
                    "attrs": {}}
        return base + [("set_node_weight_type", nwt),
                       ("randomly_rewire_geomodel_I", geo1)]


class ClimateNetworkS(Subject):
    name = "ClimateNetwork"
    attrs = NET_ATTRS
    deny = NetworkS.deny

    def gen(self, rng, small=True):
        from pvm.gen.objects import sym_similarity
        n = int(rng.integers(4, 9))
        return {"S": sym_similarity(rng, n),
                "lat": np.round(rng.uniform(-80, 80, n)),
                "lon": np.round(rng.uniform(-170, 170, n)),
                "thr": float(rng.integers(8, 50)) / 64 + 1 / 128,
                "non_local": False, "nwt": "surface", "attrs": {}}

    def build(self, m):
        from pyunicorn.climate import ClimateNetwork
        from pvm.gen.objects import geogrid
        net = ClimateNetwork(geogrid(m["lat"], m["lon"]), _c(m["S"]),
                             threshold=m["thr"], non_local=m["non_local"],
                             node_weight_type=m["nwt"], silence_level=3)
        for k, W in m["attrs"].items():
            net.set_link_attribute(k, W)
        return net

    def mutators(self):
        def thr(o, m, r):
            t = float(r.integers(4, 56)) / 64 + 1 / 128
            o.set_threshold(t)
            return {**m, "thr": t, "attrs": {}}

        def dens(o, m, r):
            d = float(r.choice([0.2, 0.4, 0.6, 0.8]))
            o.set_link_density(d)
            # the model reads the threshold back through the public echo
            return {**m, "thr": float(o.threshold()), "attrs": {}}

        def nonloc(o, m, r):
            o.set_non_local(not m["non_local"])
            return {**m, "non_local": not m["non_local"], "attrs": {}}

        def set_attr(o, m, r):
            W = G.link_attr(r, np.asarray(o.sp_A.toarray()), False)
            o.set_link_attribute("w", W)
            return {**m, "attrs": {**m["attrs"], "w": W}}

        def nwt(o, m, r):
            t = "irrigation" if m["nwt"] == "surface" else "surface"
            o.set_node_weight_type(t)
            return {**m, "nwt": t}
        return [("set_threshold", thr), ("set_link_density", dens),
                ("set_non_local", nonloc), ("set_link_attribute", set_attr),
                ("set_node_weight_type", nwt)]


class TsonisS(Subject):
    """Data-derived climate network (Tsonis = Pearson correlation)."""
    name = "TsonisClimateNetwork"
    attrs = NET_ATTRS
    deny = NetworkS.deny
    cls = "TsonisClimateNetwork"
    kw = {}

    def gen(self, rng, small=True):
        n = int(rng.integers(4, 8))
        T = 36
        obs = rng.normal(size=(T, n)) + \
            np.outer(np.sin(np.arange(T) * 2 * np.pi / 12), rng.normal(size=n))
        return {"obs": np.round(obs * 32) / 32,
                "lat": np.round(rng.uniform(-80, 80, n)),
                "lon": np.round(rng.uniform(-170, 170, n)),
                "thr": float(rng.choice([0.1, 0.2, 0.3, 0.45])),
                "winter": False, "non_local": False, "attrs": {}}

    def build(self, m):
        from pyunicorn import climate
        from pvm.gen.objects import climate_data
        cd = climate_data(_c(m["obs"]), m["lat"], m["lon"], cycle=12)
        net = getattr(climate, self.cls)(
            cd, threshold=m["thr"], non_local=m["non_local"],
            winter_only=m["winter"], silence_level=3, **self.kw)
        for k, W in m["attrs"].items():
            net.set_link_attribute(k, W)
        return net

    def mutators(self):
        def thr(o, m, r):
            t = float(r.choice([t for t in (0.05, 0.15, 0.25, 0.35, 0.5)
                                if t != m["thr"]]))
            o.set_threshold(t)
            return {**m, "thr": t, "attrs": {}}

        def winter(o, m, r):
            o.set_winter_only(not m["winter"])
            return {**m, "winter": not m["winter"], "attrs": {}}

        def nonloc(o, m, r):
            o.set_non_local(not m["non_local"])
            return {**m, "non_local": not m["non_local"], "attrs": {}}
        return [("set_threshold", thr), ("set_winter_only", winter),
                ("set_non_local", nonloc)]


class SpearmanS(TsonisS):
    name = "SpearmanClimateNetwork"
    cls = "SpearmanClimateNetwork"


class MutualInfoS(TsonisS):
    name = "MutualInfoClimateNetwork"
    cls = "MutualInfoClimateNetwork"

    def gen(self, rng, small=True):
        m = TsonisS.gen(self, rng, small)
        m["thr"] = float(rng.choice([0.15, 0.3, 0.45]))
        return m

    def mutators(self):
        base = [x for x in TsonisS.mutators(self)
                if x[0] != "set_winter_only"]

        def winter(o, m, r):
            # dump=False: the default stores the matrix in a file that later
            # objects of the same size reload by design
            o.set_winter_only(not m["winter"], dump=False)
            return {**m, "winter": not m["winter"], "attrs": {}}
        return base + [("set_winter_only", winter)]


class HavlinS(Subject):
    name = "HavlinClimateNetwork"
    attrs = NET_ATTRS
    deny = NetworkS.deny

    def gen(self, rng, small=True):
        m = TsonisS().gen(rng, small)
        m["delay"] = int(rng.integers(2, 5))
        m["thr"] = float(rng.choice([1.5, 2.0, 2.5, 3.0]))
        del m["winter"]
        return m

    def build(self, m):
        from pyunicorn.climate import HavlinClimateNetwork
        from pvm.gen.objects import climate_data
        cd = climate_data(_c(m["obs"]), m["lat"], m["lon"], cycle=12)
        net = HavlinClimateNetwork(cd, max_delay=m["delay"],
                                   threshold=m["thr"],
                                   non_local=m["non_local"], silence_level=3)
        for k, W in m["attrs"].items():
            net.set_link_attribute(k, W)
        return net

    def mutators(self):
        def thr(o, m, r):
            t = float(r.choice([t for t in (1.2, 1.8, 2.2, 2.8, 3.4)
                                if t != m["thr"]]))
            o.set_threshold(t)
            return {**m, "thr": t, "attrs": {}}

        def delay(o, m, r):
            d = int(r.choice([d for d in (2, 3, 4, 5) if d != m["delay"]]))
            o.set_max_delay(d)
            return {**m, "delay": d, "attrs": {}}

        def nonloc(o, m, r):
            o.set_non_local(not m["non_local"])
            return {**m, "non_local": not m["non_local"], "attrs": {}}
        return [("set_threshold", thr), ("set_max_delay", delay),
                ("set_non_local", nonloc)]


# ---------------------------------------------------------------------------
# recurrence family

def _revisit(r, m, kw, fresh_values):
    """Value for a setter: with probability 1/2 a value this object had
    before under the same kind of setting (A-B-A histories: returning to an
    earlier value after a different kind of change must recompute), else a
    fresh one."""
    past = [v for (k, v) in m.get("_past", []) if k == kw]
    if past and r.random() < 0.5:
        return past[int(r.integers(0, len(past)))]
    return fresh_values[int(r.integers(0, len(fresh_values)))]


RP_SETTERS = {
    "set_fixed_threshold": lambda r, m: _revisit(
        r, m, "threshold", [0.3, 0.4, 0.6, 0.8, 0.9, 1.2, 1.4]),
    "set_fixed_threshold_std": lambda r, m: _revisit(
        r, m, "threshold_std", [0.2, 0.5, 1.0]),
    "set_fixed_recurrence_rate": lambda r, m: _revisit(
        r, m, "recurrence_rate", [0.1, 0.25, 0.5]),
    "set_fixed_local_recurrence_rate": lambda r, m: _revisit(
        r, m, "local_recurrence_rate", [0.2, 0.4]),
    "set_adaptive_neighborhood_size": lambda r, m: _revisit(
        r, m, "adaptive_neighborhood_size", [0.2, 0.4]),
}
RP_KW = {"set_fixed_threshold": "threshold",
         "set_fixed_threshold_std": "threshold_std",
         "set_fixed_recurrence_rate": "recurrence_rate",
         "set_fixed_local_recurrence_rate": "local_recurrence_rate",
         "set_adaptive_neighborhood_size": "adaptive_neighborhood_size"}


class RecurrencePlotS(Subject):
    name = "RecurrencePlot"
    attrs = ("N", "R")
    cls = "RecurrencePlot"
    setters = ("set_fixed_threshold", "set_fixed_threshold_std",
               "set_fixed_recurrence_rate", "set_fixed_local_recurrence_rate",
               "set_adaptive_neighborhood_size")
    deny = ("legendre_coordinates", "embed_time_series", "twins",
            "threshold_from_recurrence_rate",
            "threshold_from_recurrence_rate_fast", "permutation_entropy",
            "complexity_entropy")

    def gen(self, rng, small=True):
        n = int(rng.integers(12, 30))
        dim = int(rng.choice([1, 1, 2]))
        return {"x": _series(rng, n, dim), "metric": str(rng.choice(
            ["supremum", "euclidean", "manhattan"])),
            "mode": ("threshold", float(rng.choice([0.4, 0.8, 1.2]))),
            "emb": (2, 1) if dim == 1 and rng.random() < 0.5 else None}

    def _kw(self, m):
        kw = {m["mode"][0]: m["mode"][1]}
        if m["emb"]:
            kw.update(dim=m["emb"][0], tau=m["emb"][1])
        return kw

    def build(self, m):
        from pyunicorn import timeseries
        o = getattr(timeseries, self.cls)(
            _c(m["x"]), metric=m["metric"], silence_level=3, **self._kw(m))
        if m.get("E") is not None:
            # the phase-space trajectory was replaced through the public
            # `embedding` property (time_series itself stays what it was),
            # then the recurrence matrix was regenerated
            o.embedding = m["E"]
            setter = {v: k for k, v in RP_KW.items()}[m["mode"][0]]
            getattr(o, setter)(m["mode"][1])
        return o

    def mutators(self):
        out = []
        for s in self.setters:
            def f(o, m, r, s=s):
                v = RP_SETTERS[s](r, m)
                getattr(o, s)(v)
                return {**m, "mode": (RP_KW[s], v),
                        "_past": m.get("_past", []) + [m["mode"]]}
            out.append((s, f))

        def emb(o, m, r):
            # new phase-space trajectory through the public property, then
            # the recurrence matrix is regenerated at a fixed threshold
            n = int(r.integers(10, 24))
            E = np.float32(np.round(r.normal(size=(n, 2)) * 8) / 8)
            v = RP_SETTERS["set_fixed_threshold"](r, m)
            o.embedding = E
            o.set_fixed_threshold(v)
            return {**m, "E": E, "mode": ("threshold", v),
                    "_past": m.get("_past", []) + [m["mode"]]}
        if self.cls in ("RecurrencePlot", "RecurrenceNetwork"):
            out.append(("embedding=+set_fixed_threshold", emb))
        return out


class RecurrenceNetworkS(RecurrencePlotS):
    name = "RecurrenceNetwork"
    cls = "RecurrenceNetwork"
    attrs = ("N", "R") + NET_ATTRS[1:]
    setters = ("set_fixed_threshold", "set_fixed_threshold_std",
               "set_fixed_recurrence_rate", "set_fixed_local_recurrence_rate",
               "set_adaptive_neighborhood_size")
    deny = RecurrencePlotS.deny + NetworkS.deny
    max_patterns = 2

    def mutators(self):
        out = RecurrencePlotS.mutators(self)

        def node_w(o, m, r):
            raise Skip()
        return out + [("node_weights=", node_w)][:0]


class JointRecurrencePlotS(Subject):
    name = "JointRecurrencePlot"
    cls = "JointRecurrencePlot"
    # (`R` of a joint plot is a leftover of the base-class constructor, the
    #  documented matrix is recurrence_matrix() / JR)
    attrs = ("N", "JR")
    deny = RecurrencePlotS.deny

    def gen(self, rng, small=True):
        n = int(rng.integers(12, 26))
        return {"x": _series(rng, n), "y": _series(rng, n),
                "mode": ("threshold", (0.6, 0.8)), "lag": 0}

    def build(self, m):
        from pyunicorn import timeseries
        return getattr(timeseries, self.cls)(
            _c(m["x"]), _c(m["y"]), lag=m["lag"], silence_level=3,
            **{m["mode"][0]: m["mode"][1]})

    def mutators(self):
        def thr(o, m, r):
            v = (float(r.choice([0.3, 0.7, 1.1])),
                 float(r.choice([0.4, 0.9, 1.3])))
            o.set_fixed_threshold(v)
            return {**m, "mode": ("threshold", v)}

        def thr_std(o, m, r):
            v = (float(r.choice([0.3, 0.6])), float(r.choice([0.4, 0.8])))
            o.set_fixed_threshold_std(v)
            return {**m, "mode": ("threshold_std", v)}

        def rr(o, m, r):
            v = (float(r.choice([0.2, 0.4])), float(r.choice([0.25, 0.5])))
            o.set_fixed_recurrence_rate(v)
            return {**m, "mode": ("recurrence_rate", v)}
        return [("set_fixed_threshold", thr),
                ("set_fixed_threshold_std", thr_std),
                ("set_fixed_recurrence_rate", rr)]


class JointRecurrenceNetworkS(JointRecurrencePlotS):
    name = "JointRecurrenceNetwork"
    cls = "JointRecurrenceNetwork"
    attrs = ("N", "JR") + NET_ATTRS[1:]
    deny = RecurrencePlotS.deny + NetworkS.deny
    max_patterns = 2


class CrossRecurrencePlotS(Subject):
    # (the first line of the summary gives the shapes of the series the
    #  object was built from; the mutators of this subject assign embedded
    #  series directly, which the model represents as other series)
    str_tail = True
    name = "CrossRecurrencePlot"
    attrs = ("N", "M", "CR")
    deny = RecurrencePlotS.deny

    def gen(self, rng, small=True):
        return {"x": _series(rng, int(rng.integers(10, 22))),
                "y": _series(rng, int(rng.integers(10, 22))),
                "metric": str(rng.choice(["supremum", "euclidean"])),
                "mode": ("threshold", 0.7)}

    def build(self, m):
        from pyunicorn.timeseries import CrossRecurrencePlot
        return CrossRecurrencePlot(_c(m["x"]), _c(m["y"]),
                                   metric=m["metric"], silence_level=3,
                                   **{m["mode"][0]: m["mode"][1]})

    def mutators(self):
        def thr(o, m, r):
            v = float(r.choice([0.3, 0.5, 1.0, 1.5]))
            o.set_fixed_threshold(v)
            return {**m, "mode": ("threshold", v)}

        def rr(o, m, r):
            v = float(r.choice([0.15, 0.3, 0.6]))
            o.set_fixed_recurrence_rate(v)
            return {**m, "mode": ("recurrence_rate", v)}
        def emb(which):
            def f(o, m, r):
                n = int(r.integers(8, 20))
                E = np.float32(np.round(r.normal(size=(n, 1)) * 8) / 8)
                setattr(o, which + "_embedded", E)
                v = m["mode"][1] if m["mode"][0] == "threshold" else \
                    float(r.choice([0.5, 1.0]))
                o.set_fixed_threshold(v)
                return {**m, which: E[:, 0].astype(float),
                        "mode": ("threshold", v)}
            return f
        return [("set_fixed_threshold", thr),
                ("set_fixed_recurrence_rate", rr),
                ("x_embedded=+set_fixed_threshold", emb("x")),
                ("y_embedded=+set_fixed_threshold", emb("y"))]


class ISRNS(Subject):
    name = "InterSystemRecurrenceNetwork"
    attrs = ("N",) + NET_ATTRS[1:]
    deny = NetworkS.deny
    max_patterns = 2

    def gen(self, rng, small=True):
        return {"x": _series(rng, int(rng.integers(8, 16)), 2),
                "y": _series(rng, int(rng.integers(8, 16)), 2),
                "mode": ("threshold", (0.8, 0.9, 1.0))}

    def build(self, m):
        from pyunicorn.timeseries import InterSystemRecurrenceNetwork as I
        return I(_c(m["x"]), _c(m["y"]), silence_level=3,
                 **{m["mode"][0]: m["mode"][1]})

    def mutators(self):
        def thr(o, m, r):
            v = tuple(float(x) for x in r.choice([0.5, 0.7, 1.1, 1.4], 3))
            o.set_fixed_threshold(v)
            return {**m, "mode": ("threshold", v)}

        def rr(o, m, r):
            v = tuple(float(x) for x in r.choice([0.2, 0.35, 0.5], 3))
            o.set_fixed_recurrence_rate(v)
            return {**m, "mode": ("recurrence_rate", v)}
        return [("set_fixed_threshold", thr),
                ("set_fixed_recurrence_rate", rr)]


# ---------------------------------------------------------------------------

class ResNetworkS(Subject):
    name = "ResNetwork"
    attrs = NET_ATTRS
    deny = NetworkS.deny + ("edge_current_flow_betweenness",)
    max_patterns = 1

    def gen(self, rng, small=True):
        A = G.random_connected(rng, 4, 7)
        return {"A": A, "R": self._res(rng, A)}

    @staticmethod
    def _res(rng, A):
        n = len(A)
        R = np.triu(np.round(rng.uniform(0.5, 6, (n, n)) * 4) / 4, 1)
        return (R + R.T) * A

    def build(self, m):
        from pyunicorn.core import ResNetwork
        return ResNetwork(_c(m["R"]), silence_level=3)

    def mutators(self):
        def upd(o, m, r):
            R = self._res(r, m["A"])
            o.update_resistances(R.copy())
            return {**m, "R": R}

        def relink(o, m, r):
            # another link set on the same nodes (links removed and added),
            # then the resistances that belong to it
            n = len(m["A"])
            for _ in range(20):
                A2 = G.random_connected(r, n, n)
                if len(A2) == n and not np.array_equal(A2, m["A"]):
                    break
            else:
                raise Skip()
            R = self._res(r, A2)
            o.adjacency = A2.copy()
            o.update_resistances(R.copy())
            return {**m, "A": A2, "R": R}
        return [("update_resistances", upd),
                ("adjacency+update_resistances", relink)]

    def extra_queries(self, obj, m):
        return [
            ("effective_resistance(0,N-1)",
             lambda o: o.effective_resistance(0, o.N - 1)),
            ("effective_resistance(1,2)",
             lambda o: o.effective_resistance(1, 2)),
            ("vertex_current_flow_betweenness(1)",
             lambda o: o.vertex_current_flow_betweenness(1)),
            ("effective_resistance_closeness_centrality(0)",
             lambda o: o.effective_resistance_closeness_centrality(0)),
            ("get_R", lambda o: o.get_R()),
            ("get_admittance", lambda o: o.get_admittance()),
        ]


class ClimateDataS(Subject):
    name = "ClimateData"
    attrs = ()
    deny = ("indices_selected_months", "indices_selected_phases",
            "anomaly_selected_months", "print_data_info", "rescale")

    def gen(self, rng, small=True):
        T, n = int(rng.choice([24, 30, 36])), int(rng.integers(5, 9))
        return {"obs": np.round(rng.normal(size=(T, n)) * 16) / 16,
                "lat": np.sort(rng.choice(np.arange(-80, 81, 5), n, False)
                               ).astype(float),
                "lon": np.sort(rng.choice(np.arange(0, 360, 5), n, False)
                               ).astype(float),
                "cycle": int(rng.choice([4, 12])), "window": None,
                "anom": False}

    def build(self, m):
        from pvm.gen.objects import climate_data
        return climate_data(_c(m["obs"]), m["lat"], m["lon"],
                            cycle=m["cycle"], anomalies=m["anom"],
                            window=copy.deepcopy(m["window"]))

    def mutators(self):
        def win(o, m, r):
            T = len(m["obs"])
            t0 = float(r.integers(0, T // 2))
            t1 = float(r.integers(T // 2, T))
            la = np.sort(r.choice(m["lat"], 2, False))
            w = {"time_min": t0, "time_max": t1, "lat_min": float(la[0]),
                 "lat_max": float(la[1]), "lon_min": 0., "lon_max": 0.}
            if r.random() < 0.3:
                w["time_min"] = w["time_max"] = 0.
            o.set_window(copy.deepcopy(w))
            return {**m, "window": w}

        def glob(o, m, r):
            o.set_global_window()
            return {**m, "window": None}
        return [("set_window", win), ("set_global_window", glob)]

    def extra_queries(self, obj, m):
        return [("anomaly_selected_months([0,1])",
                 lambda o: o.anomaly_selected_months([0, 1])),
                ("grid.lat_sequence", lambda o: o.grid.lat_sequence()),
                ("grid.N", lambda o: o.grid.N),
                ("grid.angular_distance",
                 lambda o: o.grid.angular_distance())]


class SurrogatesS(Subject):
    name = "Surrogates"
    attrs = ("N", "n_time", "original_data", "embedding")
    deny = ("embed_time_series_array", "recurrence_plot",
            "test_pearson_correlation", "test_mutual_information")

    def gen(self, rng, small=True):
        N, T = int(rng.integers(1, 4)), int(rng.integers(16, 40))
        return {"x": np.round(rng.normal(size=(N, T)) * 16) / 16 +
                np.arange(T) * 0.01, "normalized": False}

    def build(self, m):
        from pyunicorn.timeseries import Surrogates
        s = Surrogates(_c(m["x"]), silence_level=3)
        #  twins() works on the object's current embedding, an input of its
        #  own that the user sets (here: from the data as given)
        s.embedding = Surrogates.embed_time_series_array(
            np.array(m["x"], dtype=float), m.get("dim", 2), m.get("tau", 1),
            silence_level=3)
        if m["normalized"]:
            s.normalize_original_data()
        return s

    def mutators(self):
        def norm(o, m, r):
            o.normalize_original_data()
            return {**m, "normalized": True}

        def emb(o, m, r):
            from pyunicorn.timeseries import Surrogates
            dim, tau = int(r.integers(1, 4)), int(r.integers(1, 3))
            o.embedding = Surrogates.embed_time_series_array(
                np.array(m["x"], dtype=float), dim, tau, silence_level=3)
            return {**m, "dim": dim, "tau": tau}
        return [("normalize_original_data", norm), ("embedding=", emb)]

    def extra_queries(self, obj, m):
        def tw(d, tau):
            # a scan over embedding parameters at a fixed threshold; the
            # method embeds the data itself, the caller then puts the
            # embedding back that it had set (public setter)
            def q(o):
                import random
                e = o.embedding
                st = random.getstate()
                random.seed(7)
                try:
                    return o.twin_surrogates(d, tau, 0.3, 2)
                finally:
                    o.embedding = e
                    random.setstate(st)     # (the seeding is this query's)
            return q
        return [("twins(0.3,2)", lambda o: o.twins(0.3, 2)),
                ("twin_surrogates(1,1,0.3,2)", tw(1, 1)),
                ("twin_surrogates(3,2,0.3,2)", tw(3, 2)),
                ("original_data_fft", lambda o: o.original_data_fft())]


class EventSeriesS(Subject):
    """No public mutators: takes part in the purity monitor (C06) only."""
    name = "EventSeries"
    deny = ("event_analysis_significance", "make_event_matrix",
            "event_synchronization", "event_coincidence_analysis",
            "get_event_matrix")

    def gen(self, rng, small=True):
        T, N = int(rng.integers(24, 40)), int(rng.integers(3, 5))
        ev = (rng.random((T, N)) < 0.25).astype(int)
        ev[1, :] = 1
        ev[T - 2, :] = 1
        return {"ev": ev, "taumax": float(rng.choice([2., 3., 5.])),
                "lag": float(rng.choice([0., 1.]))}

    def build(self, m):
        from pyunicorn.eventseries import EventSeries
        return EventSeries(_c(m["ev"]), taumax=m["taumax"], lag=m["lag"])

    def mutators(self):
        return []

    def extra_queries(self, obj, m):
        qs = []
        for meth in ("ES", "ECA"):
            for sym in ("directed", "symmetric", "antisym", "mean", "max",
                        "min"):
                for wt in (("symmetric",) if meth == "ES" else
                           ("symmetric", "retarded", "advanced")):
                    qs.append((f"event_series_analysis({meth},{sym},{wt})",
                               lambda o, a=meth, b=sym, c=wt:
                               o.event_series_analysis(
                                   method=a, symmetrization=b,
                                   window_type=c)))
        return qs


class CouplingAnalysisS(Subject):
    """No public mutators: takes part in the purity monitor (C06) only."""
    name = "CouplingAnalysis"

    def gen(self, rng, small=True):
        T, N = int(rng.integers(30, 50)), int(rng.integers(2, 4))
        x = rng.normal(size=(T, N))
        x[1:, 0] += 0.6 * x[:-1, -1]
        return {"x": np.round(x * 32) / 32}

    def build(self, m):
        from pyunicorn.funcnet import CouplingAnalysis
        return CouplingAnalysis(_c(m["x"]), silence_level=3)

    def mutators(self):
        return []

    def queries(self, obj, m):
        qs = []
        for tau in (0, 1, 3, 5):
            for lm in ("all", "max"):
                qs.append((f"cross_correlation(tau_max={tau},{lm})",
                           lambda o, t=tau, l=lm: o.cross_correlation(
                               tau_max=t, lag_mode=l)))
            for est in ("gauss", "binning"):
                qs.append((f"mutual_information(tau_max={tau},{est})",
                           lambda o, t=tau, e=est: o.mutual_information(
                               tau_max=t, estimator=e, bins=3,
                               lag_mode="all")))
            if tau:
                qs.append((f"information_transfer(tau_max={tau},gauss)",
                           lambda o, t=tau: o.information_transfer(
                               tau_max=t, estimator="gauss",
                               lag_mode="max")))
        # the nearest-neighbour estimators (they break ties with noise drawn
        # from the global generator)
        qs.append(("mutual_information(tau_max=1,knn)",
                   lambda o: o.mutual_information(
                       tau_max=1, estimator="knn", knn=3, lag_mode="all")))
        qs.append(("information_transfer(tau_max=2,knn)",
                   lambda o: o.information_transfer(
                       tau_max=2, estimator="knn", knn=3, lag_mode="max")))
        return qs


def purity_only_subjects():
    return [EventSeriesS(), CouplingAnalysisS()]


def all_subjects():
    return [NetworkS(False), NetworkS(True), InteractingS(), GeoNetworkS(),
            ClimateNetworkS(), TsonisS(), SpearmanS(), MutualInfoS(), HavlinS(),
            RecurrencePlotS(),
            RecurrenceNetworkS(), JointRecurrencePlotS(),
            JointRecurrenceNetworkS(), CrossRecurrencePlotS(), ISRNS(),
            ResNetworkS(), ClimateDataS(), SurrogatesS()]
