"""M2 — source-free instrumentation of `pyunicorn.core.cache.Cached.method`.

`install()` must run before pyunicorn is imported.  A sys.meta_path finder
wraps the loader of `pyunicorn.core.cache` and replaces `Cached.method` right
after that module executes, i.e. before any class body applies the decorator.
The replacement wraps the real lru wrapper, derives hit/miss from
`cache_info()` deltas and keeps cache_info / cache_clear / __wrapped__."""
import functools
import importlib.abc
import importlib.util
import sys
import threading

EVENTS = []          # (class name, method name, hit: bool, depth)
# memoised values are immutable: fingerprint of every mutable value at the
# moment it is stored, compared at every later hit that returns the same
# object (id -> (fingerprint, the object itself, so that the id stays taken))
FINGERPRINTS = {}
MODIFIED = []        # (class name, method name) of hits whose value changed
ENABLED = [True]
_depth = threading.local()
COUNTS = {"hit": 0, "miss": 0}
INSTALLED = [False]
PATCHED = [False]


def _fingerprint(r):
    try:
        import numpy as np
        if isinstance(r, np.ndarray):
            if r.nbytes > (1 << 22) or r.dtype == object:
                return None
            return ("a", r.shape, r.dtype.str,
                    hash(np.ascontiguousarray(r).tobytes()))
        if isinstance(r, (list, dict)):
            t = repr(r)
            return ("r", hash(t)) if len(t) < (1 << 20) else None
    except Exception:  # noqa
        return None
    return None


def _patch(module):
    Cached = module.Cached
    orig = Cached.__dict__["method"].__func__

    def method(cls, name=None, attrs=None):
        deco = orig(cls, name, attrs)

        def wrapper(f):
            w = deco(f)
            if not hasattr(w, "cache_info"):
                return w

            @functools.wraps(f)
            def inst(self, *a, **k):
                if not ENABLED[0]:
                    return w(self, *a, **k)
                d = getattr(_depth, "v", 0)
                _depth.v = d + 1
                before = w.cache_info()
                try:
                    r = w(self, *a, **k)
                finally:
                    _depth.v = d
                after = w.cache_info()
                hit = after.hits > before.hits and \
                    after.misses == before.misses
                COUNTS["hit" if hit else "miss"] += 1
                fp = _fingerprint(r)
                if fp is not None:
                    known = FINGERPRINTS.get(id(r))
                    if hit and known is not None and known[1] is r \
                            and known[0] != fp:
                        MODIFIED.append((type(self).__name__, f.__name__))
                    if len(FINGERPRINTS) < 50000:
                        FINGERPRINTS[id(r)] = (fp, r)
                if len(EVENTS) < 200000:
                    EVENTS.append((type(self).__name__, f.__name__, hit, d))
                return r
            inst.cache_info = w.cache_info
            inst.cache_clear = w.cache_clear
            inst.__wrapped__ = w.__wrapped__
            inst._pvm_lru = w
            return inst
        return wrapper
    Cached.method = classmethod(method)
    PATCHED[0] = True


class _Loader(importlib.abc.Loader):
    def __init__(self, inner):
        self.inner = inner

    def create_module(self, spec):
        return self.inner.create_module(spec)

    def exec_module(self, module):
        self.inner.exec_module(module)
        _patch(module)


class _Finder(importlib.abc.MetaPathFinder):
    def find_spec(self, name, path, target=None):
        if name != "pyunicorn.core.cache":
            return None
        sys.meta_path.remove(self)
        try:
            spec = importlib.util.find_spec(name)
        finally:
            sys.meta_path.insert(0, self)
        if spec is None:
            return None
        spec.loader = _Loader(spec.loader)
        return spec


def install():
    if INSTALLED[0]:
        return
    assert "pyunicorn.core.cache" not in sys.modules, \
        "shadow cache must be installed before pyunicorn is imported"
    sys.meta_path.insert(0, _Finder())
    INSTALLED[0] = True


def mark():
    return len(EVENTS)


def outermost_since(mark_):
    """Outermost (depth 0) cached-method calls recorded since mark."""
    return [e for e in EVENTS[mark_:] if e[3] == 0]


def reset():
    del EVENTS[:]
    FINGERPRINTS.clear()
    del MODIFIED[:]


def forget_values():
    """Drop the fingerprints (and the references that keep the fingerprinted
    values alive); called between cases."""
    FINGERPRINTS.clear()
