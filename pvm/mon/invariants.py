"""M1 — class invariants evaluated at quiescent points.

`net_invariant(net)` returns the list of broken clauses (short, stable
strings usable inside mechanism signatures) of the network invariant I_net
of DESIGN.md section 3.3 for any `pyunicorn.core.Network` (sub)class instance:

  N == sp_A.shape[0] == sp_A.shape[1] == graph.vcount();
  adjacency == sp_A.toarray(), entries in {0,1};
  undirected => symmetric;  empty diagonal;
  n_links == nnz/(1 or 2);  link_density == nnz/(N(N-1));
  edge set of `graph` == nonzero set (as a bijection: no multi-edges);
  len(node_weights) == N;  total_node_weight == node_weights.sum(),
  mean_node_weight == node_weights.mean().

Convention for N < 2: there is no node pair, `link_density` must be 0 (the
value the attribute is documented/initialised with: "proportion of linked node
pairs", default 0).

Depends on numpy only; never raises (a clause whose evaluation raises is
reported as "<clause>:raises:<ExcType>"); never calls a cached method of the
network, so evaluating it does not perturb cache histories.
"""
import numpy as np

RTOL = 1e-12

CLAUSES = (
    "N-is-int", "sp_A.shape!=(N,N)", "graph.vcount!=N", "adjacency!=sp_A",
    "entries-not-0/1", "asymmetric-undirected", "self-loop", "n_links",
    "link_density", "graph-edges!=nonzeros", "graph-multi-edge",
    "len(node_weights)!=N", "total_node_weight", "mean_node_weight")


def _close(a, b):
    try:
        a = float(a)
        b = float(b)
    except (TypeError, ValueError):
        return False
    if np.isnan(a) or np.isnan(b):
        return False
    return abs(a - b) <= RTOL * max(1.0, abs(a), abs(b))


def net_invariant(net):
    """Return the list of broken clauses of I_net (empty list = holds)."""
    broken = []

    def clause(name, fn):
        try:
            r = fn()
        except Exception as e:      # noqa: the monitor must never raise
            broken.append(f"{name}:raises:{type(e).__name__}")
            return
        if r:
            broken.append(r if isinstance(r, str) else name)

    st = {}

    def c_N():
        N = net.N
        if isinstance(N, bool) or not isinstance(N, (int, np.integer)) \
                or N < 0:
            return True
        st["N"] = int(N)
        return False
    clause("N-is-int", c_N)
    if "N" not in st:
        return broken
    N = st["N"]

    def c_shape():
        sh = tuple(net.sp_A.shape)
        if sh != (N, N):
            return True
        st["S"] = np.asarray(net.sp_A.toarray())
        return False
    clause("sp_A.shape!=(N,N)", c_shape)

    clause("graph.vcount!=N", lambda: int(net.graph.vcount()) != N)

    S = st.get("S")
    if S is not None:
        def c_adj():
            A = np.asarray(net.adjacency)
            return A.shape != S.shape or not np.array_equal(A, S)
        clause("adjacency!=sp_A", c_adj)
        clause("entries-not-0/1",
               lambda: not bool(np.all((S == 0) | (S == 1))))
        B = (S != 0)
        nnz = int(B.sum())
        directed = bool(net.directed)
        if not directed:
            clause("asymmetric-undirected",
                   lambda: not np.array_equal(B, B.T))
        clause("self-loop", lambda: bool(np.diagonal(B).any()))

        def c_nl():
            want = nnz if directed else nnz / 2.0
            nl = net.n_links
            return (isinstance(nl, bool) or
                    not isinstance(nl, (int, np.integer)) or nl != want)
        clause("n_links", c_nl)

        def c_ld():
            want = nnz / (N * (N - 1.0)) if N >= 2 else 0.0
            return not _close(net.link_density, want)
        clause("link_density", c_ld)

        def c_edges():
            el = [(int(a), int(b)) for a, b in net.graph.get_edgelist()]
            if directed:
                es = el
                nz = set(zip(*(int_list(x) for x in np.nonzero(B))))
            else:
                es = [(min(a, b), max(a, b)) for a, b in el]
                U = B | B.T
                iu = np.nonzero(np.triu(U, 0))
                nz = set(zip(int_list(iu[0]), int_list(iu[1])))
            if set(es) != nz:
                return "graph-edges!=nonzeros"
            if len(es) != len(set(es)):
                return "graph-multi-edge"
            return False
        clause("graph-edges!=nonzeros", c_edges)

    def c_w():
        w = net.node_weights
        if w is None or len(w) != N:
            return True
        st["w"] = np.asarray(w, dtype=float)
        return False
    clause("len(node_weights)!=N", c_w)
    w = st.get("w")
    if w is not None:
        clause("total_node_weight",
               lambda: not _close(net.total_node_weight, w.sum()))
        if N > 0:
            clause("mean_node_weight",
                   lambda: not _close(net.mean_node_weight, w.mean()))
    return broken


def int_list(x):
    return [int(v) for v in x]
