"""M5 — stand-in for `pyunicorn.utils.mpi` with a controllable scheduler and a
protocol checker.  It offers the attributes and functions the master loops in
core/network.py use, emulates transport by pickling, defers execution of the
submitted calls and completes them in a scheduler-chosen order, and enforces
the documented constraint of the real module ("for each slave, the results of
calls assigned to that slave must be collected in the same order as those
calls were submitted"; an id can be collected only once)."""
import pickle
import sys

import numpy as np


class MPIException(Exception):
    pass


class ProtocolError(Exception):
    """Raised into the library exactly where the real module would raise."""


RANGE_ARGS = {   # name -> positions of (N, start_i, end_i) in args
    "core._ext.numerics._mpi_newman_betweenness": (2, 3, 4),
    "core._ext.numerics._mpi_nsi_newman_betweenness": (2, 5, 6),
    "Network._mpi_nsi_arenas_betweenness": (0, 5, 6),
}


class FakeMPI:
    """policy: assignment of calls to workers:
         'least'  – the real rule (smallest estimated total time)
         'rr'     – round robin,  'random' – seeded random
       order: when deferred calls are executed:
         'eager'  – at submission (the worker is idle and fast)
         'lazy'   – only when the master asks for the result (slow workers)
         'reverse'– at the first get_result all pending work is executed,
                    workers in reverse order (late submissions finish first)
         'random' – at every master interaction a seeded random subset of
                    workers advances by one call"""

    def __init__(self, size, policy="least", order="lazy", rng=None):
        assert size >= 2
        self.available = True
        self.size = size
        self.rank = 0
        self.am_master = True
        self.am_slave = False
        self.n_slaves = size - 1
        self.policy = policy
        self.order = order
        self.rng = rng or np.random.default_rng(0)
        self.MPIException = MPIException
        self.total_time_est = np.zeros(size)
        self.total_time_est[0] = np.inf
        self.assigned = {}
        self.worker_queue = [[] for _ in range(size)]   # uncollected ids
        self.todo = [[] for _ in range(size)]           # unexecuted ids
        self.calls = {}                                  # id -> pickled call
        self.done = {}                                   # id -> pickled result
        self._rr = 0
        # observations
        self.log = []            # (event, id, worker)
        self.protocol_errors = []
        self.collected = []
        self.submitted = []
        self.exec_order = []
        self.ranges = {}         # name -> list of (N, start, end)

    # ---- transport -----------------------------------------------------
    def _execute(self, cid):
        name, args, kwargs, module = pickle.loads(self.calls[cid])
        fn = eval(name, sys.modules[module].__dict__)   # as the real slave
        res = fn(*args, **kwargs)
        self.done[cid] = pickle.dumps(res)
        self.exec_order.append(cid)

    def _advance(self, worker, upto=None):
        """Worker processes its FIFO up to (and including) `upto`, or one
        call if upto is None."""
        q = self.todo[worker]
        while q:
            cid = q.pop(0)
            self._execute(cid)
            if upto is None or cid == upto:
                break

    def _tick(self):
        if self.order == "random":
            for w in range(1, self.size):
                if self.todo[w] and self.rng.random() < 0.5:
                    self._advance(w)

    # ---- API of pyunicorn.utils.mpi -------------------------------------
    def submit_call(self, name_to_call, args=(), kwargs={},  # noqa
                    module="__main__", time_est=1, id=None, slave=None):
        if id is None:
            id = float(self.rng.random())
        if id in self.assigned:
            self.protocol_errors.append(f"duplicate id {id!r}")
            raise MPIException(f"id {id} already in queue!")
        if slave is None or slave < 1 or slave >= self.size:
            if self.policy == "least":
                slave = int(np.argmin(self.total_time_est))
            elif self.policy == "rr":
                slave = 1 + self._rr % (self.size - 1)
                self._rr += 1
            else:
                slave = int(self.rng.integers(1, self.size))
        self.calls[id] = pickle.dumps((name_to_call, args, kwargs, module))
        if name_to_call in RANGE_ARGS:
            iN, i0, i1 = RANGE_ARGS[name_to_call]
            self.ranges.setdefault(name_to_call, []).append(
                (int(args[iN]), int(args[i0]), int(args[i1])))
        self.total_time_est[slave] += time_est
        self.assigned[id] = slave
        self.worker_queue[slave].append(id)
        self.todo[slave].append(id)
        self.submitted.append(id)
        self.log.append(("submit", id, slave))
        if self.order == "eager":
            self._advance(slave, upto=id)
        self._tick()
        return id

    def get_result(self, id):
        if id not in self.assigned:
            self.protocol_errors.append(
                f"get_result({id!r}) without a pending submit_call")
            raise KeyError(id)      # what the real module does
        source = self.assigned[id]
        if self.worker_queue[source][0] != id:
            self.protocol_errors.append(
                f"get_result({id!r}) before get_result("
                f"{self.worker_queue[source][0]!r}) of the same worker")
            raise MPIException(
                f"get_result({id}) called before "
                f"get_result({self.worker_queue[source][0]})!")
        if self.order == "reverse" and not self.collected:
            for w in range(self.size - 1, 0, -1):
                while self.todo[w]:
                    self._advance(w)
        self._tick()
        if id not in self.done:
            self._advance(source, upto=id)
        res = pickle.loads(self.done.pop(id))
        self.worker_queue[source].remove(id)
        self.assigned.pop(id)
        self.collected.append(id)
        self.log.append(("get", id, source))
        return res

    def get_next_result(self):
        for q in self.worker_queue:
            if q:
                return self.get_result(q[0])
        self.protocol_errors.append("get_next_result with nothing pending")
        raise MPIException("no pending call")

    def info(self):
        pass

    def terminate(self):
        pass

    def abort(self):
        pass

    # ---- protocol checker (after the measure returned) -------------------
    def check(self):
        """-> list of protocol breaches observed in this run."""
        errs = list(self.protocol_errors)
        if self.assigned:
            errs.append(f"{len(self.assigned)} submitted call(s) never "
                        f"collected")
        if sorted(map(repr, self.collected)) != \
                sorted(map(repr, self.submitted)) and not self.assigned:
            errs.append("collected ids differ from submitted ids")
        return errs

    def tiling_errors(self):
        """The [start,end) ranges submitted for one component must tile
        [0,N) exactly.  Ranges of successive components are separated by
        the restart at 0."""
        errs = []
        for name, rs in self.ranges.items():
            groups, cur = [], []
            for (N, a, b) in rs:
                if a == 0 and cur:
                    groups.append(cur)
                    cur = []
                cur.append((N, a, b))
            if cur:
                groups.append(cur)
            for g in groups:
                N = g[0][0]
                pos = 0
                for (n, a, b) in g:
                    if n != N or a != pos or b <= a or b > N:
                        errs.append(f"{name}: ranges {g} do not tile [0,{N})")
                        break
                    pos = b
                else:
                    if pos != N:
                        errs.append(f"{name}: ranges {g} do not tile "
                                    f"[0,{N})")
        return errs

    def max_chunks(self):
        best = 0
        for name, rs in self.ranges.items():
            cur = 0
            for (N, a, b) in rs:
                cur = 1 if a == 0 else cur + 1
                best = max(best, cur)
        return best
