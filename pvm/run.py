"""Driver: build -> shards in subprocesses -> merge -> verdict -> evidence."""
import argparse
import fnmatch
import glob
import hashlib
import importlib
import json
import os
import shutil
import subprocess
import sys
import tempfile
import time
from concurrent.futures import ThreadPoolExecutor

from pvm import build

VERIF = build.VERIF
EVID = os.environ.get("VERIF_EVIDENCE_DIR") or os.path.join(VERIF, "evidence")
REPLAY = os.environ.get("VERIF_REPLAY_DIR") or os.path.join(VERIF, "replay")
KNOWN = os.path.join(VERIF, "known_findings.json")
NCPU = min(16, os.cpu_count() or 4)


def load_known(prop):
    try:
        with open(KNOWN) as fh:
            data = json.load(fh)
    except FileNotFoundError:
        return []
    return [f for f in data.get("findings", [])
            if f.get("property") == prop and f.get("status") == "known"]


def match_known(sig, known):
    for f in known:
        if fnmatch.fnmatchcase(sig, f["signature"]):
            return f
    return None


def _one_run(cmd, env, timeout, out):
    t0 = time.time()
    try:
        p = subprocess.run(cmd, cwd=VERIF, env=env, timeout=timeout,
                           stdout=subprocess.PIPE, stderr=subprocess.STDOUT,
                           text=True, errors="replace")
        rc, log = p.returncode, p.stdout
    except subprocess.TimeoutExpired as e:
        rc, log = "timeout", (e.stdout or b"")
        if isinstance(log, bytes):
            log = log.decode(errors="replace")
    res = None
    if os.path.exists(out):
        try:
            with open(out) as fh:
                res = json.load(fh)
        except Exception:  # noqa
            res = None
    return rc, log, res, time.time() - t0


def run_shard(prop, tier, seed, shard, nshards, env, outdir, timeout,
              budget, only_case=None, resume=False):
    """Run one shard.  With resume=True (sanitizer workloads) a process that
    dies is restarted after the case that killed it; every segment's
    checkpointed counters are kept and the deaths are reported."""
    env = dict(env)
    env["PVM_SHARD"] = str(shard)
    env["PVM_TMP"] = outdir
    if "ASAN_OPTIONS_TMPL" in env:
        log = os.path.join(outdir, f"asan{shard}")
        env["ASAN_OPTIONS"] = env.pop("ASAN_OPTIONS_TMPL").format(log=log)
        env["UBSAN_OPTIONS"] = env.pop("UBSAN_OPTIONS_TMPL").format(log=log)
        env["PVM_SANLOG"] = log
    segments, deaths = [], []
    resume_after = None
    t0 = time.time()
    for attempt in range(40):
        out = os.path.join(outdir, f"shard{shard}.{attempt}.json")
        prog = os.path.join(outdir, f"progress{shard}")
        cmd = [build.PY, "-m", "pvm.shard", prop, "--tier", tier,
               "--seed", str(seed), "--shard", str(shard),
               "--nshards", str(nshards), "--out", out]
        if budget:
            # CPU-second budget; wall-clock watchdog at six times the
            # budget, at most 60 % of the run's timeout
            el = time.time() - t0
            cap = max(budget, min(6.0 * budget, 0.6 * timeout))
            cmd += ["--budget", str(max(5.0, budget - el)),
                    "--wallcap", str(max(5.0, cap - el))]
        if only_case is not None:
            cmd += ["--only-case", str(only_case)]
        if resume:
            cmd += ["--progress", prog]
            if os.path.exists(prog):
                os.remove(prog)
        if resume_after is not None:
            cmd += ["--resume-after", resume_after]
        rc, log, res, wall = _one_run(cmd, env, timeout, out)
        segments.append({"shard": shard, "rc": rc, "log": log[-6000:],
                         "res": res, "wall": wall})
        if rc in (0, 3) or not resume or rc == "timeout":
            break
        # died: which case?
        try:
            with open(prog) as fh:
                cid = fh.read().strip()
        except OSError:
            cid = None
        if not cid or cid == resume_after:
            break
        deaths.append({"case_id": cid, "rc": rc, "log": log[-3000:],
                       "shard": shard})
        resume_after = cid
    last = segments[-1]
    return {"shard": shard, "rc": last["rc"], "log": last["log"],
            "res": last["res"], "wall": time.time() - t0,
            "segments": segments, "deaths": deaths}


def merge(results):
    m = {"evaluations": 0, "nontrivial": set(), "counters": {}, "maxima": {},
         "events": {}, "samples": [], "timeouts": 0, "notes": {}}
    for r in [seg for R in results for seg in R["segments"]]:
        d = r["res"]
        if not d:
            continue
        m["evaluations"] += d["evaluations"]
        m["nontrivial"].update(d["nontrivial"])
        for k, v in d["counters"].items():
            m["counters"][k] = m["counters"].get(k, 0) + v
        for k, v in d["maxima"].items():
            m["maxima"][k] = max(m["maxima"].get(k, v), v)
        for sig, e in d["events"].items():
            t = m["events"].setdefault(sig, {"count": 0, "details": []})
            t["count"] += e["count"]
            t["details"] += e["details"][:max(0, 3 - len(t["details"]))]
        for s in d["samples"]:
            if len(m["samples"]) < 6:
                m["samples"].append(s)
        m["timeouts"] += d["timeouts"]
        for k, v in d["notes"].items():
            m["notes"].setdefault(k, v)
    return m


def main(argv=None):
    ap = argparse.ArgumentParser(prog="check")
    ap.add_argument("prop")
    ap.add_argument("--tier", default=None, choices=["quick", "thorough"])
    ap.add_argument("--replay", default=None)
    ap.add_argument("--keep", action="store_true")
    ap.add_argument("--shards", type=int, default=None)
    a = ap.parse_args(argv)
    prop = a.prop.upper()
    tier = a.tier or os.environ.get("VERIF_TIER") or "quick"
    if tier not in ("quick", "thorough"):
        tier = "quick"
    seed = int(os.environ.get("VERIF_SEED", "0") or 0)
    t0 = time.time()
    mod = importlib.import_module("pvm.checks." + prop.lower())
    META = mod.META

    only_case = None
    only_shard = None
    if a.replay:
        with open(a.replay) as fh:
            rp = json.load(fh)
        d0 = rp["details"][0]
        tier, seed = d0["tier"], d0["seed"]
        only_case, only_shard = d0["case_id"], d0["shard"]
        forced_nshards = d0["nshards"]

    flavour = META.get("flavour", "plain")
    try:
        src = build.ensure(flavour)
    except Exception as e:  # noqa
        print(f"INCONCLUSIVE property={prop} reason=build-failed")
        print(str(e)[-3000:])
        return 2
    extra = {}
    if flavour != "plain":
        extra["ASAN_OPTIONS_TMPL"] = META.get(
            "asan_options",
            "detect_leaks=0:halt_on_error=1:abort_on_error=1:"
            "allocator_may_return_null=1:log_path={log}")
        extra["UBSAN_OPTIONS_TMPL"] = META.get(
            "ubsan_options",
            "print_stacktrace=1:halt_on_error=1:log_path={log}")
    env = build.child_env(src, flavour, extra)

    nshards = a.shards or META.get("shards", {}).get(tier, NCPU)
    if a.replay:
        nshards = forced_nshards
    timeout = META.get("timeout", {}).get(tier, 900 if tier == "quick"
                                          else 3600)
    budget = META.get("budget", {}).get(tier)
    os.makedirs(build.CACHE, exist_ok=True)
    outdir = tempfile.mkdtemp(prefix=f"run-{prop}-", dir=build.CACHE)
    shards = range(nshards) if only_shard is None else [only_shard]
    with ThreadPoolExecutor(max_workers=NCPU) as ex:
        results = list(ex.map(
            lambda s: run_shard(prop, tier, seed, s, nshards, env, outdir,
                                timeout, budget, only_case,
                                bool(META.get("resume_on_death"))), shards))
    # sanitizer logs
    san_logs = {}
    for f in sorted(glob.glob(os.path.join(outdir, "asan*"))):
        try:
            with open(f, errors="replace") as fh:
                san_logs[os.path.basename(f)] = fh.read()[-20000:]
        except OSError:
            pass
    m = merge(results)
    m["notes"]["_run"] = {"tier": tier, "seed": seed}
    if hasattr(mod, "post"):
        mod.post(m, results, san_logs)

    crashed = [r for r in results if r["rc"] != 0 or r["res"] is None]
    incon = []
    for r in crashed:
        why = "timeout" if r["rc"] == "timeout" else f"rc={r['rc']}"
        err = (r["res"] or {}).get("error") or r["log"][-1500:]
        incon.append(f"shard {r['shard']} {why}: {err}")
    for name, floor in META.get("floors", {}).get(tier, {}).items():
        if a.replay:
            break
        got = m["counters"].get(name, 0)
        if got < floor:
            incon.append(f"coverage floor missed: {name}={got} < {floor}")

    known = load_known(prop)
    os.makedirs(REPLAY, exist_ok=True)
    viol, kf = [], {}
    for sig, e in sorted(m["events"].items()):
        f = match_known(sig, known)
        if f is not None:
            k = kf.setdefault(f["signature"], {"finding": f, "count": 0,
                                               "sample": e["details"][:1]})
            k["count"] += e["count"]
        else:
            path = os.path.join(
                REPLAY, f"{prop}-{hashlib.sha1(sig.encode()).hexdigest()[:10]}.json")
            with open(path, "w") as fh:
                json.dump({"property": prop, "signature": sig,
                           "count": e["count"], "details": e["details"]},
                          fh, indent=1)
            viol.append((sig, e, path))

    for k in kf.values():
        f = k["finding"]
        print(f"KNOWN-FINDING: property={prop} {f['signature']} "
              f"{f.get('what', '')} (events={k['count']})")
    for sig, e, path in viol:
        d = e["details"][0]["detail"] if e["details"] else None
        print(f"VIOLATION property={prop} replay={path}")
        print(f"  signature={sig} count={e['count']}")
        print(f"  first={json.dumps(d)[:1500]}")

    wall = time.time() - t0
    ndist = len(m["nontrivial"])
    samples = m["samples"] or [{"note": "no sample recorded"}]
    cov = {
        "evaluations": int(m["evaluations"]),
        "distinct_nontrivial": int(ndist),
        "rule": META.get("rule", ""),
        "samples": samples,
        "counters": m["counters"],
        "observed_maxima": m["maxima"],
        "notes": m["notes"],
        "shards": nshards,
        "case_timeouts": m["timeouts"],
        "violation_signatures": [s for s, _, _ in viol],
        "known_findings_matched": [
            {"signature": k["finding"]["signature"], "events": k["count"],
             "sample": k["sample"]} for k in kf.values()],
        "inconclusive_reasons": incon,
        "shard_wall_s": [round(r["wall"], 1) for r in results],
    }
    if "exhaustive_subspaces" in META:
        cov["exhaustive_subspaces"] = META["exhaustive_subspaces"].get(
            tier, [])
    ev = {"property_id": prop, "tier": tier, "seed": seed,
          "level": META.get("level", "exploration"), "coverage": cov,
          "assumptions": META.get("assumptions", []),
          "wall_s": round(wall, 2), "violations": len(viol),
          "verdict": ("violated" if viol else
                      "inconclusive" if incon else "held")}
    if not a.replay:
        os.makedirs(EVID, exist_ok=True)
        tmp = os.path.join(EVID, f".{prop}.json.tmp")
        with open(tmp, "w") as fh:
            json.dump(ev, fh, indent=1)
        os.replace(tmp, os.path.join(EVID, f"{prop}.json"))
        # keep the last run of each tier as well (the main file is always
        # the most recent run)
        with open(os.path.join(EVID, f"{prop}.{tier}.json"), "w") as fh:
            json.dump(ev, fh, indent=1)
    if not a.keep:
        shutil.rmtree(outdir, ignore_errors=True)
    else:
        print("kept", outdir)
    print(f"[{prop}] tier={tier} seed={seed} evaluations={m['evaluations']} "
          f"nontrivial={ndist} events={sum(e['count'] for e in m['events'].values())} "
          f"known={len(kf)} violations={len(viol)} wall={wall:.1f}s")
    if viol:
        return 1
    if incon:
        for r in incon:
            print(f"INCONCLUSIVE property={prop} reason={r[:2000]}")
        return 2
    return 0


if __name__ == "__main__":
    sys.exit(main())
