"""C18 — resistive-network quantities obey circuit laws.

Signatures: "<method>:<relation|differs|raises:<Exc>>[:null-mode][:complex]
[:after-update]" -- mechanism only (method, broken relation, whether the
library's stored pseudo-inverse still contains the Laplacian's null mode,
whether the event was seen after an update history)."""
import copy
import numpy as np

from pvm.ref import circuits as ref
from pvm.gen import graphs as gg

META = dict(
    shards={"quick": 8, "thorough": 16},
    budget={"quick": 28, "thorough": 420},
    timeout={"quick": 600, "thorough": 3000},
    rule=("cases: (1) structured circuits -- single resistor, series chains, "
          "2-hop parallel bundles (+direct link), stars, equal-resistance "
          "cliques, rings, ladders, wheels, the documented 5-node example -- "
          "each with equal / small-integer / log-uniform 1e-2..1e2 / one-"
          "decade / complex (Re>0) impedances; (2) seeded random connected "
          "networks (spanning tree + G(n,p)), 3..12 nodes quick / ..30 "
          "thorough, same impedance kinds; (3) 'large' networks 13..30 nodes "
          "on which the effective-resistance laws (and on every 4th the "
          "betweenness sums) are evaluated (both tiers); (4) update histories of length 1..4 on random networks "
          "(rescale / redraw / single link / no-op / real<->complex / list "
          "or integer input, redundant update_admittance/update_R calls), "
          "with a random subset of queries issued before every update and "
          "all queries in random order after it.  Oracles: independent "
          "grounded-Laplacian solve in float64 (rtol 1e-9), symmetry, zero "
          "iff equal nodes, triangle inequality (1e-9 slack), ER(c r)=c ER(r), "
          "ER <= weighted shortest path, closed forms of series/parallel/"
          "star/clique/ring, Foster sum = N-1 (1e-9); defining double sums of "
          "vertex/edge current-flow betweenness in float64 within the a-priori "
          "forward bound of evaluating them on binary32 copies of admittance "
          "and pseudo-inverse (3u*Y_ij*(|R_is|+|R_js|+|R_jt|+|R_it|) per term, "
          "u=2^-24; this is <=1e-5 relative for equal / one-decade "
          "resistances, counted as 'cfb_tight', and grows with the dynamic "
          "range of the resistances because the binary32 subtraction of "
          "pseudo-inverse entries cancels); admittive degree / clustering "
          "sums of the docstrings (rtol 1e-10); after every update each "
          "public quantity equals that of a freshly constructed object "
          "(same code path: rtol 1e-12).  non-trivial = distinct impedance "
          "matrix with >=3 nodes whose every node pair was compared with the "
          "independent solve, or distinct history with at least one update "
          "that changes the impedances after a query had been answered."),
    floors={"quick": {"er_pairs_compared": 15000, "foster_checked": 250,
                      "scaling_checked": 250, "closed_form_checked": 50,
                      "cfb_compared": 150, "cfb_tight": 120,
                      "clustering_compared": 800, "complex_networks": 40,
                      "large_networks": 20, "weak_cut_networks": 100,
                      "history_updates_compared": 250,
                      "diameter_after_update_with_prior_store": 80,
                      "history_dtype_switch": 30},
            "thorough": {"er_pairs_compared": 400000, "foster_checked": 2000,
                         "scaling_checked": 2000, "closed_form_checked": 250,
                         "cfb_compared": 1000, "cfb_tight": 800,
                         "clustering_compared": 8000,
                         "complex_networks": 400, "large_networks": 300,
                         "weak_cut_networks": 2500,
                         "history_updates_compared": 2500,
                         "diameter_after_update_with_prior_store": 1000,
                         "history_dtype_switch": 300}},
    exhaustive_subspaces={"quick": [], "thorough": []},
    assumptions=[
        "numpy.linalg.solve on the grounded Laplacian (float64/complex128) is "
        "the trusted solver; it is cross-checked at start-up against closed "
        "forms, an exact rational Gauss-Jordan solve, Kirchhoff's current "
        "law and the documented example values (ref.circuits.selftest)",
        "vertex current-flow betweenness: source/sink pairs containing the "
        "node contribute 0 -- the convention that reproduces the documented "
        "example values 0.389/0.044 (the docstring formula is silent/"
        "ambiguous there)",
        "edge current-flow betweenness = mean over all s<t of the link "
        "current Y_ij|V_i-V_j| (docstring gives no formula; documented "
        "example matrix reproduced)",
        "average_neighbors_admittive_degree has no stated definition: real "
        "case compared with sum_{j~i} ad_j / ad_i (documented example), "
        "complex case only against a fresh object",
        "complex impedances have positive real part (passive) and a "
        "grounded Laplacian of condition number < 1e5; diameter / triangle / "
        "path bound are not evaluated for complex values (no order)",
        "float32 kernels: tolerance is the forward bound described in rule, "
        "not a flat relative number",
    ],
    technique="runtime monitoring: independent Kirchhoff solve, circuit "
              "identities, fresh-twin comparison after update histories",
    level_text="every sampled network/history satisfied the circuit laws to "
               "float64 (float32 for the compiled sums) accuracy",
    level_note="trusted: numpy.linalg.solve, the reference module "
               "pvm/ref/circuits.py (self-tested against closed forms and "
               "exact rational arithmetic)",
)

META["rule"] += (
    " " + "Added after the second round of seeded changes: family 'weak cut' (two ohm-sized blocks joined by one resistor of 1e4 .. 1e8, units 1 / 1e3 / 1e-3): only-path resistor, series law across the cut, block values, Foster, average effective resistance, tolerance 30 eps cond(L).")

META["rule"] += (
    " " + 'Added after the third round: half of the grid-built networks get a resistance value for every node pair (the links are those of the given adjacency).')

META["rule"] += (
    " " + 'Added after the fifth round: 40 % of the networks carry geographical or hand-set node weights; after every update six queries are asked again with nothing changed in between (same answer, earlier answers unmodified).')

META["rule"] += (
    " " + 'Added after the sixth round: wheels with 66, 70, 130 (thorough 140, 260) rim nodes (hub and rim betweenness, resistances, admittive degrees); circuits whose values are exact in single precision also from float32 / complex64 input (1e-5).')

META["rule"] += (
    " " + 'Added after the seventh round: the caller rescales every array it was handed before asking again (40 % of the histories); the array given to update_resistances is refilled right after the call (30 %).')

META["rule"] += (
    " " + 'Added after the eighth round: a resistor from a node to itself changes no effective resistance and no current flow.')

RT = 1e-9


# --------------------------------------------------------------------------
# workload helpers
# --------------------------------------------------------------------------
def draw(rng, kind, size=None):
    """positive resistances / passive impedances."""
    if kind == "equal":
        v = float(rng.uniform(0.1, 5))
        return v if size is None else np.full(size, v)
    if kind == "ints":
        x = rng.integers(1, 6, size).astype(float)
    elif kind == "wide":
        x = np.exp(rng.uniform(np.log(1e-2), np.log(1e2), size))
    elif kind == "decade":
        x = np.exp(rng.uniform(0.0, np.log(10.0), size))
    elif kind == "complex":
        re = np.exp(rng.uniform(np.log(1e-1), np.log(1e1), size))
        im = rng.uniform(-2, 2, size) * re
        # some links are ideal reactive elements (capacitor -jX, coil +jX)
        ideal = rng.random(np.shape(re)) < 0.15
        im = np.where(ideal & (np.abs(im) < 0.1), 0.5, im)
        re = np.where(ideal, 0.0, re)
        x = re + 1j * im
    else:
        raise ValueError(kind)
    if size is None:
        return complex(x) if kind == "complex" else float(x)
    return x


def weight_topology(rng, A, kind):
    n = len(A)
    w = draw(rng, kind, (n, n))
    w = np.triu(w, 1)
    w = w + w.T
    return w * (A != 0)


def cond_ok(r):
    L = ref.laplacian(ref.admittance(r))[:-1, :-1]
    try:
        return np.linalg.cond(L) < 1e5
    except np.linalg.LinAlgError:
        return False


def er_matrix(net, n):
    return np.array([[net.effective_resistance(a, b) for b in range(n)]
                     for a in range(n)])


def relerr(a, b):
    a = np.asarray(a)
    b = np.asarray(b)
    d = np.abs(a - b)
    s = np.abs(b)
    with np.errstate(divide="ignore", invalid="ignore"):
        q = np.where(d == 0, 0.0, d / np.where(s == 0, np.nan, s))
    q = np.where(np.isnan(q), np.inf, q)
    return float(np.max(q)) if q.size else 0.0


def close(a, b, rtol, atol=0.0):
    a = np.asarray(a)
    b = np.asarray(b)
    if a.shape != b.shape:
        return False
    if not (np.all(np.isfinite(a)) and np.all(np.isfinite(b))):
        return bool(np.array_equal(a, b))
    return bool(np.all(np.abs(a - b) <= rtol * np.abs(b) + atol))


# --------------------------------------------------------------------------
# battery on one network
# --------------------------------------------------------------------------
class _Fold:
    """ctx proxy for one network: every event whose signature carries the
    ':null-mode' tag is a consequence of one mechanism (the stored
    pseudo-inverse still contains the Laplacian's null mode), so they are
    folded into a single event 'get_R:differs:null-mode' that lists the
    broken relations."""

    def __init__(self, ctx, cid):
        self._ctx = ctx
        self._cid = cid
        self.consequences = {}

    def __getattr__(self, name):
        return getattr(self._ctx, name)

    def violation(self, sig, detail=None, case_id=None):
        if ":null-mode" in sig:
            key = sig.replace(":null-mode", "").replace(":complex", "")
            self.consequences.setdefault(key, detail)
        else:
            self._ctx.violation(sig, detail, case_id)

    def flush(self, r):
        if self.consequences:
            first = self.consequences.get("get_R:differs") or {}
            self._ctx.violation(
                "get_R:differs:null-mode",
                {"n": len(r), "case": self._cid, "resistances": r,
                 "max_abs_lib": first.get("max_abs_lib"),
                 "max_abs_ref": first.get("max_abs_ref"),
                 "max_row_sum": first.get("max_row_sum"),
                 "consequences": sorted(self.consequences),
                 "max_rel_err_effective_resistance":
                     (self.consequences.get("effective_resistance:differs")
                      or {}).get("max_rel_err")}, self._cid)


def check_network(ctx, RN, r, cid, closed=None, relation=None, full=True,
                  via_grid=False):
    r = np.asarray(r)
    fold = _Fold(ctx, cid)
    try:
        return _battery(fold, RN, r, cid, closed, relation, full, via_grid)
    finally:
        fold.flush(r)


def _battery(ctx, RN, r, cid, closed, relation, full, via_grid):
    """closed: None | (pairs -> value dict) ; relation: name of the law."""
    n = len(r)
    cplx = np.iscomplexobj(r)
    ctag = ":complex" if cplx else ""
    case = {"n": n, "resistances": r, "case": cid}
    if via_grid:
        from pyunicorn.core.geo_grid import GeoGrid

        def build(x):
            adj = (x != 0).astype("int8")
            grid = GeoGrid(time_seq=np.arange(10),
                           lat_seq=np.absolute(np.linspace(-90, 90, n)),
                           lon_seq=np.linspace(-180, 180, n),
                           silence_level=3)
            rj = ctx.rng("junk", cid)
            if rj.random() < 0.5 and not cplx:
                # a resistance value for every pair (e.g. a distance
                # matrix): the links are those of the given adjacency
                full = rj.uniform(0.5, 3.0, x.shape)
                full = np.triu(full, 1)
                full = full + full.T
                x = np.where(adj != 0, x, full)
                ctx.count("resistances_defined_on_non_links")
            return weighted(RN, x, grid=grid, adjacency=adj, silence_level=3)
    else:
        def build(x):
            return weighted(RN, x, silence_level=3)

    def weighted(cls, x, **kw):
        # the class inherits geographical node weights from GeoNetwork; the
        # electrical quantities are defined without them
        rw = ctx.rng("nodeweights", cid)
        u = rw.random()
        if u < 0.6:
            return cls(x, **kw)
        ctx.count("nonuniform_node_weights")
        if u < 0.8:
            return cls(x, node_weight_type=str(rw.choice(
                ["surface", "irrigation"])), **kw)
        o = cls(x, **kw)
        if u < 0.9:
            o.node_weights = rw.uniform(0.2, 5.0, len(x))
        else:
            o.set_node_weight_type("surface")
        return o
    ok, net = ctx.call(build, r.copy())
    ctx.evals()
    if not ok:
        ctx.violation(f"constructor:raises:{type(net).__name__}{ctag}",
                      {**case, "exc": repr(net)}, cid)
        return None
    if cplx:
        ctx.count("complex_networks")

    # ---- pseudo-inverse ---------------------------------------------------
    Rref = ref.pseudo_inverse(r)
    scale = np.abs(Rref).max()
    ok, Rl = ctx.call(net.get_R)
    ctx.evals()
    tag = ""
    if not ok:
        ctx.violation(f"get_R:raises:{type(Rl).__name__}{ctag}",
                      {**case, "exc": repr(Rl)}, cid)
        return None
    null = np.abs(Rl.sum(axis=1)).max() / scale
    ctx.maxstat("R_rowsum_over_scale", null)
    if null > 1e-6:
        tag = ":null-mode"
        ctx.count("null_mode_cases")
    if not close(Rl, Rref, 0.0, RT * scale):
        ctx.violation(f"get_R:differs{tag}{ctag}",
                      {**case, "max_abs_lib": np.abs(Rl).max(),
                       "max_abs_ref": scale,
                       "max_row_sum": np.abs(Rl.sum(axis=1)).max()}, cid)
    else:
        ctx.maxstat("R_err_over_scale", np.abs(Rl - Rref).max() / scale)
    ok, Yl = ctx.call(net.get_admittance)
    ctx.evals()
    if not ok or not close(Yl, ref.admittance(r), 1e-14):
        ctx.violation(f"get_admittance:differs{ctag}" if ok else
                      f"get_admittance:raises:{type(Yl).__name__}{ctag}",
                      {**case, "lib": Yl if ok else repr(Yl)}, cid)

    # ---- effective resistance --------------------------------------------
    ER = ref.effective_resistance_matrix(r)
    ok, L = ctx.call(er_matrix, net, n)
    ctx.evals(n * n)
    if not ok:
        ctx.violation(f"effective_resistance:raises:{type(L).__name__}"
                      f"{ctag}", {**case, "exc": repr(L)}, cid)
        return net
    ctx.count("er_pairs_compared", n * (n - 1))
    if n >= 3:
        ctx.nontrivial(("net", n, r.tobytes()))
    off = ~np.eye(n, dtype=bool)
    e = relerr(L[off], ER[off])
    if e > RT:
        a, b = np.argwhere(off & (np.abs(L - ER) > RT * np.abs(ER)))[0]
        ctx.violation(f"effective_resistance:differs{tag}{ctag}",
                      {**case, "pair": [a, b], "lib": L[a, b],
                       "ref": ER[a, b], "max_rel_err": e}, cid)
    else:
        ctx.maxstat("er_rel_err", e)
    if relerr(L, L.T) > RT:
        ctx.violation(f"effective_resistance:asymmetric{tag}{ctag}",
                      {**case, "lib": L}, cid)
    # (a passive network with ideal reactive elements may have a purely
    #  reactive impedance between two nodes: non-zero, real part >= 0)
    posoff = (np.abs(L[off]) > 0) & (L.real[off] >= -RT * np.abs(L[off])) \
        if cplx else (L.real[off] > 0)
    if np.any(np.diag(L) != 0) or not np.all(posoff):
        ctx.violation(f"effective_resistance:zero-iff-equal{tag}{ctag}",
                      {**case, "diag": np.diag(L),
                       "min_offdiag": L.real[off].min()}, cid)
    # Foster
    fs = sum(L[i, j] / r[i, j] for i, j in ref.links(r))
    ctx.count("foster_checked")
    if abs(fs - (n - 1)) > RT * (n - 1):
        ctx.violation(f"effective_resistance:foster{tag}{ctag}",
                      {**case, "sum": fs, "expected": n - 1}, cid)
    else:
        ctx.maxstat("foster_rel_err", abs(fs - (n - 1)) / (n - 1))
    if not cplx:
        # triangle inequality  L[a,c] <= L[a,b] + L[b,c]
        S = L[:, :, None] + L[None, :, :]          # [a,b,c]
        gap = S - L[:, None, :]
        if np.any(gap < -RT * S):
            a, b, c = np.argwhere(gap < -RT * S)[0]
            ctx.violation(f"effective_resistance:triangle{tag}",
                          {**case, "a,b,c": [a, b, c],
                           "ER": [L[a, c], L[a, b], L[b, c]]}, cid)
        ctx.count("triangle_checked", n * n * n)
        SP = ref.shortest_path_resistance(r)
        if np.any(L > SP * (1 + RT)):
            a, b = np.argwhere(L > SP * (1 + RT))[0]
            ctx.violation(f"effective_resistance:exceeds-path{tag}",
                          {**case, "pair": [a, b], "ER": L[a, b],
                           "path": SP[a, b]}, cid)
        ctx.count("path_bound_checked", n * (n - 1))
    # closed forms
    if closed:
        bad = [(a, b, L[a, b], v) for (a, b), v in closed.items()
               if abs(L[a, b] - v) > RT * abs(v)]
        ctx.count("closed_form_checked")
        if bad:
            ctx.violation(f"effective_resistance:{relation}{tag}{ctag}",
                          {**case, "first": bad[0]}, cid)
    # scaling
    rr = ctx.rng("scale", cid)
    c = float(rr.choice([0.5, 2.0, 3.0, 0.1, 7.3, 1e-2, 123.0]))
    ok, net2 = ctx.call(build, c * r)
    if ok:
        ok, L2 = ctx.call(er_matrix, net2, n)
    ctx.evals(n * n)
    if not ok:
        exc = L2 if isinstance(net2, RN) else net2
        ctx.violation(f"effective_resistance:scaling:raises:"
                      f"{type(exc).__name__}{ctag}",
                      {**case, "c": c, "exc": repr(exc)}, cid)
    else:
        ctx.count("scaling_checked")
        e = relerr(L2[off], c * L[off])
        # a contaminated pseudo-inverse on either side is the null-mode
        # mechanism, not a scaling defect of its own
        ok3, R2 = ctx.call(net2.get_R)
        tag2 = tag
        if ok3 and np.abs(R2.sum(axis=1)).max() / (c * scale) > 1e-6:
            tag2 = ":null-mode"
        if e > RT:
            ctx.violation(f"effective_resistance:scaling{tag2}{ctag}",
                          {**case, "c": c, "max_rel_err": e}, cid)
        else:
            ctx.maxstat("scaling_rel_err", e)

    # ---- aggregates (fresh object: diameter first exercises the store) ---
    aggs = []
    if not cplx:
        aggs.append(("diameter_effective_resistance",
                     lambda: net.diameter_effective_resistance(),
                     ref.diameter_effective_resistance(ER)))
    aggs.append(("average_effective_resistance",
                 lambda: net.average_effective_resistance(),
                 ref.average_effective_resistance(ER)))
    if not cplx:
        aggs.append(("diameter_effective_resistance",
                     lambda: net.diameter_effective_resistance(),
                     ref.diameter_effective_resistance(ER)))
    aggs.append(("effective_resistance_closeness_centrality",
                 lambda: np.array([
                     net.effective_resistance_closeness_centrality(a)
                     for a in range(n)]),
                 np.array([ref.er_closeness(ER, a) for a in range(n)])))
    for name, fn, want in aggs:
        ok, got = ctx.call(fn)
        ctx.evals(np.size(want))
        if not ok:
            ctx.violation(f"{name}:raises:{type(got).__name__}{ctag}",
                          {**case, "exc": repr(got)}, cid)
        elif not close(got, want, RT):
            ctx.violation(f"{name}:differs{tag}{ctag}",
                          {**case, "lib": got, "ref": want}, cid)
        ctx.count("aggregate_compared")

    # ---- admittive degree / clustering -----------------------------------
    sums = [("admittive_degree", net.admittive_degree,
             ref.admittive_degree(r)),
            ("local_admittive_clustering", net.local_admittive_clustering,
             ref.local_admittive_clustering(r)),
            ("global_admittive_clustering", net.global_admittive_clustering,
             ref.global_admittive_clustering(r))]
    if not cplx:
        sums.append(("average_neighbors_admittive_degree",
                     net.average_neighbors_admittive_degree,
                     ref.average_neighbors_admittive_degree_real(r)))
    for name, fn, want in sums:
        ok, got = ctx.call(fn)
        ctx.evals(np.size(want))
        if not ok:
            ctx.violation(f"{name}:raises:{type(got).__name__}{ctag}",
                          {**case, "exc": repr(got)}, cid)
        elif not close(got, want, 1e-10, 1e-300):
            ctx.violation(f"{name}:differs{ctag}",
                          {**case, "lib": got, "ref": want}, cid)
        else:
            ctx.maxstat("sum_rel_err", relerr(got, want))
        ctx.count("clustering_compared")

    # ---- current-flow betweenness ----------------------------------------
    if not full:
        return net
    if cplx:
        for name, fn in (("vertex_current_flow_betweenness",
                          lambda: net.vertex_current_flow_betweenness(0)),
                         ("edge_current_flow_betweenness",
                          net.edge_current_flow_betweenness)):
            ok, got = ctx.call(fn)
            if ok:
                ctx.count("complex_cfb_accepted_unchecked")
            elif isinstance(got, TypeError):
                ctx.count("rejected")
            else:
                ctx.violation(f"{name}:raises:{type(got).__name__}:complex",
                              {**case, "exc": repr(got)}, cid)
        return net
    bv, be = ref.float32_input_bounds(r)
    V = ref.vertex_current_flow_betweenness(r)
    E = ref.edge_current_flow_betweenness(r)
    ok, lv = ctx.call(lambda: np.array(
        [net.vertex_current_flow_betweenness(i) for i in range(n)]))
    ctx.evals(n)
    tv = bv + 1e-9 * np.abs(V) + 1e-15
    if not ok:
        ctx.violation(f"vertex_current_flow_betweenness:raises:"
                      f"{type(lv).__name__}", {**case, "exc": repr(lv)}, cid)
    elif not np.all(np.abs(lv - V) <= tv):
        i = int(np.argmax(np.abs(lv - V) / tv))
        ctx.violation(f"vertex_current_flow_betweenness:differs{tag}",
                      {**case, "node": i, "lib": lv[i], "ref": V[i],
                       "float32_bound": tv[i]}, cid)
    else:
        ctx.maxstat("vcfb_err_over_bound", np.max(np.abs(lv - V) / tv))
        pos = V > 1e-6
        if pos.any():
            ctx.maxstat("vcfb_rel_err", np.max(np.abs(lv - V)[pos] / V[pos]))
    ok, le = ctx.call(net.edge_current_flow_betweenness)
    ctx.evals(n * n)
    te = be + 2 * ref.U32 * np.abs(E) + 1e-9 * np.abs(E)
    lk = r != 0
    if not ok:
        ctx.violation(f"edge_current_flow_betweenness:raises:"
                      f"{type(le).__name__}", {**case, "exc": repr(le)}, cid)
    elif le.shape != E.shape or not np.all(np.abs(le - E) <= te):
        ctx.violation(f"edge_current_flow_betweenness:differs{tag}",
                      {**case, "lib": le, "ref": E,
                       "worst_err_over_bound":
                           float(np.max(np.abs(le - E)[lk] / te[lk]))
                           if le.shape == E.shape else None}, cid)
    else:
        ctx.maxstat("ecfb_err_over_bound",
                    np.max(np.abs(le - E)[lk] / te[lk]))
        ctx.maxstat("ecfb_rel_err", np.max(np.abs(le - E)[lk] / E[lk]))
        if np.any(le[~lk] != 0) or not np.array_equal(le, le.T):
            ctx.violation("edge_current_flow_betweenness:asymmetric-or-"
                          "offlink", {**case, "lib": le}, cid)
    ctx.count("cfb_compared")
    pos = V > 1e-6
    if np.all(tv[pos] <= 1e-5 * V[pos]) and np.all(te[lk] <= 1e-5 * E[lk]):
        ctx.count("cfb_tight")
    if pos.any():
        ctx.maxstat("vcfb_bound_rel", np.max(tv[pos] / V[pos]))
    return net


# --------------------------------------------------------------------------
# structured circuits
# --------------------------------------------------------------------------
def structured(ctx, kinds):
    """yields (cid, r, closed, relation)."""
    reps = 3 if ctx.thorough else 1
    top = 13 if ctx.thorough else 9
    for kind in kinds:
        for rep in range(reps):
            def rg(*k):
                return ctx.rng("st", kind, rep, *k)
            # single resistor
            v = draw(rg("one"), kind)
            r, ER = ref.series_chain([v])
            yield f"one:{kind}:{rep}", r, {(0, 1): ER[0, 1]}, "series"
            for n in range(3, top):
                vs = draw(rg("chain", n), kind, n - 1)
                r, ER = ref.series_chain(list(np.atleast_1d(vs)))
                cl = {(a, b): ER[a, b] for a in range(n) for b in range(n)
                      if a != b}
                yield f"chain{n}:{kind}:{rep}", r, cl, "series"
                vs = draw(rg("star", n), kind, n - 1)
                r, ER = ref.star(list(np.atleast_1d(vs)))
                cl = {(a, b): ER[a, b] for a in range(n) for b in range(n)
                      if a != b}
                yield f"star{n}:{kind}:{rep}", r, cl, "series"
                vs = draw(rg("ring", n), kind, n)
                r, ER = ref.cycle(list(np.atleast_1d(vs)))
                cl = {(a, b): ER[a, b] for a in range(n) for b in range(n)
                      if a != b}
                yield f"ring{n}:{kind}:{rep}", r, cl, "series-parallel"
                rho = draw(rg("clique", n), kind)
                r, ER = ref.clique(n, rho)
                cl = {(a, b): ER[a, b] for a in range(n) for b in range(n)
                      if a != b}
                yield f"clique{n}:{kind}:{rep}", r, cl, "clique"
            for m in range(1, 7 if ctx.thorough else 5):
                for direct in (False, True):
                    if m == 1 and not direct:
                        continue
                    g = rg("par", m, direct)
                    vs = np.atleast_1d(draw(g, kind, 2 * m))
                    br = [(vs[2 * k], vs[2 * k + 1]) for k in range(m)]
                    br = [tuple(complex(x) if kind == "complex" else float(x)
                                for x in b) for b in br]
                    d = draw(g, kind) if direct else None
                    r, z = ref.parallel_bundle(br, d)
                    yield (f"par{m}{'d' if direct else ''}:{kind}:{rep}", r,
                           {(0, 1): z, (1, 0): z}, "parallel")
            for k in range(2, 7 if ctx.thorough else 5):
                g = rg("ladder", k)
                yield (f"ladder{k}:{kind}:{rep}",
                       ref.ladder(k, draw(g, kind), draw(g, kind)), None,
                       None)
                A = (ref.ladder(k, 1.0, 1.0) != 0)
                yield (f"ladderw{k}:{kind}:{rep}",
                       weight_topology(g, A, kind), None, None)
            for k in range(3, 9 if ctx.thorough else 7):
                g = rg("wheel", k)
                yield (f"wheel{k}:{kind}:{rep}",
                       ref.wheel(k, draw(g, kind), draw(g, kind)), None, None)
                A = (ref.wheel(k, 1.0, 1.0) != 0)
                yield (f"wheelw{k}:{kind}:{rep}",
                       weight_topology(g, A, kind), None, None)
    t = np.array([[0, 2, 0, 0, 0], [2, 0, 8, 2, 0], [0, 8, 0, 8, 0],
                  [0, 2, 8, 0, 10], [0, 0, 0, 10, 0]])
    # 26-node series chain: smallest chain on which LAPACK's divide-and-
    # conquer SVD (n > 25) is used by numpy.linalg.pinv
    rs = [1.0 + 0.37 * k for k in range(25)]
    r, ER = ref.series_chain(rs)
    yield ("chain26:fixed", r, {(a, b): ER[a, b] for a in range(26)
                                for b in range(26) if a != b}, "series")
    yield "doc5:int", t, None, None
    yield "doc5:float", t.astype(float), None, None
    im = np.array([[0, 4, 0, 0, 0], [4, 0, 8, 2, 0], [0, 8, 0, 8, 0],
                   [0, 2, 8, 0, 10], [0, 0, 0, 10, 0]])
    yield "doc5:complex", t + 1j * im, None, None


# --------------------------------------------------------------------------
# hubs
# --------------------------------------------------------------------------
def check_hub(ctx, RN, k, cid):
    """Wheel with k rim nodes: the hub has more than 64 / 128 neighbours
    (per-node neighbour lists of fixed size, narrow counters).  Betweenness
    of the hub and of three rim nodes, a few effective resistances and the
    admittive degrees against the references."""
    g = ctx.rng("hub", k)
    r = ref.wheel(k, float(draw(g, "decade")), float(draw(g, "decade")))
    n = len(r)
    ok, net = ctx.call(RN, r.copy(), silence_level=3)
    if not ok:
        ctx.violation(f"constructor:raises:{type(net).__name__}",
                      {"case": cid, "exc": repr(net)}, cid)
        return
    case = {"case": cid, "n": n}
    ctx.count("hub_cases")
    bv, _ = ref.float32_input_bounds(r)
    hub = int(np.argmax((r != 0).sum(axis=1)))
    probe = [hub] + [int(v) for v in g.permutation(n)[:3]]
    V = ref.vertex_current_flow_betweenness_nodes(r, probe)
    for i in probe:
        ok, lv = ctx.call(net.vertex_current_flow_betweenness, i)
        ctx.evals()
        tv = bv[i] + 1e-9 * abs(V[i]) + 1e-15
        ctx.nontrivial(("hub", k, i))
        if not ok:
            ctx.violation("vertex_current_flow_betweenness:raises:"
                          f"{type(lv).__name__}", {**case, "exc": repr(lv)},
                          cid)
        elif abs(lv - V[i]) > tv:
            ctx.violation("vertex_current_flow_betweenness:differs:hub-"
                          "network", {**case, "node": i, "degree": int(
                              (r[i] != 0).sum()), "lib": lv, "ref": V[i]},
                          cid)
    ER = ref.effective_resistance_matrix(r)
    for a, b in [(hub, (hub + 1) % n), (1, n - 1), (2, n // 2)]:
        if a == b:
            continue
        ok, v = ctx.call(net.effective_resistance, a, b)
        ctx.evals()
        if not ok or abs(v - ER[a, b]) > 1e-6 * abs(ER[a, b]):
            ctx.violation("effective_resistance:differs:hub-network",
                          {**case, "pair": [a, b], "lib": repr(v),
                           "ref": ER[a, b]}, cid)
    ok, ad = ctx.call(net.admittive_degree)
    ctx.evals()
    if not ok or not close(ad, ref.admittive_degree(r), 1e-10, 1e-300):
        ctx.violation("admittive_degree:differs:hub-network", case, cid)


def check_self_loop(ctx, RN, r, cid):
    """A resistor from a node to itself carries no current: resistances
    between nodes and current flows are those of the circuit without it."""
    r = np.asarray(r, dtype=float)
    n = len(r)
    g = ctx.rng("selfloop", cid)
    x = r.copy()
    for i in g.choice(n, int(g.integers(1, 3)), replace=False):
        x[i, i] = float(g.choice([0.5, 1.0, 3.0, 8.0]))
    ok0, a = ctx.call(RN, r.copy(), silence_level=3)
    ok1, b = ctx.call(RN, x, silence_level=3)
    if not (ok0 and ok1):
        ctx.count("self_loop_rejected")
        return
    ctx.count("self_loop_cases")
    for name, f in (
            ("effective_resistance", lambda o: er_matrix(o, n)),
            ("average_effective_resistance",
             lambda o: o.average_effective_resistance()),
            ("diameter_effective_resistance",
             lambda o: o.diameter_effective_resistance()),
            ("vertex_current_flow_betweenness",
             lambda o: np.array([o.vertex_current_flow_betweenness(i)
                                 for i in range(n)])),
            ("edge_current_flow_betweenness",
             lambda o: o.edge_current_flow_betweenness()
             * (1 - np.eye(n)))):
        oka, va = ctx.call(f, a)
        okb, vb = ctx.call(f, b)
        ctx.evals(2)
        if not (oka and okb):
            if oka != okb:
                ctx.violation(f"{name}:self-loop-resistor:raises",
                              {"resistances": x,
                               "exc": repr(vb if oka else va)}, cid)
            continue
        ctx.nontrivial(("selfloop", name, cid))
        if not close(np.asarray(va, float), np.asarray(vb, float), 1e-7,
                     1e-9 * max(1.0, float(np.abs(va).max()))):
            ctx.violation(f"{name}:changed-by-a-self-loop-resistor",
                          {"resistances": x, "without": va, "with": vb}, cid)


def check_single_precision(ctx, RN, r, cid):
    """The same circuit with its resistances held in single precision (the
    values are exactly representable): 1/r is then evaluated in single
    precision, so the results agree with the references to ~1e-7; compared
    at 1e-5."""
    cplx = np.iscomplexobj(r)
    r32 = r.astype(np.complex64 if cplx else np.float32)
    if not np.array_equal(r32.astype(complex if cplx else float), r):
        return
    n = len(r)
    ok, net = ctx.call(RN, r32, silence_level=3)
    ctx.count("single_precision_cases")
    case = {"case": cid, "n": n, "resistances": r}
    if not ok:
        ctx.violation(f"constructor:raises:{type(net).__name__}:float32",
                      {**case, "exc": repr(net)}, cid)
        return
    ER = ref.effective_resistance_matrix(r)
    got = er_matrix(net, n)
    ctx.evals(n * n)
    ctx.nontrivial(("f32", cid))
    if not close(got, ER, 1e-5, 1e-9 * np.abs(ER).max()):
        ctx.violation("effective_resistance:differs:float32-input",
                      {**case, "lib": got, "ref": ER}, cid)
        return
    for name, fn, want in (
            ("admittive_degree", net.admittive_degree,
             ref.admittive_degree(r)),
            ("average_effective_resistance",
             net.average_effective_resistance,
             ref.average_effective_resistance(ER))):
        ok, v = ctx.call(fn)
        ctx.evals()
        if not ok or not close(v, want, 1e-5):
            ctx.violation(f"{name}:differs:float32-input",
                          {**case, "lib": repr(v), "ref": want}, cid)


# --------------------------------------------------------------------------
# update histories
# --------------------------------------------------------------------------
def queries(n, cplx):
    q = {
        "get_R": lambda N: N.get_R(),
        "get_admittance": lambda N: N.get_admittance(),
        "admittance_lapacian": lambda N: N.admittance_lapacian(),
        "effective_resistance": lambda N: er_matrix(N, n),
        "average_effective_resistance":
            lambda N: N.average_effective_resistance(),
        "diameter_effective_resistance":
            lambda N: N.diameter_effective_resistance(),
        "effective_resistance_closeness_centrality":
            lambda N: np.array([N.effective_resistance_closeness_centrality(a)
                                for a in range(n)]),
        "vertex_current_flow_betweenness":
            lambda N: np.array([N.vertex_current_flow_betweenness(i)
                                for i in range(n)]),
        "edge_current_flow_betweenness":
            lambda N: N.edge_current_flow_betweenness(),
        "admittive_degree": lambda N: N.admittive_degree(),
        "average_neighbors_admittive_degree":
            lambda N: N.average_neighbors_admittive_degree(),
        "local_admittive_clustering":
            lambda N: N.local_admittive_clustering(),
        "global_admittive_clustering":
            lambda N: N.global_admittive_clustering(),
    }
    return q


def next_resistances(rng, A, r, cplx_allowed):
    """returns (kind-of-step, new matrix)."""
    step = str(rng.choice(["rescale", "redraw", "one-link", "noop",
                           "dtype-switch", "ints"],
                          p=[.2, .3, .2, .08, .12, .1]))
    cplx = np.iscomplexobj(r)
    if step == "rescale":
        return step, r * float(rng.choice([0.25, 3.0, 10.0, 0.01]))
    if step == "redraw":
        kind = "complex" if cplx else str(rng.choice(
            ["wide", "decade", "equal"]))
        return step, weight_topology(rng, A, kind)
    if step == "one-link":
        lk = ref.links(r)
        i, j = lk[int(rng.integers(len(lk)))]
        x = r.astype(complex if cplx else float)
        x[i, j] = x[j, i] = x[i, j] * float(rng.choice([0.1, 5.0, 2.0]))
        return step, x
    if step == "noop":
        return step, r.copy()
    if step == "ints":
        return step, weight_topology(rng, A, "ints").astype(int)
    if not cplx_allowed:
        return "redraw", weight_topology(rng, A, "wide")
    return step, weight_topology(rng, A, "decade" if cplx else "complex")


def same(a, b):
    a = np.asarray(a)
    b = np.asarray(b)
    if a.shape != b.shape:
        return False
    if np.array_equal(a, b):
        return True
    return close(a, b, 1e-12)


def check_history(ctx, RN, A, cid):
    rng = ctx.rng("hist", cid)
    n = len(A)
    r = weight_topology(rng, A, str(rng.choice(
        ["wide", "decade", "equal", "ints", "complex"],
        p=[.3, .2, .15, .15, .2])))
    if np.iscomplexobj(r) and not cond_ok(r):
        ctx.count("complex_illconditioned_skipped")
        return
    ok, net = ctx.call(RN, r.copy(), silence_level=3)
    if not ok:
        ctx.violation(f"constructor:raises:{type(net).__name__}",
                      {"resistances": r, "exc": repr(net)}, cid)
        return
    Q = queries(n, None)
    names = sorted(Q)
    r0 = r
    steps = int(rng.integers(1, 5))
    store = False          # average/diameter answered at least once
    hist = []
    for k in range(steps):
        warm = [m for m in rng.permutation(names) if rng.random() < 0.5]
        for m in warm:
            ctx.call(Q[m], net)
            if m in ("average_effective_resistance",
                     "diameter_effective_resistance"):
                store = True
        step, rn = next_resistances(rng, A, r, True)
        if np.iscomplexobj(rn) and not cond_ok(rn):
            step, rn = "redraw", weight_topology(rng, A, "decade")
        changed = not (rn.shape == r.shape and np.array_equal(rn, r))
        switch = np.iscomplexobj(rn) != np.iscomplexobj(r)
        arg = rn.copy()
        as_list = bool(rng.random() < 0.15)
        inplace = False
        if as_list:
            arg = arg.tolist()
        elif rng.random() < 0.2 and isinstance(net.resistances, np.ndarray) \
                and net.resistances.shape == rn.shape and \
                net.resistances.dtype == rn.dtype:
            # the caller edits the array it handed over earlier in place and
            # passes the same object again
            inplace = True
            arg = net.resistances
            arg[...] = rn
            ctx.count("history_inplace_same_object")
        extra = str(rng.choice(["", "update_admittance", "update_R",
                                "update_admittance+update_R"],
                               p=[.7, .1, .1, .1]))
        hist.append({"warm": warm, "step": step, "list": as_list,
                     "inplace_same_object": inplace, "extra": extra})

        def mutate():
            net.update_resistances(arg)
            if "update_admittance" in extra:
                net.update_admittance()
            if "update_R" in extra:
                net.update_R()
        ok, exc = ctx.call(mutate)
        ctx.evals()
        if ok and isinstance(arg, np.ndarray) and not inplace and \
                arg.flags.writeable and rng.random() < 0.3:
            # the caller goes on using the array it handed over (refills it
            # for the next circuit) before the network is asked anything
            arg *= 7
            hist[-1]["array_refilled_by_caller_after_hand_over"] = True
            ctx.count("history_array_refilled_after_hand_over")
        detail = {"n": n, "initial": r0, "history": hist,
                  "current": rn}
        if not ok:
            ctx.violation(f"update_resistances:raises:{type(exc).__name__}"
                          ":after-update", {**detail, "exc": repr(exc)}, cid)
            return
        ok, fresh = ctx.call(RN, rn.copy(), silence_level=3)
        if not ok:
            ctx.count("rejected")
            return
        r = rn
        order = [str(m) for m in rng.permutation(names)]
        if store and order.index("diameter_effective_resistance") < \
                order.index("average_effective_resistance") and changed:
            ctx.count("diameter_after_update_with_prior_store")
        held = {}
        for m in order:
            ok1, v1 = ctx.call(Q[m], net)
            ok2, v2 = ctx.call(Q[m], fresh)
            ctx.evals()
            if ok1:
                held[m] = (v1, copy.deepcopy(v1))
            if m in ("average_effective_resistance",
                     "diameter_effective_resistance"):
                store = True
            if ok1 and ok2:
                if not same(v1, v2):
                    ctx.violation(f"{m}:differs:after-update",
                                  {**detail, "query_order": order,
                                   "updated_object": v1, "fresh_object": v2},
                                  cid)
                else:
                    ctx.count("history_queries_equal")
            elif ok2:
                ctx.violation(f"{m}:raises:{type(v1).__name__}:after-update",
                              {**detail, "exc": repr(v1)}, cid)
            elif ok1:
                ctx.violation(f"{m}:accepts-where-fresh-raises:after-update",
                              {**detail, "fresh_exc": repr(v2)}, cid)
            elif type(v1) is not type(v2):
                ctx.violation(f"{m}:raises:{type(v1).__name__}:after-update",
                              {**detail, "exc": repr(v1),
                               "fresh_exc": repr(v2)}, cid)
            else:
                ctx.count("rejected")
        # read-only queries asked again, nothing changed in between: the
        # same answer, and the answers handed out before are still what
        # they were
        caller_edits = bool(rng.random() < 0.4)
        if caller_edits:
            # the caller has worked on the arrays it was handed (rescaled
            # them in place): they are the caller's
            for m_, (live_, _) in held.items():
                if isinstance(live_, np.ndarray) and live_.flags.writeable \
                        and live_.dtype.kind in "fc":
                    live_ *= 1000.0
            ctx.count("history_answers_edited_by_caller")
        for m in [str(x) for x in rng.permutation(names)][:6]:
            if m not in held:
                continue
            ok3, v3 = ctx.call(Q[m], net)
            ctx.evals()
            ctx.count("history_queries_asked_again")
            if not ok3:
                ctx.violation(f"{m}:raises:{type(v3).__name__}:asked-again",
                              {**detail, "exc": repr(v3)}, cid)
            elif not same(v3, held[m][1]):
                ctx.violation(f"{m}:differs:asked-again",
                              {**detail, "first": held[m][1], "again": v3},
                              cid)
            elif not caller_edits and not same(held[m][0], held[m][1]):
                ctx.violation(f"{m}:earlier-answer-modified",
                              {**detail, "was": held[m][1],
                               "is": held[m][0]}, cid)
        ctx.count("history_updates_compared")
        if switch:
            ctx.count("history_dtype_switch")
        if changed:
            ctx.nontrivial(("hist", cid, k))
    ctx.sample({"history": cid, "n": n, "steps": hist})


# --------------------------------------------------------------------------
def weakly_coupled(ctx, RN, g, cid):
    """Two ohm-sized blocks joined by one large resistor B (or a chain with
    a leak): the circuit is connected, so every law holds, but the second
    Laplacian eigenvalue is ~1/B of the largest.  Closed forms: the joining
    resistor is the only path between its ends (ER = B), a pair across the
    cut obeys the series law ER(a,u) + B + ER(v,b) with the block values,
    Foster's sum is N-1.  Tolerance 30 eps cond(L): the forward error of a
    double-precision pseudo-inverse."""
    n1, n2 = int(g.integers(2, 7)), int(g.integers(2, 7))
    A1 = gg.random_connected(g, n1, n1) if n1 > 2 else np.array([[0, 1],
                                                                   [1, 0]])
    A2 = gg.random_connected(g, n2, n2) if n2 > 2 else np.array([[0, 1],
                                                                   [1, 0]])
    n1, n2 = len(A1), len(A2)
    kind = str(g.choice(["equal", "ints", "decade"]))
    r1, r2 = weight_topology(g, A1, kind), weight_topology(g, A2, kind)
    B = float(g.choice([1e4, 3e5, 2e6, 1e7, 1e8]))
    unit = float(g.choice([1.0, 1.0, 1e3, 1e-3]))
    n = n1 + n2
    r = np.zeros((n, n))
    r[:n1, :n1], r[n1:, n1:] = r1, r2
    u, v = int(g.integers(0, n1)), n1 + int(g.integers(0, n2))
    r[u, v] = r[v, u] = B
    r *= unit
    case = {"n": n, "resistances": r, "bridge": [u, v], "B": B * unit}
    ok, net = ctx.call(RN, r.copy(), silence_level=3)
    ctx.evals()
    if not ok:
        ctx.violation(f"constructor:raises:{type(net).__name__}:weak-cut",
                      {**case, "exc": repr(net)}, cid)
        return
    ok, L = ctx.call(er_matrix, net, n)
    ctx.evals(n * n)
    if not ok:
        ctx.violation(f"effective_resistance:raises:{type(L).__name__}"
                      ":weak-cut", {**case, "exc": repr(L)}, cid)
        return
    ctx.count("weak_cut_networks")
    ctx.nontrivial(("weak", n, r.tobytes()))
    E1 = ref.effective_resistance_matrix(r[:n1, :n1])
    E2 = ref.effective_resistance_matrix(r[n1:, n1:])
    want = np.zeros((n, n))
    want[:n1, :n1], want[n1:, n1:] = E1, E2
    for a in range(n1):
        for b in range(n1, n):
            want[a, b] = want[b, a] = E1[a, u] + B * unit + E2[v - n1,
                                                                b - n1]
    # forward error of a double-precision pseudo-inverse: a few eps times
    # the condition number lambda_max/lambda_2 (observed <= 0.9 eps*cond)
    Y = ref.admittance(r)
    ev = np.linalg.eigvalsh(ref.laplacian(Y))
    cond = float(ev[-1] / ev[1])
    T = max(1e-9, 30 * np.finfo(float).eps * cond)
    ctx.maxstat("weak_cut_condition_number", cond)
    if abs(L[u, v] - B * unit) > T * B * unit:
        ctx.violation("effective_resistance:only-path-resistor:weak-cut",
                      {**case, "lib": L[u, v]}, cid)
    cross = np.zeros((n, n), bool)
    cross[:n1, n1:] = cross[n1:, :n1] = True
    e = relerr(L[cross], want[cross])
    ctx.maxstat("weak_cut_series_err_over_eps_cond",
                e / (np.finfo(float).eps * cond))
    if e > T:
        ctx.violation("effective_resistance:series-law:weak-cut",
                      {**case, "max_rel_err": e}, cid)
    inner = ~cross & ~np.eye(n, dtype=bool)
    if np.any(np.abs(L[inner] - want[inner]) > T * B * unit * 1e-2 +
              1e-6 * np.abs(want[inner])):
        ctx.violation("effective_resistance:inside-block:weak-cut",
                      {**case, "lib": L, "ref": want}, cid)
    fs = sum(L[i, j] / r[i, j] for i, j in ref.links(r))
    ctx.count("foster_checked")
    if abs(fs - (n - 1)) > 10 * T * (n - 1):
        ctx.violation("effective_resistance:foster:weak-cut",
                      {**case, "sum": fs, "want": n - 1}, cid)
    ok, av = ctx.call(net.average_effective_resistance)
    ctx.evals()
    wav = want[np.triu_indices(n, 1)].mean()
    if not ok or abs(av - wav) > T * wav:
        ctx.violation("average_effective_resistance:differs:weak-cut",
                      {**case, "lib": av if ok else repr(av), "ref": wav},
                      cid)


def run(ctx):
    from pyunicorn.core.resistive_network import ResNetwork as RN

    bad = ref.selftest()
    if bad:
        raise RuntimeError(f"reference self-test failed: {bad}")
    ctx.count("ref_selftest_passed")

    kinds = ["equal", "ints", "wide", "decade", "complex"]
    # 1. structured circuits
    for idx, (cid, r, closed, rel) in enumerate(structured(ctx, kinds)):
        if not ctx.mine(idx) or not ctx.want(cid):
            continue
        if np.iscomplexobj(r) and not cond_ok(r):
            ctx.count("complex_illconditioned_skipped")
            continue
        with ctx.guard(120):
            check_network(ctx, RN, r, cid, closed, rel,
                          via_grid=(idx % 5 == 0))
            ctx.count("structured_cases")
            if idx % 3 == 1 and len(r) <= 12:
                check_single_precision(ctx, RN, np.asarray(r), cid)
            if idx % 3 == 2 and len(r) <= 12 and not np.iscomplexobj(r):
                check_self_loop(ctx, RN, np.asarray(r), cid)

    for j, k_ in enumerate((66, 70, 130) + ((140, 260) if ctx.thorough
                                            else ())):
        cid = f"hub:wheel{k_}"
        if ctx.mine(j) and ctx.want(cid):
            with ctx.guard(300):
                check_hub(ctx, RN, k_, cid)

    nmax = 30 if ctx.thorough else 12
    cap_rnd = 14000 if ctx.thorough else 480
    cap_big = 3600 if ctx.thorough else 64
    cap_hist = 9600 if ctx.thorough else 320
    # interleave the three random families so that a tight budget cuts all
    # of them proportionally
    k = 0
    while ctx.time_left() > 0 and k < max(cap_rnd, cap_big, cap_hist):
        k += 1
        if not ctx.mine(k):
            continue
        # 2. random networks, full battery
        if k <= cap_rnd:
            cid = f"rnd:{k}"
            if ctx.want(cid):
                g = ctx.rng("rnd", k)
                A = gg.random_connected(g, 3, nmax if k % 3 else 12)
                kind = kinds[k % 5] if k % 11 else "wide"
                r = weight_topology(g, A, kind)
                if k % 4 == 0:
                    # other units (mega-/micro-ohm): every law is scale free
                    r = r * float(g.choice([1e7, 1e-7, 1e4]))
                    ctx.count("extreme_unit_networks")
                if kind == "complex" and not cond_ok(r):
                    ctx.count("complex_illconditioned_skipped")
                else:
                    with ctx.guard(120):
                        check_network(ctx, RN, r, cid, full=len(A) <= 16,
                                      via_grid=(k % 7 == 0))
                        ctx.count("random_cases")
                        if ctx.shard == 0:
                            ctx.sample({"case": cid, "n": len(A),
                                        "links": int(A.sum() // 2),
                                        "kind": kind})
        # 2b. weakly coupled circuits (one large resistor across a cut)
        if k <= cap_hist:
            cid = f"weak:{k}"
            if ctx.want(cid):
                with ctx.guard(60):
                    weakly_coupled(ctx, RN, ctx.rng("weak", k), cid)
        # 3. large networks, effective-resistance laws only
        if k <= cap_big:
            cid = f"big:{k}"
            if ctx.want(cid):
                g = ctx.rng("big", k)
                A = gg.random_connected(g, 13, 30)
                kind = ["wide", "equal", "decade", "complex"][k % 4]
                r = weight_topology(g, A, kind)
                if kind == "complex" and not cond_ok(r):
                    ctx.count("complex_illconditioned_skipped")
                else:
                    with ctx.guard(120):
                        check_network(ctx, RN, r, cid, full=(k % 4 == 1))
                        ctx.count("large_networks")
        # 4. histories
        if k <= cap_hist:
            cid = f"hist:{k}"
            if ctx.want(cid):
                g = ctx.rng("histtop", k)
                A = gg.random_connected(g, 3, 20 if ctx.thorough and k % 4 == 0
                                        else 10)
                with ctx.guard(120):
                    check_history(ctx, RN, A, cid)
