"""C10 - similarity and coupling estimates equal reference statistics."""
import faulthandler
import itertools
import os
import warnings

import numpy as np

from pvm.ref import coupling as ref

CA = "CouplingAnalysis"
PP = "CouplingAnalysisPurePython"

TOL_R = 5e-6        # correlations: float32 kernel input, float64 accumulation
TOL_MI_HIST = 1e-4  # fixed-width histogram MI: float32 accumulation of terms

META = dict(
    shards={"quick": 16, "thorough": 16},
    budget={"quick": 50, "thorough": 540},
    timeout={"quick": 600, "thorough": 3000},
    rule=("cases: (a) every 2-series data set over {-1,0,1} of length 3 "
          "(quick) / 3..4 (thorough) x tau_max in {0,1} for cross_correlation "
          "'all' and 'max'; (b) seeded random data sets, T in 3..60 quick / "
          "..400 thorough, N in 2..8 (incl. N>T), styles normal / AR with "
          "lagged cross coupling / dyadic (multiples of 1/256, tie-free) / "
          "small integers (ties), decorated with constant, duplicated and "
          "anti-correlated columns; tau_max 0..5, bins 2..8, knn 1..M/2 with "
          "M=T-tau_max > knn+2, past 1..2.  Families: cc (cross_correlation "
          "all/max, symmetrize_by_absmax, pure-Python twin), mi (gauss, "
          "binning, pure-Python binning twin), knn, it (information_transfer "
          "gauss, ity/mit, max/all), clim (Tsonis, Spearman, "
          "PartialCorrelation, MutualInfo climate networks on a ClimateData "
          "with time_cycle 1..T/2 or 12 + winter_only), surr "
          "(Surrogates.test_pearson_correlation / test_mutual_information). "
          "Oracle: pvm.ref.coupling (numpy/scipy statistics on the documented "
          "windows; least-squares residuals for partial correlations; brute "
          "force neighbour counts for knn; single-precision re-evaluation of "
          "the documented rescaling for the fixed-width histogram MI). "
          "Tolerances: 5e-6 abs for correlations, 5e-6+1e-6*|v| for "
          "gauss/knn/binning MI (float64 arithmetic, float32 result), 1e-4 "
          "for histogram MI (float32 accumulation). Entries whose "
          "standardisation divides by zero (constant window), whose "
          "conditioning set is rank deficient, or (knn) where a competing "
          "distance lies within 4e-10 of the k-th neighbour distance are "
          "undefined: only 'no finite value outside the range of the "
          "statistic' is required there.  Spearman: main class = anomalies "
          "whose sorted samples are separated by > 1e-9 x range in every "
          "series; (nearly) tied anomalies are a separately signed class "
          "(':ties') on which only the comparison with average-rank "
          "Spearman rho is made.  Relations per case: lag-0 symmetry, "
          "|r|<=1+1e-6, MI>=-1e-6, MI<=log(#bins)+1e-6, positive affine maps "
          "with power-of-two scales, reordering of the series, 'max' summary "
          "= value/lag at the (absolute) maximum of the 'all' lag function "
          "(ties: any maximiser).  non-trivial = distinct (family, "
          "parameters, data) whose reference has at least one compared "
          "off-diagonal entry with a non-degenerate value (0.05<|r|<0.95 resp. "
          "MI>0.01), i.e. a wrong window, normalisation or index would "
          "change a compared number."),
    floors={"quick": {"runs_without_hard_kill": 1, "cc_all_compared": 150,
                      "cc_max_compared": 150, "symmetrize_compared": 300,
                      "pure_cc_compared": 80, "twin_cc_compared": 140,
                      "mi_gauss_compared": 90, "mi_binning_compared": 110,
                      "mi_knn_compared": 60, "it_gauss_compared": 90,
                      "clim_pearson_compared": 100,
                      "clim_spearman_compared": 60,
                      "clim_partial_compared": 50, "clim_mi_compared": 100,
                      "surr_pearson_compared": 60, "surr_mi_compared": 60,
                      "affine_checked": 800, "reorder_checked": 1000},
            "thorough": {"runs_without_hard_kill": 1,
                         "cc_all_compared": 4500, "cc_max_compared": 4500,
                         "symmetrize_compared": 9000,
                         "pure_cc_compared": 2000, "twin_cc_compared": 3500,
                         "mi_gauss_compared": 2800,
                         "mi_binning_compared": 3500,
                         "mi_knn_compared": 1800, "it_gauss_compared": 2800,
                         "clim_pearson_compared": 3500,
                         "clim_spearman_compared": 2000,
                         "clim_partial_compared": 2000,
                         "clim_mi_compared": 3500,
                         "surr_pearson_compared": 2200,
                         "surr_mi_compared": 2200,
                         "affine_checked": 25000, "reorder_checked": 30000}},
    exhaustive_subspaces={
        "quick": ["all 729 two-series data sets over {-1,0,1}, T=3, "
                  "tau_max in {0,1}, cross_correlation all+max"],
        "thorough": ["all 729+6561 two-series data sets over {-1,0,1}, "
                     "T=3..4, tau_max in {0,1}, cross_correlation all+max"]},
    assumptions=[
        "numpy.corrcoef / numpy.linalg.lstsq / scipy.stats.rankdata / "
        "scipy.special.digamma are correct",
        "window convention of CouplingAnalysis read from the docstrings: "
        "entry (i,j,tau) relates x_i[max_lag-tau:T-tau] to x_j[max_lag:T], "
        "max_lag=tau_max (+past); pure-Python twin: x_i[tau_max:T-tau_max] "
        "vs x_j[t:t+T-2tau_max]",
        "MI-type 'max' summaries start from 0 (MI is non-negative): the "
        "reference is max(0, max_tau) with lag 0 when nothing is positive",
        "constant windows / rank-deficient conditions / knn distance ties "
        "are outside the domain of the statistic (only range is checked)",
        "a ValueError mentioning a constant array / NaNs on data with a "
        "constant window is a documented refusal (case counted as rejected)",
        "climate networks: similarity_measure() is documented to be the "
        "absolute value (float32) of calculate_similarity_measure(anomaly)",
        "knn estimator only run with T-tau_max > knn+2 and on windows whose "
        "single-precision standardisation is finite (the growing-cube "
        "search cannot terminate otherwise; robustness observation, not "
        "C10); a hard watchdog (90 s/case) turns a non-returning kernel into "
        "INCONCLUSIVE, a signal death into an event '<call>:crashes:<SIG>'",
    ],
    resume_on_death=True,   # see run()/post(): kernels that kill or hang
    technique="differential testing against independent reference statistics "
              "+ metamorphic relations, sharded seeded generation",
    level_text="every compared estimate agreed with an independent "
               "computation on the sampled data sets; no proof beyond them",
    level_note="trusts numpy/scipy primitives and the reading of the "
               "documented window conventions stated in assumptions",
)


META["rule"] += (
    " " + 'Added after the second round of seeded changes: CouplingAnalysis receives the data in the representation a caller may hold it in (Fortran order, strided view, read-only, float32 / int64 when exact).')

META["rule"] += (
    " " + 'Added after the third round: 30 % of the climate networks built with non_local=True; the pure-Python twin with only_tri=True (upper triangle equal, lower triangle lag-mirrored); nearly collinear series for the partial correlation (cond 1e3 .. 1e7); CoupledTsonisClimateNetwork correlation; records of 200004 .. 600000 samples (histogram cells beyond 16 bit) and lags of 128 .. 260.')

META["rule"] += (
    " " + 'Added after the sixth round: a fifth of the CouplingAnalysis objects get [time, lat, lon] fields, C- or Fortran-ordered; the pure-Python MI twin with 16 .. 32 bins.')

META["rule"] += (
    " " + "Added after the eighth round: self entries of the information transfer in lag mode 'all' compared wherever the reference is defined; one data object serves all four climate networks (any order) in half of the cases.")

META["rule"] += (
    " " + 'Added after the ninth round: records whose level is up to 2^22 spreads (cross-correlation affine relation).')

# --------------------------------------------------------------------------
# helpers
# --------------------------------------------------------------------------
def _f(a):
    return np.asarray(a, dtype=np.float64)


def worst(lib, rf, tol, rtol=0.0):
    """(n_bad, max_err, first_bad_index) over entries where rf is defined."""
    lib = _f(lib)
    rf = _f(rf)
    if lib.shape != rf.shape:
        return -1, float("inf"), None
    m = ~np.isnan(rf) & np.isfinite(rf)
    if not m.any():
        return 0, 0.0, None
    with np.errstate(all="ignore"):
        err = np.abs(lib - rf)
    err = np.where(np.isnan(err), np.inf, err)
    allowed = tol + rtol * np.abs(np.where(m, rf, 0))
    bad = m & (err > allowed)
    mx = float(np.max(np.where(m, np.where(np.isinf(err), 1e30, err), 0)))
    idx = None
    if bad.any():
        idx = [int(v) for v in np.argwhere(bad)[0]]
    return int(bad.sum()), mx, idx


def out_of_range(lib, lo, hi):
    lib = _f(lib)
    fin = np.isfinite(lib)
    return bool(np.any(fin & ((lib < lo) | (lib > hi))))


def nondegenerate_r(rf, offdiag=True):
    rf = _f(rf)
    if rf.ndim >= 2 and offdiag:
        n = rf.shape[0]
        eye = np.eye(n, dtype=bool)
        eye = eye.reshape(eye.shape + (1,) * (rf.ndim - 2))
        rf = np.where(np.broadcast_to(eye, rf.shape), np.nan, rf)
    with np.errstate(all="ignore"):
        return bool(np.any((np.abs(rf) > 0.05) & (np.abs(rf) < 0.95)))


def nondegenerate_mi(rf):
    rf = _f(rf)
    n = rf.shape[0]
    eye = np.eye(n, dtype=bool)
    eye = eye.reshape(eye.shape + (1,) * (rf.ndim - 2))
    rf = np.where(np.broadcast_to(eye, rf.shape), np.nan, rf)
    with np.errstate(all="ignore"):
        return bool(np.any(np.isfinite(rf) & (rf > 0.01)))


def dkey(fam, params, data):
    return (fam, params, np.ascontiguousarray(data).tobytes().hex()[:4000],
            data.shape)


def is_refusal(e, data_has_const):
    s = str(e).lower()
    return isinstance(e, ValueError) and ("constant" in s or "nan" in s) \
        and data_has_const


# --------------------------------------------------------------------------
# data generation
# --------------------------------------------------------------------------
def gen_data(r, T, N, style, decorate=True):
    tags = [style]
    if style == "normal":
        x = r.normal(size=(T, N))
    elif style == "ar":
        e = r.normal(size=(T, N))
        x = np.zeros((T, N))
        a = r.uniform(0.2, 0.8, size=N)
        lag = r.integers(1, 4, size=N)
        c = r.uniform(0.3, 1.0, size=N) * r.choice([-1, 1], size=N)
        for t in range(T):
            for n in range(N):
                x[t, n] = e[t, n]
                if t >= 1:
                    x[t, n] += a[n] * x[t - 1, n]
                if n > 0 and t >= lag[n]:
                    x[t, n] += c[n] * x[t - lag[n], n - 1]
    elif style == "dyadic":
        # tie-free multiples of 1/256 (exact in float32, exact under
        # power-of-two scaling and integer shifts)
        x = np.empty((T, N))
        for n in range(N):
            x[:, n] = r.choice(np.arange(-2048, 2049), size=T,
                               replace=False) / 256.0
    elif style == "int":
        x = r.integers(-3, 4, size=(T, N)).astype(float)
    else:
        raise ValueError(style)
    if decorate and N >= 2:
        u = r.random()
        j = int(r.integers(0, N))
        i = int((j + 1 + r.integers(0, N - 1)) % N)
        if u < 0.12:
            x[:, j] = float(r.integers(-4, 5))
            tags.append("const")
        elif u < 0.22:
            x[:, j] = x[:, i]
            tags.append("dup")
        elif u < 0.32:
            x[:, j] = -2.0 * x[:, i] + 3.0
            tags.append("anti")
        elif u < 0.38 and T >= 4:
            x[1:, j] = x[1, j]
            tags.append("partconst")
    return np.ascontiguousarray(x), tags


def has_const_window(data, max_lag):
    """True if some window of length T-max_lag of some column is constant."""
    T, N = data.shape
    M = T - max_lag
    for n in range(N):
        for s in range(max_lag + 1):
            if ref.is_const(data[s:s + M, n]):
                return True
    return False


def affine_map(r, data, exact=False, levels=False):
    N = data.shape[1]
    a = 2.0 ** r.integers(-2, 3, size=N)
    if exact:
        b = r.integers(-8, 9, size=N).astype(float)
    else:
        b = r.integers(-8, 9, size=N) / 4.0
    if levels and not exact and r.random() < 0.35:
        # records whose level is large compared with their spread
        # (pressure in Pa, temperatures in K, counters): the shift is a
        # whole number of up to 2^22 spreads
        b = b * 2.0 ** r.integers(14, 23, size=N) * np.maximum(
            1.0, np.round(np.nanstd(data, axis=0) * a))
    return data * a + b, a, b


# --------------------------------------------------------------------------
# family cc: cross_correlation, symmetrize_by_absmax, pure-Python twin
# --------------------------------------------------------------------------
def used_object(ctx, CouplingAnalysis, data, cid, salt=0):
    """A CouplingAnalysis object that has (in half of the cases) already
    answered other queries: every estimate has to equal its reference
    whatever was asked of the same object before."""
    from pvm.gen.held import as_held
    r = ctx.rng("used", cid, salt)
    hd, htag = as_held(r, data, allow_list=False)
    N_ = data.shape[1]
    if N_ >= 4 and N_ % 2 == 0 and r.random() < 0.2:
        # a field on a lat x lon grid, [time, lat, lon] (the documented 3-D
        # input): node k is grid point (k // n_lon, k % n_lon), whatever the
        # memory order of the array
        f3 = np.asarray(data).reshape(data.shape[0], 2, N_ // 2)
        hd = np.asfortranarray(f3) if r.random() < 0.6 else f3.copy()
        htag = "3d-" + ("fortran" if hd.flags.f_contiguous else "c")
    ctx.count("input_held_as:" + htag)
    ca = CouplingAnalysis(hd, silence_level=3)
    if r.random() < 0.5:
        return ca
    T = data.shape[0]
    for _ in range(int(r.integers(1, 3))):
        tau = int(r.integers(0, max(1, min(8, T - 3)) + 1))
        what = int(r.integers(0, 4))
        if what == 0:
            ctx.call(ca.cross_correlation, tau_max=tau, lag_mode="all")
        elif what == 1:
            ctx.call(ca.cross_correlation, tau_max=tau, lag_mode="max")
        elif what == 2:
            ctx.call(ca.mutual_information, tau_max=tau, estimator="binning",
                     bins=3, lag_mode="all")
        elif tau >= 1:
            ctx.call(ca.information_transfer, tau_max=tau, estimator="gauss",
                     lag_mode="max")
    ctx.count("objects_used_before")
    return ca


def check_cc_core(ctx, CouplingAnalysis, data, tau_max, cid, case,
                  count=True):
    """'all' and 'max' against the reference.  Returns (lib_all, S, L, R) or
    None."""
    ca = used_object(ctx, CouplingAnalysis, data, cid)
    ok, A = ctx.call(ca.cross_correlation, tau_max=tau_max, lag_mode="all")
    ctx.evals()
    if not ok:
        ctx.violation(f"{CA}.cross_correlation:all:raises:"
                      f"{type(A).__name__}", {**case, "exc": repr(A)}, cid)
        return None
    R = ref.cc_all(data, tau_max)
    nbad, mx, idx = worst(A, R, TOL_R)
    ctx.maxstat("cc_all_max_err", mx if nbad >= 0 else 0)
    if nbad:
        ctx.violation(f"{CA}.cross_correlation:all:differs",
                      {**case, "at": idx,
                       "lib": None if idx is None else float(A[tuple(idx)]),
                       "ref": None if idx is None else float(R[tuple(idx)])},
                      cid)
    if count:
        ctx.count("cc_all_compared")
    if out_of_range(A, -1 - 1e-6, 1 + 1e-6):
        ctx.violation(f"{CA}.cross_correlation:all:|r|>1", case, cid)
    if np.max(np.abs(_f(A[:, :, 0]) - _f(A[:, :, 0]).T)) > 1e-6:
        ctx.violation(f"{CA}.cross_correlation:all:lag0-asymmetric", case,
                      cid)
    ok, SL = ctx.call(ca.cross_correlation, tau_max=tau_max, lag_mode="max")
    ctx.evals()
    if not ok:
        ctx.violation(f"{CA}.cross_correlation:max:raises:"
                      f"{type(SL).__name__}", {**case, "exc": repr(SL)}, cid)
        return None
    S, L = SL
    N = data.shape[1]
    if out_of_range(S, -1 - 1e-6, 1 + 1e-6):
        ctx.violation(f"{CA}.cross_correlation:max:|r|>1", case, cid)
    for i in range(N):
        for j in range(N):
            f = R[i, j]
            if np.isnan(f).any():
                continue        # undefined for some lag: range only
            m, lags = ref.absmax_lags(f, 2 * TOL_R)
            lag = int(L[i, j])
            d = {**case, "i": i, "j": j, "lib_val": float(S[i, j]),
                 "lib_lag": lag, "ref_lagfunc": f}
            if abs(abs(float(S[i, j])) - m) > TOL_R:
                ctx.violation(f"{CA}.cross_correlation:max:value-differs",
                              d, cid)
            elif lag not in lags:
                ctx.violation(f"{CA}.cross_correlation:max:lag-not-at-"
                              "absmax", d, cid)
            elif abs(float(S[i, j]) - f[lag]) > TOL_R:
                ctx.violation(f"{CA}.cross_correlation:max:sign-differs",
                              d, cid)
    if count:
        ctx.count("cc_max_compared")
    return A, S, L, R


def check_symmetrize(ctx, ca, S, L, cid, case, origin):
    S0 = np.array(S, dtype=np.float32)
    L0 = np.array(L, dtype=np.int8)
    ok, res = ctx.call(ca.symmetrize_by_absmax, S0.copy(), L0.copy())
    ctx.evals()
    if not ok:
        ctx.violation(f"{CA}.symmetrize_by_absmax:{origin}:raises:"
                      f"{type(res).__name__}", {**case, "exc": repr(res)},
                      cid)
        return
    S2, L2 = res
    RS, RL, tie = ref.symmetrize_by_absmax(S0, L0)
    S2 = _f(S2)
    L2 = np.asarray(L2).astype(np.int64)
    okS = (S2 == RS) | (tie & (np.abs(S2) == np.abs(RS)))
    # on ties either orientation may win: the lag must then be consistent
    # with one of the two orientations
    okL = (L2 == RL) | tie
    ctx.count("symmetrize_compared")
    d = {**case, "S": S0, "L": L0, "lib_S": S2, "lib_L": L2}
    if not okS.all():
        ctx.violation(f"{CA}.symmetrize_by_absmax:{origin}:value-differs",
                      d, cid)
    elif not okL.all():
        ctx.violation(f"{CA}.symmetrize_by_absmax:{origin}:lag-differs",
                      d, cid)
    else:
        N = S0.shape[0]
        for i in range(N):
            for j in range(i + 1, N):
                if abs(S2[i, j]) != abs(S2[j, i]):
                    ctx.violation(f"{CA}.symmetrize_by_absmax:{origin}:"
                                  "result-not-symmetric", d, cid)
                    return
                if tie[i, j] and not (
                        (L2[i, j] == L0[i, j] and L2[j, i] == -L0[i, j]) or
                        (L2[j, i] == L0[j, i] and L2[i, j] == -L0[j, i])):
                    ctx.violation(f"{CA}.symmetrize_by_absmax:{origin}:"
                                  "lag-differs", d, cid)
                    return


def long_lag(ctx, r, T, N, tau_max, data, tags):
    """In a few cases: lags beyond 127 / 255 (lag matrices of narrow integer
    type), with a lagged copy planted so that the maximum sits there."""
    if r.random() >= 0.03:
        return T, tau_max, data, tags
    T = int(r.integers(300, 420))
    tau_max = int(r.choice([128, 130, 200, 260]))
    data = r.normal(size=(T, N))
    lag = int(r.integers(128, tau_max + 1))
    a, b = (0, 1) if r.random() < 0.5 else (1, 0)
    data[lag:, a] = data[:-lag, b] + 0.05 * r.normal(size=T - lag)
    ctx.count("long_lag_cases")
    return T, tau_max, data, list(tags) + [f"planted-lag-{lag}"]


def fam_cc(ctx, mods, r, k, cid):
    CouplingAnalysis, PurePy = mods["CA"], mods["PP"]
    Tmax = 400 if ctx.thorough else 60
    T = int(r.integers(3, Tmax + 1)) if r.random() < 0.3 else \
        int(r.integers(3, 25))
    N = int(r.integers(2, 9))
    tau_max = int(r.integers(0, min(5, T - 2) + 1))
    style = str(r.choice(["normal", "ar", "dyadic", "int"]))
    data, tags = gen_data(r, T, N, style)
    T, tau_max, data, tags = long_lag(ctx, r, T, N, tau_max, data, tags)
    case = {"T": T, "N": N, "tau_max": tau_max, "tags": tags,
            "data": data if data.size <= 60 else None}
    res = check_cc_core(ctx, CouplingAnalysis, data, tau_max, cid, case)
    if res is None:
        return
    A, S, L, R = res
    if nondegenerate_r(R):
        ctx.nontrivial(dkey("cc", tau_max, data))
        ctx.sample({"family": "cc", "T": T, "N": N, "tau_max": tau_max,
                    "tags": tags, "lib[0,1,:]": A[0, 1], "ref[0,1,:]":
                    R[0, 1], "max": [float(S[0, 1]), int(L[0, 1])]})
    ca = used_object(ctx, CouplingAnalysis, data, cid)
    check_symmetrize(ctx, ca, S, L, cid, case, "cc-output")
    # synthetic similarity/lag matrices with ties and signs
    Sq = (r.integers(-8, 9, size=(N, N)) / 8.0).astype(np.float32)
    Lq = r.integers(0, 6, size=(N, N)).astype(np.int8)
    check_symmetrize(ctx, ca, Sq, Lq, cid, {"N": N}, "synthetic")
    # ---- affine maps (power-of-two scale, dyadic shift) ----------------
    d2, a, b = affine_map(r, data, levels=True)
    if np.abs(b).max() > 1e3:
        ctx.count("cc_records_with_a_large_level")
    ok, A2 = ctx.call(CouplingAnalysis(d2, silence_level=3).
                      cross_correlation, tau_max=tau_max, lag_mode="all")
    ctx.evals()
    und = np.isnan(R)
    if not ok:
        ctx.violation(f"{CA}.cross_correlation:all:affine:raises:"
                      f"{type(A2).__name__}", case, cid)
    else:
        dd = np.abs(_f(A2) - _f(A))
        dd[und] = 0
        ctx.maxstat("cc_affine_max_diff", dd.max())
        if dd.max() > 2 * TOL_R:
            ctx.violation(f"{CA}.cross_correlation:all:affine-variant",
                          {**case, "a": a, "b": b, "diff": float(dd.max())},
                          cid)
        ctx.count("affine_checked")
    # ---- reordering ------------------------------------------------------
    p = r.permutation(N)
    ok, A3 = ctx.call(CouplingAnalysis(np.ascontiguousarray(data[:, p]),
                                       silence_level=3).cross_correlation,
                      tau_max=tau_max, lag_mode="all")
    ctx.evals()
    if not ok:
        ctx.violation(f"{CA}.cross_correlation:all:reorder:raises:"
                      f"{type(A3).__name__}", case, cid)
    else:
        dd = np.abs(_f(A3) - _f(A)[np.ix_(p, p)])
        dd[und[np.ix_(p, p)]] = 0
        if dd.max() > 1e-6:
            ctx.violation(f"{CA}.cross_correlation:all:reorder-not-"
                          "equivariant", {**case, "perm": p,
                                          "diff": float(dd.max())}, cid)
        ctx.count("reorder_checked")
    # ---- pure-Python twin ---------------------------------------------
    if N > 5 or T > 120:
        return
    tp = int(r.integers(0, min(3, (T - 2) // 2) + 1))
    pp = PurePy(data.copy(), silence_level=3)
    ok, P = ctx.call(pp.cross_correlation, tau_max=tp, lag_mode="all")
    ctx.evals()
    pcase = {**case, "pure_tau_max": tp}
    if not ok:
        ctx.violation(f"{PP}.cross_correlation:all:raises:"
                      f"{type(P).__name__}", {**pcase, "exc": repr(P)}, cid)
        return
    RP = ref.pure_cc_all(data, tp)
    nbad, mx, idx = worst(P, RP, TOL_R)
    ctx.maxstat("pure_cc_max_err", mx if nbad >= 0 else 0)
    if nbad:
        ctx.violation(f"{PP}.cross_correlation:all:differs",
                      {**pcase, "at": idx,
                       "lib": None if idx is None else float(P[tuple(idx)]),
                       "ref": None if idx is None else float(RP[tuple(idx)])},
                      cid)
    if out_of_range(P, -1 - 1e-6, 1 + 1e-6):
        ctx.violation(f"{PP}.cross_correlation:all:|r|>1", pcase, cid)
    ctx.count("pure_cc_compared")
    # only_tri=True: "only the upper triangle ... assuming symmetry": the
    # upper triangle is the full computation's, the lower triangle is the
    # upper one with the lag axis mirrored (c_ji(tau) = c_ij(-tau))
    ok, PT = ctx.call(lambda: PurePy(data.copy(), only_tri=True,
                                     silence_level=3)
                      .cross_correlation(tau_max=tp, lag_mode="all"))
    ctx.evals()
    if not ok:
        ctx.violation(f"{PP}.cross_correlation:all:only_tri:raises:"
                      f"{type(PT).__name__}", {**pcase, "exc": repr(PT)}, cid)
    elif np.shape(PT) == np.shape(P):
        PT = np.asarray(PT, float)
        Pf = np.asarray(P, float)
        iu = np.triu_indices(N, 1)
        up_ok = np.allclose(PT[:, iu[0], iu[1]], Pf[:, iu[0], iu[1]],
                            atol=TOL_R, equal_nan=True)
        lo_ok = np.allclose(PT[:, iu[1], iu[0]], PT[::-1, iu[0], iu[1]],
                            atol=TOL_R, equal_nan=True)
        ctx.count("pure_cc_only_tri_compared")
        if not (up_ok and lo_ok):
            ctx.violation(f"{PP}.cross_correlation:all:only_tri:"
                          + ("upper-triangle-differs" if not up_ok else
                             "lower-triangle-not-lag-mirrored"), pcase, cid)
    # other units (a correlation does not depend on them): micro / mega
    # scales, not powers of two
    cu = float(r.choice([1e-8, 1e-3, 1e8]))
    if not has_const_window(data, max(tp, tau_max)):
        ok, PU = ctx.call(lambda: PurePy(data * cu, silence_level=3)
                          .cross_correlation(tau_max=tp, lag_mode="all"))
        ok2, AU = ctx.call(lambda: CouplingAnalysis(data * cu,
                                                    silence_level=3)
                           .cross_correlation(tau_max=tau_max,
                                              lag_mode="all"))
        ctx.evals(2)
        ctx.count("unit_change_compared")
        for nm, okx, lib, want in ((PP, ok, PU, RP), (CA, ok2, AU, R)):
            if not okx:
                ctx.violation(f"{nm}.cross_correlation:all:unit-change:"
                              f"raises:{type(lib).__name__}",
                              {**pcase, "unit": cu, "exc": repr(lib)}, cid)
                continue
            nbad, mx, idx = worst(lib, want, 4 * TOL_R)
            if nbad:
                ctx.violation(f"{nm}.cross_correlation:all:unit-change:"
                              "differs", {**pcase, "unit": cu, "at": idx},
                              cid)
    ok, PM = ctx.call(pp.cross_correlation, tau_max=tp, lag_mode="max")
    ctx.evals()
    if not ok:
        ctx.violation(f"{PP}.cross_correlation:max:raises:"
                      f"{type(PM).__name__}", {**pcase, "exc": repr(PM)},
                      cid)
    else:
        for i in range(N):
            for j in range(N):
                f = RP[:, i, j]
                if np.isnan(f).any():
                    continue
                m, lags = ref.absmax_lags(f, 2 * TOL_R)
                lag = int(round(float(PM[1, i, j]))) + tp
                d = {**pcase, "i": i, "j": j, "lib_val": float(PM[0, i, j]),
                     "lib_lag": lag - tp, "ref_lagfunc": f}
                if abs(float(PM[0, i, j]) - m) > TOL_R:
                    ctx.violation(f"{PP}.cross_correlation:max:value-"
                                  "differs", d, cid)
                elif lag not in lags:
                    ctx.violation(f"{PP}.cross_correlation:max:lag-not-at-"
                                  "absmax", d, cid)
    # 'sum': documented as the sums of |cc| over the non-negative lags
    # (corrmat[0]) and over the non-positive lags (corrmat[1])
    ok, PS = ctx.call(pp.cross_correlation, tau_max=tp, lag_mode="sum")
    ctx.evals()
    if not ok:
        ctx.violation(f"{PP}.cross_correlation:sum:raises:"
                      f"{type(PS).__name__}", {**pcase, "exc": repr(PS)},
                      cid)
    else:
        RS = np.stack([np.abs(RP[tp:]).sum(axis=0),
                       np.abs(RP[:tp + 1]).sum(axis=0)])
        nbad, _, idx = worst(PS, RS, TOL_R * (tp + 1))
        if nbad:
            ctx.violation(f"{PP}.cross_correlation:sum:differs",
                          {**pcase, "at": idx,
                           "lib": float(PS[tuple(idx)]),
                           "ref": float(RS[tuple(idx)])}, cid)
        ctx.count("pure_cc_sum_compared")
    # agreement of the two implementations where the windows coincide:
    # (1) tau_max = 0 ; (2) pure tau_max = t', entry [2t', i, j]  ==
    #     compiled tau_max = 2t', entry (i, j, t')
    ok1, C0 = ctx.call(ca.cross_correlation, tau_max=0, lag_mode="all")
    ok2, P0 = ctx.call(pp.cross_correlation, tau_max=0, lag_mode="all")
    ctx.evals(2)
    if ok1 and ok2:
        dd = float(np.max(np.abs(_f(C0)[:, :, 0] - _f(P0)[0])))
        ctx.maxstat("twin_cc_max_diff", dd)
        if dd > TOL_R:
            ctx.violation(f"{CA}|{PP}.cross_correlation:tau_max=0:"
                          "implementations-disagree",
                          {**case, "diff": dd}, cid)
        ctx.count("twin_cc_compared")
    if tp > 0 and T - 2 * tp >= 2:
        ok1, C2 = ctx.call(ca.cross_correlation, tau_max=2 * tp,
                           lag_mode="all")
        ctx.evals()
        if ok1:
            dd = float(np.max(np.abs(_f(C2)[:, :, tp] - _f(P)[2 * tp])))
            if dd > TOL_R:
                ctx.violation(f"{CA}|{PP}.cross_correlation:coinciding-"
                              "window:implementations-disagree",
                              {**pcase, "diff": dd}, cid)
            ctx.count("twin_cc_compared")


# --------------------------------------------------------------------------
# family mi: gauss + binning
# --------------------------------------------------------------------------
def check_mi_max(ctx, name, S, L, F, tol, rtol, cid, case, scale=1.0):
    """'max' summary (S, L) against the lag functions F (N,N,taus), which are
    the reference (NaN = undefined).  Returns number of bad pairs."""
    N = F.shape[0]
    bad = 0
    for i in range(N):
        for j in range(N):
            f = F[i, j] * scale
            if np.isnan(f).any():
                continue
            with np.errstate(all="ignore"):
                m = max(0.0, float(np.max(f)))
            v = float(S[i, j])
            lag = int(L[i, j])
            d = {**case, "i": i, "j": j, "lib_val": v, "lib_lag": lag,
                 "ref_lagfunc": f}
            if np.isinf(m):
                if not (np.isinf(v) and v > 0 and np.isinf(f[lag])):
                    ctx.violation(f"{name}:max:value-differs", d, cid)
                    bad += 1
                continue
            allowed = tol + rtol * abs(m)
            if not abs(v - m) <= allowed:
                ctx.violation(f"{name}:max:value-differs", d, cid)
                bad += 1
            elif m > 2 * allowed and not (0 <= lag < len(f) and
                                          f[lag] >= m - 2 * allowed):
                # (if nothing is significantly positive every lag is an
                # acceptable maximiser: rounding noise decides)
                ctx.violation(f"{name}:max:lag-not-at-max", d, cid)
                bad += 1
    return bad


def fam_mi(ctx, mods, r, k, cid):
    CouplingAnalysis, PurePy = mods["CA"], mods["PP"]
    Tmax = 400 if ctx.thorough else 60
    T = int(r.integers(3, Tmax + 1)) if r.random() < 0.3 else \
        int(r.integers(3, 25))
    N = int(r.integers(2, 7))
    tau_max = int(r.integers(0, min(5, T - 2) + 1))
    style = str(r.choice(["normal", "ar", "dyadic", "int"]))
    data, tags = gen_data(r, T, N, style)
    T, tau_max, data, tags = long_lag(ctx, r, T, N, tau_max, data, tags)
    M = T - tau_max
    case = {"T": T, "N": N, "tau_max": tau_max, "tags": tags,
            "data": data if data.size <= 60 else None}
    ca = used_object(ctx, CouplingAnalysis, data, cid)
    constw = has_const_window(data, tau_max)
    # ------------------------------ gauss -------------------------------
    name = f"{CA}.mutual_information:gauss"
    ok, G = ctx.call(ca.mutual_information, tau_max=tau_max,
                     estimator="gauss", lag_mode="all")
    ctx.evals()
    if not ok:
        if is_refusal(G, constw):
            ctx.count("rejected")
        else:
            ctx.violation(f"{name}:all:raises:{type(G).__name__}",
                          {**case, "exc": repr(G)}, cid)
    else:
        RG, RR = ref.mi_gauss_all(data, tau_max)
        with np.errstate(all="ignore"):
            RGc = np.where(1 - RR ** 2 < 1e-6, np.nan, RG)
        nbad, mx, idx = worst(G, RGc, TOL_R, 1e-6)
        ctx.maxstat("mi_gauss_max_err", mx if nbad >= 0 else 0)
        if nbad:
            ctx.violation(f"{name}:all:differs",
                          {**case, "at": idx, "lib": None if idx is None
                           else float(G[tuple(idx)]), "ref": None if idx is
                           None else float(RGc[tuple(idx)])}, cid)
        ctx.count("mi_gauss_compared")
        if out_of_range(G, -1e-6, np.inf):
            ctx.violation(f"{name}:all:negative", case, cid)
        g0 = _f(G[:, :, 0])
        with np.errstate(all="ignore"):
            asym = np.abs(g0 - g0.T)
        asym = asym[np.isfinite(asym)]
        if asym.size and asym.max() > 1e-6 * max(1.0, np.max(
                g0[np.isfinite(g0)], initial=1.0)):
            ctx.violation(f"{name}:all:lag0-asymmetric", case, cid)
        if nondegenerate_r(RR):
            ctx.nontrivial(dkey("mi-gauss", tau_max, data))
        ok, SL = ctx.call(ca.mutual_information, tau_max=tau_max,
                          estimator="gauss", lag_mode="max")
        ctx.evals()
        if not ok:
            ctx.violation(f"{name}:max:raises:{type(SL).__name__}",
                          {**case, "exc": repr(SL)}, cid)
        else:
            # pairs with a (nearly) perfectly correlated lag are skipped:
            # rounding decides between a huge value, inf and NaN there
            Fm = RGc
            check_mi_max(ctx, name, SL[0], SL[1], Fm, TOL_R, 1e-6, cid, case)
            ctx.count("mi_gauss_max_compared")
        # affine + reorder on the lag functions
        d2, a, b = affine_map(r, data)
        ok, G2 = ctx.call(CouplingAnalysis(d2, silence_level=3).
                          mutual_information, tau_max=tau_max,
                          estimator="gauss", lag_mode="all")
        ctx.evals()
        if ok:
            nb, mx2, idx = worst(G2, np.where(np.isnan(RGc), np.nan, _f(G)),
                                 2 * TOL_R, 1e-5)
            if nb:
                ctx.violation(f"{name}:all:affine-variant",
                              {**case, "a": a, "b": b, "at": idx}, cid)
            ctx.count("affine_checked")
        elif not is_refusal(G2, constw):
            ctx.violation(f"{name}:all:affine:raises:{type(G2).__name__}",
                          case, cid)
        p = r.permutation(N)
        ok, G3 = ctx.call(CouplingAnalysis(
            np.ascontiguousarray(data[:, p]), silence_level=3).
            mutual_information, tau_max=tau_max, estimator="gauss",
            lag_mode="all")
        ctx.evals()
        if ok:
            nb, _, idx = worst(G3, np.where(np.isnan(RGc), np.nan,
                                            _f(G))[np.ix_(p, p)],
                               1e-6, 1e-6)
            if nb:
                ctx.violation(f"{name}:all:reorder-not-equivariant",
                              {**case, "perm": p, "at": idx}, cid)
            ctx.count("reorder_checked")
        elif not is_refusal(G3, constw):
            ctx.violation(f"{name}:all:reorder:raises:{type(G3).__name__}",
                          case, cid)
    # ------------------------------ binning -----------------------------
    if M < 2:
        return
    bins = int(r.integers(2, 9))
    name = f"{CA}.mutual_information:binning"
    bcase = {**case, "bins": bins}
    ok, B = ctx.call(ca.mutual_information, tau_max=tau_max,
                     estimator="binning", bins=bins, lag_mode="all")
    ctx.evals()
    if not ok:
        ctx.violation(f"{name}:all:raises:{type(B).__name__}",
                      {**bcase, "exc": repr(B)}, cid)
        return
    RB = ref.mi_binning_all(data, tau_max, bins)
    scale = 1.0
    nbad, mx, idx = worst(B, RB, TOL_R, 1e-6)
    if nbad and tau_max > 0:
        nb2, mx2, _ = worst(B, RB * (M / float(T)), TOL_R, 1e-6)
        if nb2 == 0:
            # every entry equals the reference times (T - tau_max) / T
            ctx.violation(f"{name}:all:scaled-by-(T-tau_max)/T",
                          {**bcase, "at": idx,
                           "lib": float(B[tuple(idx)]),
                           "ref": float(RB[tuple(idx)]),
                           "ratio": float(B[tuple(idx)] / RB[tuple(idx)]),
                           "(T-tau_max)/T": M / float(T)}, cid)
            scale = M / float(T)
            nbad = 0
            mx = mx2
    ctx.maxstat("mi_binning_max_err", mx if nbad >= 0 else 0)
    if nbad:
        ctx.violation(f"{name}:all:differs",
                      {**bcase, "at": idx, "lib": None if idx is None else
                       float(B[tuple(idx)]), "ref": None if idx is None else
                       float(RB[tuple(idx)])}, cid)
    ctx.count("mi_binning_compared")
    if nondegenerate_mi(RB):
        ctx.nontrivial(dkey("mi-binning", (tau_max, bins), data))
        ctx.sample({"family": "mi-binning", "T": T, "N": N, "bins": bins,
                    "tau_max": tau_max, "tags": tags, "lib[0,1,:]": B[0, 1],
                    "ref[0,1,:]": RB[0, 1]})
    if out_of_range(B, -1e-6, np.log(bins) + 1e-6):
        ctx.violation(f"{name}:all:outside-[0,log(bins)]", bcase, cid)
    b0 = _f(B[:, :, 0])
    if np.max(np.abs(b0 - b0.T)) > 1e-6:
        ctx.violation(f"{name}:all:lag0-asymmetric", bcase, cid)
    ok, SL = ctx.call(ca.mutual_information, tau_max=tau_max,
                      estimator="binning", bins=bins, lag_mode="max")
    ctx.evals()
    if not ok:
        ctx.violation(f"{name}:max:raises:{type(SL).__name__}",
                      {**bcase, "exc": repr(SL)}, cid)
    else:
        if scale != 1.0:
            # known scaling: verify 'max' against the equally scaled
            # reference so that other errors stay visible
            check_mi_max(ctx, name + ":scaled", SL[0], SL[1], RB,
                               TOL_R, 1e-6, cid, bcase, scale=scale)
        else:
            check_mi_max(ctx, name, SL[0], SL[1], RB, TOL_R, 1e-6, cid,
                         bcase)
        ctx.count("mi_binning_max_compared")
    # exact relations on dyadic data (ordering and ties preserved exactly)
    if style in ("dyadic", "int"):
        d2, a, b = affine_map(r, data, exact=True)
        ok, B2 = ctx.call(CouplingAnalysis(d2, silence_level=3).
                          mutual_information, tau_max=tau_max,
                          estimator="binning", bins=bins, lag_mode="all")
        ctx.evals()
        if not ok or np.max(np.abs(_f(B2) - _f(B))) > 1e-6:
            ctx.violation(f"{name}:all:affine-variant",
                          {**bcase, "a": a, "b": b}, cid)
        ctx.count("affine_checked")
    p = r.permutation(N)
    ok, B3 = ctx.call(CouplingAnalysis(np.ascontiguousarray(data[:, p]),
                                       silence_level=3).mutual_information,
                      tau_max=tau_max, estimator="binning", bins=bins,
                      lag_mode="all")
    ctx.evals()
    if not ok or np.max(np.abs(_f(B3) - _f(B)[np.ix_(p, p)])) > 1e-6:
        ctx.violation(f"{name}:all:reorder-not-equivariant",
                      {**bcase, "perm": p}, cid)
    ctx.count("reorder_checked")
    # ---- pure-Python binning twin ---------------------------------------
    if N > 4 or T > 80:
        return
    tp = int(r.integers(0, min(2, (T - 2) // 2) + 1))
    cr = T - 2 * tp
    pp = PurePy(data.copy(), silence_level=3)
    # (the twin also with more bins than fit into four bits: 17 .. 32)
    bins_main = bins
    if r.random() < 0.4:
        bins = int(r.choice([16, 17, 20, 24, 32]))
        ctx.count("pure_mi_more_than_16_bins" if bins > 16
                  else "pure_mi_16_bins")
    ok, PM = ctx.call(pp.mutual_information, bins=bins, tau_max=tp,
                      lag_mode="all")
    ctx.evals()
    pcase = {**bcase, "pure_tau_max": tp, "pure_bins": bins}
    if not ok:
        ctx.violation(f"{PP}.mutual_information:all:raises:"
                      f"{type(PM).__name__}", {**pcase, "exc": repr(PM)},
                      cid)
        return
    # documented: MI = H_x + H_y - H_xy with H_x = H_y = log(bins),
    # normalised by log(bins); bins = number of quantile edges
    nb_eff = len(np.sort(data[:cr, 0])[::int(np.ceil(cr / float(bins)))])
    RPM = np.full((2 * tp + 1, N, N), np.nan)
    uniform = True
    for i in range(N):
        for j in range(N):
            for t in range(2 * tp + 1):
                sx = ref.quantile_symbols(data[tp:tp + cr, i], bins)
                sy = ref.quantile_symbols(data[t:t + cr, j], bins)
                cnt = np.bincount(sx * nb_eff + sy, minlength=nb_eff ** 2)
                pj = cnt[cnt > 0] / float(cr)
                hxy = -np.sum(pj * np.log(pj))
                if nb_eff > 1:
                    RPM[t, i, j] = (2 * np.log(nb_eff) - hxy) / \
                        np.log(nb_eff)
                for s in (sx, sy):
                    if len(set(np.bincount(s, minlength=nb_eff))) != 1:
                        uniform = False
    if nb_eff > 1:
        nbad, mx, idx = worst(PM, RPM, TOL_R, 1e-6)
        if nbad:
            ctx.violation(f"{PP}.mutual_information:all:differs",
                          {**pcase, "at": idx, "lib": None if idx is None
                           else float(PM[tuple(idx)]), "ref": None if idx is
                           None else float(RPM[tuple(idx)])}, cid)
        ctx.count("pure_mi_compared")
    # twins agree where the documented assumption of the pure-Python
    # estimator (equally filled marginal bins) holds and windows coincide
    if tp == 0 and uniform and nb_eff > 1 and bins == bins_main:
        ok, B0 = ctx.call(ca.mutual_information, tau_max=0,
                          estimator="binning", bins=bins, lag_mode="all")
        ctx.evals()
        if ok:
            dd = float(np.max(np.abs(_f(B0)[:, :, 0] -
                                     _f(PM)[0] * np.log(nb_eff))))
            ctx.maxstat("twin_mi_max_diff", dd)
            if dd > 2 * TOL_R:
                ctx.violation(f"{CA}|{PP}.mutual_information:binning:"
                              "tau_max=0:implementations-disagree",
                              {**pcase, "diff": dd}, cid)
            ctx.count("twin_mi_compared")


# --------------------------------------------------------------------------
# family knn
# --------------------------------------------------------------------------
def long_record_mi(ctx, mods, r, k, cid):
    """Hundreds of thousands of samples of strongly dependent series: single
    histogram cells hold more than 32767 / 65535 samples.  Binning and
    Gaussian MI and the lag-0 correlation against the references."""
    T = int([200004, 400002, 262146, 600000][k % 4])
    bins = int([6, 4, 3, 6][k % 4])
    x = r.normal(size=T)
    data = np.column_stack([x, x + 0.02 * r.normal(size=T),
                            r.normal(size=T)])
    ca = mods["CA"](data.copy(), silence_level=3)
    case = {"T": T, "N": 3, "bins": bins, "generator": "x, x+0.02 noise, "
            "independent noise", "case": cid}
    name = "CouplingAnalysis.mutual_information:binning"
    ok, B = ctx.call(ca.mutual_information, tau_max=0, estimator="binning",
                     bins=bins, lag_mode="all")
    ctx.evals()
    ctx.count("long_records")
    if not ok:
        ctx.violation(f"{name}:long-record:raises:{type(B).__name__}",
                      {**case, "exc": repr(B)}, cid)
    else:
        RB = ref.mi_binning_all(data, 0, bins)
        nbad, mx, idx = worst(B, RB, TOL_R, 1e-6)
        ctx.maxstat("long_record_binning_err", mx)
        if nbad:
            ctx.violation(f"{name}:long-record:differs",
                          {**case, "at": idx, "lib": float(B[tuple(idx)]),
                           "ref": float(RB[tuple(idx)])}, cid)
        ctx.nontrivial(("longrec", T, bins))
    ok, Gm = ctx.call(ca.mutual_information, tau_max=0, estimator="gauss",
                      lag_mode="all")
    ctx.evals()
    if ok:
        RG, rr = ref.mi_gauss_all(data, 0)
        # (near-singular pairs: -log(1-r^2)/2 amplifies the float32 rounding
        #  of r without bound; they are compared in the binning estimator)
        RG = np.where(np.abs(rr) < 0.9, RG, np.nan)
        Gm = np.where(np.abs(rr) < 0.9, np.asarray(Gm, float), np.nan)
        nbad, mx, idx = worst(Gm, RG, 1e-4, 1e-4)
        if nbad:
            ctx.violation("CouplingAnalysis.mutual_information:gauss:"
                          "long-record:differs",
                          {**case, "at": idx, "lib": float(Gm[tuple(idx)]),
                           "ref": float(RG[tuple(idx)])}, cid)
    ok, Cc = ctx.call(ca.cross_correlation, tau_max=0, lag_mode="all")
    ctx.evals()
    if ok:
        RC = np.corrcoef(data.T)
        if np.abs(np.asarray(Cc)[:, :, 0] - RC).max() > 1e-4:
            ctx.violation("CouplingAnalysis.cross_correlation:long-record:"
                          "differs", {**case, "lib": np.asarray(Cc)[:, :, 0],
                                      "ref": RC}, cid)


def fam_knn(ctx, mods, r, k, cid):
    CouplingAnalysis = mods["CA"]
    Tmax = 200 if ctx.thorough else 60
    T = int(r.integers(8, Tmax + 1)) if r.random() < 0.4 else \
        int(r.integers(8, 30))
    N = int(r.integers(2, 5))
    tau_max = int(r.integers(0, min(5, T - 6) + 1))
    M = T - tau_max
    # generator precondition: M > knn + 2 and the library's own knn <= T/2
    kmax = min(M // 2, M - 3, T // 2)
    if kmax < 1:
        ctx.count("rejected")
        return
    knn = int(r.integers(1, kmax + 1))
    style = str(r.choice(["normal", "ar", "dyadic"]))
    data, tags = gen_data(r, T, N, style)
    case = {"T": T, "N": N, "tau_max": tau_max, "knn": knn, "tags": tags,
            "data": data if data.size <= 60 else None}
    # generator precondition (termination of the growing-cube search, which
    # a SIGALRM watchdog cannot interrupt inside the compiled kernel): every
    # window standardises to finite single-precision numbers.  A constant
    # window whose float32 mean is inexact standardises to +-inf, is not
    # caught by the library's NaN guard and the search never ends.
    for n in range(N):
        for s0 in range(tau_max + 1):
            w = ref.standardize_f32([data[s0:s0 + M, n]])
            if not np.all(np.isfinite(w)) or ref.is_const(data[s0:s0 + M, n]):
                ctx.count("rejected")
                ctx.count("knn_rejected_constant_window")
                return
    name = f"{CA}.mutual_information:knn"
    ca = used_object(ctx, CouplingAnalysis, data, cid)
    constw = has_const_window(data, tau_max)
    np.random.seed(k)
    ok, K = ctx.call(ca.mutual_information, tau_max=tau_max,
                     estimator="knn", knn=knn, lag_mode="all")
    ctx.evals()
    if not ok:
        if is_refusal(K, constw):
            ctx.count("rejected")
        else:
            ctx.violation(f"{name}:all:raises:{type(K).__name__}",
                          {**case, "exc": repr(K)}, cid)
        return
    RK = np.full((N, N, tau_max + 1), np.nan)
    ndec = 0
    for i in range(N):
        for j in range(N):
            if i == j:
                continue
            for tau in range(tau_max + 1):
                x, y = ref.windows(data, i, j, tau, tau_max)
                v, dec = ref.mi_knn_pair(x, y, knn)
                if dec:
                    RK[i, j, tau] = v
                    ndec += 1
                else:
                    ctx.count("knn_entries_not_decisive")
    nbad, mx, idx = worst(K, RK, TOL_R, 1e-6)
    ctx.maxstat("mi_knn_max_err", mx if nbad >= 0 else 0)
    if nbad:
        ctx.violation(f"{name}:all:differs",
                      {**case, "at": idx, "lib": None if idx is None else
                       float(K[tuple(idx)]), "ref": None if idx is None else
                       float(RK[tuple(idx)])}, cid)
    if ndec:
        ctx.count("mi_knn_compared")
        ctx.count("mi_knn_entries", ndec)
        if np.nanmax(np.abs(RK)) > 0.01:
            ctx.nontrivial(dkey("mi-knn", (tau_max, knn), data))
            ctx.sample({"family": "mi-knn", "T": T, "N": N, "knn": knn,
                        "tau_max": tau_max, "lib[0,1,:]": K[0, 1],
                        "ref[0,1,:]": RK[0, 1]})
    k0 = _f(K[:, :, 0])
    dec0 = ~np.isnan(RK[:, :, 0])
    sym = np.abs(k0 - k0.T)
    if np.any(sym[dec0 & dec0.T] > 1e-6):
        ctx.violation(f"{name}:all:lag0-asymmetric", case, cid)
    np.random.seed(k)
    ok, SL = ctx.call(ca.mutual_information, tau_max=tau_max,
                      estimator="knn", knn=knn, lag_mode="max")
    ctx.evals()
    if not ok:
        ctx.violation(f"{name}:max:raises:{type(SL).__name__}",
                      {**case, "exc": repr(SL)}, cid)
    else:
        check_mi_max(ctx, name, SL[0], SL[1], RK, TOL_R, 1e-6, cid, case)
        ctx.count("mi_knn_max_compared")
    p = r.permutation(N)
    np.random.seed(k + 1)
    ok, K3 = ctx.call(CouplingAnalysis(np.ascontiguousarray(data[:, p]),
                                       silence_level=3).mutual_information,
                      tau_max=tau_max, estimator="knn", knn=knn,
                      lag_mode="all")
    ctx.evals()
    if ok:
        nb, _, idx = worst(K3, np.where(np.isnan(RK), np.nan,
                                        _f(K))[np.ix_(p, p)], 1e-6, 1e-6)
        if nb:
            ctx.violation(f"{name}:all:reorder-not-equivariant",
                          {**case, "perm": p, "at": idx}, cid)
        ctx.count("reorder_checked")
    else:
        ctx.violation(f"{name}:all:reorder:raises:{type(K3).__name__}",
                      case, cid)


# --------------------------------------------------------------------------
# family it: information_transfer (gauss)
# --------------------------------------------------------------------------
def fam_it(ctx, mods, r, k, cid):
    CouplingAnalysis = mods["CA"]
    Tmax = 300 if ctx.thorough else 60
    past = int(r.integers(1, 3))
    cond_mode = str(r.choice(["ity", "mit"]))
    nconf = past * (2 if cond_mode == "mit" else 1)
    Tmin = nconf + 5 + past
    T = int(r.integers(Tmin, Tmax + 1)) if r.random() < 0.3 else \
        int(r.integers(Tmin, Tmin + 25))
    N = int(r.integers(2, 6))
    tau_max = int(r.integers(0, min(5, T - past - nconf - 4) + 1))
    style = str(r.choice(["normal", "ar", "dyadic"]))
    data, tags = gen_data(r, T, N, style)
    case = {"T": T, "N": N, "tau_max": tau_max, "past": past,
            "cond_mode": cond_mode, "tags": tags,
            "data": data if data.size <= 60 else None}
    ca = used_object(ctx, CouplingAnalysis, data, cid)
    constw = has_const_window(data, tau_max + past)
    RI = ref.it_gauss_all(data, tau_max, past, cond_mode)
    kw = dict(tau_max=tau_max, estimator="gauss", past=past,
              cond_mode=cond_mode)
    offd = ~np.eye(N, dtype=bool)
    for mode in ("max", "all"):
        base = f"{CA}.information_transfer:gauss/{cond_mode}"
        name = f"{base}:{mode}"
        ok, res = ctx.call(ca.information_transfer, lag_mode=mode, **kw)
        ctx.evals()
        if not ok:
            if is_refusal(res, constw):
                ctx.count("rejected")
            else:
                ctx.violation(f"{CA}.information_transfer:gauss:{mode}:"
                              f"raises:{type(res).__name__}",
                              {**case, "exc": repr(res)[:300]}, cid)
            continue
        if mode == "max":
            S, L = res
            F = RI.copy()
            F[~offd] = np.nan
            check_mi_max(ctx, base, S, L, F, TOL_R, 1e-5, cid, case)
            if np.any(_f(S)[~offd] != 0):
                ctx.violation(f"{name}:diagonal-not-zero", case, cid)
            if out_of_range(S, -1e-6, np.inf):
                ctx.violation(f"{name}:negative", case, cid)
            ctx.count("it_gauss_compared")
            ctx.count(f"it_gauss_{cond_mode}_max_compared")
            if nondegenerate_mi(np.where(np.isnan(RI), 0, RI)):
                ctx.nontrivial(dkey("it", (tau_max, past, cond_mode), data))
                ctx.sample({"family": "it", **{k_: case[k_] for k_ in
                                               ("T", "N", "tau_max", "past",
                                                "cond_mode", "tags")},
                            "lib": [float(S[0, 1]), int(L[0, 1])],
                            "ref[0,1,:]": RI[0, 1]})
            # affine / reorder
            d2, a, b = affine_map(r, data)
            ok, r2 = ctx.call(CouplingAnalysis(d2, silence_level=3).
                              information_transfer, lag_mode="max", **kw)
            ctx.evals()
            defined = ~np.isnan(RI).any(axis=2) & offd
            if ok:
                dd = np.abs(_f(r2[0]) - _f(S))
                lim = 2 * TOL_R + 2e-5 * np.abs(_f(S))
                if np.any(dd[defined] > lim[defined]):
                    ctx.violation(f"{name}:affine-variant",
                                  {**case, "a": a, "b": b}, cid)
                ctx.count("affine_checked")
            elif not is_refusal(r2, constw):
                ctx.violation(f"{name}:affine:raises:{type(r2).__name__}",
                              case, cid)
            p = r.permutation(N)
            ok, r3 = ctx.call(CouplingAnalysis(
                np.ascontiguousarray(data[:, p]), silence_level=3).
                information_transfer, lag_mode="max", **kw)
            ctx.evals()
            if ok:
                dd = np.abs(_f(r3[0]) - _f(S)[np.ix_(p, p)])
                dfp = defined[np.ix_(p, p)]
                lim = 1e-6 + 1e-6 * np.abs(_f(r3[0]))
                if np.any(dd[dfp] > lim[dfp]):
                    ctx.violation(f"{name}:reorder-not-equivariant",
                                  {**case, "perm": p}, cid)
                ctx.count("reorder_checked")
            elif not is_refusal(r3, constw):
                ctx.violation(f"{name}:reorder:raises:{type(r3).__name__}",
                              case, cid)
        else:
            F = RI.copy()
            F[~offd, 0] = 0.0       # documented: diagonal set to zero
            # (the transfer of a series to itself at lags beyond its own
            #  conditioning past is an entry like any other; where the
            #  lagged series is one of the conditions the reference has NaN)
            ctx.count("it_gauss_all_self_entries_compared",
                      int(np.isfinite(F[~offd, 1:]).sum()))
            nbad, mx, idx = worst(res, F, TOL_R, 1e-5)
            ctx.maxstat("it_gauss_all_max_err", mx if nbad >= 0 else 0)
            if nbad:
                ctx.violation(f"{name}:differs",
                              {**case, "at": idx,
                               "lib": None if idx is None else
                               float(res[tuple(idx)]),
                               "ref": None if idx is None else
                               float(F[tuple(idx)])}, cid)
            if out_of_range(res, -1e-6, np.inf):
                ctx.violation(f"{name}:negative", case, cid)
            ctx.count("it_gauss_all_compared")


# --------------------------------------------------------------------------
# family clim: climate similarity classes
# --------------------------------------------------------------------------
def make_climate_data(mods, obs, lat, lon, time_cycle, anomalies=False):
    GeoGrid, ClimateData = mods["GeoGrid"], mods["ClimateData"]
    T = obs.shape[0]
    grid = GeoGrid(time_seq=np.arange(T), lat_seq=np.array(lat),
                   lon_seq=np.array(lon), silence_level=3)
    return ClimateData(observable=obs.copy(), grid=grid,
                       time_cycle=time_cycle, anomalies=anomalies,
                       silence_level=3)


def clim_reference(kind, anom):
    """(signed reference matrix, tol, tag) ; NaN = undefined."""
    N = anom.shape[1]
    if kind == "Tsonis":
        return ref.pearson_matrix(anom), TOL_R, ""
    if kind == "Spearman":
        tag = ":ties" if ref.has_ties(anom) else ""
        return ref.spearman_matrix(anom), TOL_R, tag
    if kind == "PartialCorrelation":
        P, cond = ref.partial_corr_matrix(anom)
        # (double-precision inversion: forward error ~ eps * cond, far
        #  below the single-precision tolerance up to cond 1e7)
        if not cond < 1e7 or anom.shape[0] < N + 3:
            return None, TOL_R, ""
        if cond > 1e3:
            return P, TOL_R, ":ill-conditioned"
        return P, TOL_R, ""
    if kind == "MutualInfo":
        mi, flips = ref.climate_hist_mi(anom, 32)
        return mi, TOL_MI_HIST, f"{flips}"
    raise ValueError(kind)


def build_net(ctx, mods, kind, obs, lat, lon, tc, winter, anomalies=False,
              non_local=False, cd=None):
    """(how the links are drawn - threshold, suppression of local links - is
    no business of the similarity estimate the object reports)"""
    cls = mods[kind]
    if cd is None:
        cd = make_climate_data(mods, obs, lat, lon, tc, anomalies)
    ok, net = ctx.call(cls, data=cd, threshold=0.3, winter_only=winter,
                       non_local=non_local, silence_level=3)
    if ok and non_local:
        ctx.count("clim_non_local_networks")
    return ok, net


def fam_clim(ctx, mods, r, k, cid):
    Tmax = 400 if ctx.thorough else 60
    winter = r.random() < 0.2
    if winter:
        tc = 12
        T = 12 * int(r.integers(2, max(3, Tmax // 12) + 1))
    else:
        T = int(r.integers(3, Tmax + 1)) if r.random() < 0.4 else \
            int(r.integers(3, 25))
        tc = 1
        if r.random() < 0.5:
            divs = [d for d in range(2, T // 2 + 1) if T % d == 0]
            if divs:
                tc = int(r.choice(divs))
    N = int(r.integers(2, 9))
    style = str(r.choice(["normal", "ar", "dyadic", "int"]))
    obs, tags = gen_data(r, T, N, style)
    if r.random() < 0.15 and N >= 3 and T >= N + 6 and \
            "const" not in tags and float(np.std(obs[:, 0])) > 1e-3:
        # nearly collinear series (smooth fields, duplicated stations):
        # correlation matrices with condition numbers of 1e3 .. 1e6
        # (not on data sets with a constant column: a copy of a constant
        #  plus 1e-12 noise is a degenerate series of its own, whose
        #  histogram bins are decided by float32 rounding)
        dl = float(r.choice([3e-2, 1e-2, 3e-3]))
        obs = np.asarray(obs, float).copy()
        obs[:, 1] = obs[:, 0] + dl * r.normal(size=T) * float(
            np.std(obs[:, 0]))
        tags = list(tags) + ["nearly-collinear"]
        ctx.count("clim_nearly_collinear")
    lat = [float(v) for v in r.integers(-80, 81, size=N)]
    lon = [float(v) for v in r.integers(-170, 171, size=N)]
    anomalies_flag = (not winter) and tc == 1 and r.random() < 0.3
    A = ref.anomaly(obs, tc) if not anomalies_flag else obs.copy()
    if winter:
        rows = [t for t in range(T) if t % 12 in (0, 1, 11)]
        A = A[rows]
    case = {"T": T, "N": N, "time_cycle": tc, "winter_only": bool(winter),
            "anomalies": bool(anomalies_flag), "tags": tags,
            "obs": obs if obs.size <= 60 else None}
    # two-layer Pearson network: the columns split into two data sets
    if N >= 3 and not winter and not anomalies_flag:
        from pyunicorn.climate import CoupledTsonisClimateNetwork as CT
        n1 = int(r.integers(1, N))
        Rp = ref.pearson_matrix(A)
        if not np.isnan(Rp).any():
            def ctb():
                d1 = make_climate_data(mods, obs[:, :n1], lat[:n1], lon[:n1],
                                       tc)
                d2 = make_climate_data(mods, obs[:, n1:], lat[n1:], lon[n1:],
                                       tc)
                return CT(d1, d2, threshold=0.3,
                          silence_level=3)
            ok, ct = ctx.call(ctb)
            ctx.evals()
            if not ok:
                ctx.violation("CoupledTsonisClimateNetwork.__init__:raises:"
                              f"{type(ct).__name__}",
                              {**case, "exc": repr(ct)[:300]}, cid)
            else:
                ok1, c1 = ctx.call(ct.correlation)
                ok2, c2 = ctx.call(ct.calculate_similarity_measure,
                                   A[:, :n1].copy(), A[:, n1:].copy())
                ctx.evals(2)
                ctx.count("clim_coupled_tsonis_compared")
                for nm, okx, cx, want in (
                        ("correlation", ok1, c1, np.abs(Rp)),
                        ("calculate_similarity_measure", ok2, c2, Rp)):
                    if not okx:
                        ctx.violation(f"CoupledTsonisClimateNetwork.{nm}:"
                                      f"raises:{type(cx).__name__}",
                                      {**case, "exc": repr(cx)}, cid)
                        continue
                    nbad, mx, idx = worst(cx, want, TOL_R)
                    if nbad:
                        ctx.violation(f"CoupledTsonisClimateNetwork.{nm}:"
                                      "differs", {**case, "n1": n1, "at": idx},
                                      cid)
    # (one data object serves all the networks of a study in half of the
    #  cases, in any order)
    kinds = ["Tsonis", "Spearman", "PartialCorrelation", "MutualInfo"]
    one_cd = None
    if r.random() < 0.5:
        one_cd = make_climate_data(mods, obs, lat, lon, tc, anomalies_flag)
        kinds = [kinds[i] for i in r.permutation(4)]
        ctx.count("clim_one_data_object_for_all_networks")
    for kind in kinds:
        cname = f"{kind}ClimateNetwork"
        R, tol, tag = clim_reference(kind, A)
        if R is None:
            ctx.count("rejected")
            ctx.count(f"clim_{kind}_undefined")
            continue
        sig_tag = tag if kind in ("Spearman", "PartialCorrelation") else ""
        ok, net = build_net(ctx, mods, kind, obs, lat, lon, tc, winter,
                            anomalies_flag, non_local=bool(r.random() < 0.3),
                            cd=one_cd)
        ctx.evals()
        if not ok:
            ctx.violation(f"{cname}.__init__{sig_tag}:raises:"
                          f"{type(net).__name__}",
                          {**case, "exc": repr(net)[:300]}, cid)
            continue
        offd = ~np.eye(N, dtype=bool)
        Rm = R.copy()
        if kind in ("PartialCorrelation", "MutualInfo"):
            Rm[~offd] = np.nan      # diagonal: convention, not a statistic
        ok, sim = ctx.call(net.similarity_measure)
        ok2, sgn = ctx.call(net.calculate_similarity_measure, A.copy())
        ctx.evals(2)
        if not ok or not ok2:
            e = sim if not ok else sgn
            ctx.violation(f"{cname}.similarity_measure{sig_tag}:raises:"
                          f"{type(e).__name__}", {**case, "exc": repr(e)},
                          cid)
            continue
        # the statistic itself, on the reference anomaly
        nbad, mx, idx = worst(sgn, Rm, tol)
        ctx.maxstat(f"clim_{kind}{'_ties' if sig_tag else ''}_max_err",
                    mx if nbad >= 0 else 0)
        if nbad:
            ctx.violation(f"{cname}.calculate_similarity_measure{sig_tag}:"
                          "differs",
                          {**case, "at": idx,
                           "lib": None if idx is None else
                           float(_f(sgn)[tuple(idx)]),
                           "ref": None if idx is None else
                           float(Rm[tuple(idx)])}, cid)
        if sig_tag:
            # (nearly) tied ranks are a separately signed input class: the
            # relations below would only restate the reference comparison
            # (rounding noise decides the rank order of tied samples)
            ctx.count("clim_spearman_ties_compared" if kind == "Spearman"
                      else "clim_partial_illconditioned_compared")
            continue
        # the stored similarity = |statistic| of the object's own anomaly
        nb2, _, idx = worst(sim, np.where(np.isnan(Rm), np.nan,
                                          np.abs(_f(sgn))), tol)
        if nb2:
            ctx.violation(f"{cname}.similarity_measure{sig_tag}:not-abs-of-"
                          "statistic-of-anomaly",
                          {**case, "at": idx,
                           "lib": None if idx is None else
                           float(_f(sim)[tuple(idx)]),
                           "expected": None if idx is None else
                           float(abs(_f(sgn)[tuple(idx)]))}, cid)
        cnt = {"Tsonis": "clim_pearson_compared",
               "Spearman": "clim_spearman_compared",
               "PartialCorrelation": "clim_partial_compared",
               "MutualInfo": "clim_mi_compared"}[kind]
        ctx.count(cnt)
        if kind == "MutualInfo":
            ctx.count("clim_mi_f32_vs_f64_bin_flips", int(tag))
            nd = nondegenerate_mi(R)
        else:
            nd = nondegenerate_r(R)
        if nd:
            ctx.nontrivial(dkey("clim-" + kind, (tc, winter), obs))
            if kind in ("Spearman", "MutualInfo"):
                ctx.sample({"family": "clim", "class": cname, "T": T,
                            "N": N, "time_cycle": tc, "tags": tags,
                            "lib[0,1]": float(_f(sgn)[0, 1]),
                            "ref[0,1]": float(R[0, 1])})
        s = _f(sgn)
        with np.errstate(all="ignore"):
            asym = np.abs(s - s.T)
        if np.any(asym[np.isfinite(asym)] > (1e-6 if kind != "MutualInfo"
                                             else 2e-5)):
            ctx.violation(f"{cname}.calculate_similarity_measure{sig_tag}:"
                          "asymmetric", case, cid)
        if kind == "MutualInfo":
            if out_of_range(s, -1e-6, np.log(32) + 1e-4):
                ctx.violation(f"{cname}.calculate_similarity_measure:"
                              "outside-[0,log(32)]", case, cid)
        elif kind != "PartialCorrelation" or True:
            if out_of_range(s, -1 - 1e-6, 1 + 1e-6):
                ctx.violation(f"{cname}.calculate_similarity_measure"
                              f"{sig_tag}:|r|>1", case, cid)
        # ---- affine maps of the observable ---------------------------
        a = 2.0 ** r.integers(-2, 3, size=N)
        b = (r.integers(-8, 9, size=N) / 4.0) if kind != "MutualInfo" \
            else np.zeros(N)
        ok, net2 = build_net(ctx, mods, kind, obs * a + b, lat, lon, tc,
                             winter, anomalies_flag)
        ctx.evals()
        if ok:
            s2 = _f(net2.similarity_measure())
            dd = np.abs(s2 - _f(sim))
            dd[np.isnan(np.abs(Rm))] = 0
            dd[np.isnan(dd)] = np.inf
            lim = 2 * tol if kind != "MutualInfo" else 1e-6
            if kind == "PartialCorrelation":
                lim = 1e-4
            if dd.max() > lim:
                ctx.violation(f"{cname}.similarity_measure{sig_tag}:"
                              "affine-variant",
                              {**case, "a": a, "b": b,
                               "diff": float(dd.max())}, cid)
            ctx.count("affine_checked")
        else:
            ctx.violation(f"{cname}.__init__{sig_tag}:affine:raises:"
                          f"{type(net2).__name__}", case, cid)
        # ---- reordering ------------------------------------------------
        p = r.permutation(N)
        ok, net3 = build_net(ctx, mods, kind,
                             np.ascontiguousarray(obs[:, p]),
                             [lat[i] for i in p], [lon[i] for i in p], tc,
                             winter, anomalies_flag)
        ctx.evals()
        if ok:
            s3 = _f(net3.similarity_measure())
            dd = np.abs(s3 - _f(sim)[np.ix_(p, p)])
            dd[np.isnan(np.abs(Rm))[np.ix_(p, p)]] = 0
            dd[np.isnan(dd)] = np.inf
            lim = {"MutualInfo": 2e-5, "PartialCorrelation": 1e-4}.get(
                kind, 1e-6)
            if dd.max() > lim:
                ctx.violation(f"{cname}.similarity_measure{sig_tag}:"
                              "reorder-not-equivariant",
                              {**case, "perm": p, "diff": float(dd.max())},
                              cid)
            ctx.count("reorder_checked")
        else:
            ctx.violation(f"{cname}.__init__{sig_tag}:reorder:raises:"
                          f"{type(net3).__name__}", case, cid)


# --------------------------------------------------------------------------
# family surr: Surrogates.test_*
# --------------------------------------------------------------------------
def fam_surr(ctx, mods, r, k, cid):
    Surrogates = mods["Surrogates"]
    Tmax = 400 if ctx.thorough else 60
    T = int(r.integers(3, Tmax + 1)) if r.random() < 0.4 else \
        int(r.integers(3, 25))
    N = int(r.integers(2, 9))
    style = str(r.choice(["normal", "ar", "dyadic"]))
    d1, tags = gen_data(r, T, N, style, decorate=r.random() < 0.4)
    how = str(r.choice(["shuffle", "independent", "shift"]))
    if how == "shuffle":
        d2 = np.column_stack([r.permutation(d1[:, n]) for n in range(N)])
    elif how == "independent":
        d2, _ = gen_data(r, T, N, style, decorate=False)
    else:
        d2 = np.roll(d1, int(r.integers(1, T)), axis=0)
    if has_const_window(d1, 0) or has_const_window(d2, 0):
        # documented precondition: inputs are normalised (unit variance)
        ctx.count("rejected")
        return
    orig = np.ascontiguousarray(ref.normalize_columns(d1).T)
    surr = np.ascontiguousarray(ref.normalize_columns(d2).T)
    case = {"T": T, "N": N, "tags": tags, "surrogate": how,
            "orig": orig if orig.size <= 60 else None,
            "surr": surr if surr.size <= 60 else None}
    offd = ~np.eye(N, dtype=bool)
    # ---- Pearson --------------------------------------------------------
    name = "Surrogates.test_pearson_correlation"
    # the two arrays in a layout a caller may hold them in (a window of
    # longer records, every second member of an ensemble, Fortran order, ...)
    from pvm.gen.held import as_held
    rh = ctx.rng("held-surr", cid)

    def h(a):
        b, tag = as_held(rh, a, forms=("c", "f", "view", "view", "readonly"))
        ctx.count("surrogate_test_input_held_as:" + tag)
        return b
    ok, Pm = ctx.call(Surrogates.test_pearson_correlation, h(orig), h(surr))
    ctx.evals()
    if not ok:
        ctx.violation(f"{name}:raises:{type(Pm).__name__}",
                      {**case, "exc": repr(Pm)}, cid)
    else:
        Rp = np.array([[ref.pearson(orig[i], surr[j]) for j in range(N)]
                       for i in range(N)])
        nbad, mx, idx = worst(Pm, np.where(offd, Rp, np.nan), TOL_R)
        ctx.maxstat("surr_pearson_max_err", mx if nbad >= 0 else 0)
        if nbad:
            ctx.violation(f"{name}:off-diagonal:differs",
                          {**case, "at": idx,
                           "lib": float(Pm[tuple(idx)]),
                           "ref": float(Rp[tuple(idx)])}, cid)
        nbad, _, idx = worst(Pm, np.where(offd, np.nan, Rp), TOL_R)
        if nbad:
            ctx.violation(f"{name}:diagonal:differs",
                          {**case, "at": idx,
                           "lib": float(Pm[tuple(idx)]),
                           "ref": float(Rp[tuple(idx)])}, cid)
        ctx.count("surr_pearson_compared")
        if nondegenerate_r(Rp):
            ctx.nontrivial(dkey("surr-pearson", how, np.vstack([orig, surr])))
        if out_of_range(Pm, -1 - 1e-6, 1 + 1e-6):
            ctx.violation(f"{name}:|r|>1", case, cid)
        # exchange symmetry: corr(orig_i, surr_j) = corr(surr_j, orig_i)
        ok, Pt = ctx.call(Surrogates.test_pearson_correlation, surr.copy(),
                          orig.copy())
        ctx.evals()
        if not ok or np.max(np.abs(_f(Pt).T - _f(Pm))) > 1e-6:
            ctx.violation(f"{name}:exchange-asymmetric", case, cid)
        p = r.permutation(N)
        ok, P3 = ctx.call(Surrogates.test_pearson_correlation,
                          np.ascontiguousarray(orig[p]),
                          np.ascontiguousarray(surr[p]))
        ctx.evals()
        if not ok or np.max(np.abs(_f(P3) - _f(Pm)[np.ix_(p, p)])) > 1e-6:
            ctx.violation(f"{name}:reorder-not-equivariant",
                          {**case, "perm": p}, cid)
        ctx.count("reorder_checked")
    # ---- mutual information ----------------------------------------------
    name = "Surrogates.test_mutual_information"
    n_bins = int(r.choice([2, 3, 4, 5, 8, 16, 32]))
    mcase = {**case, "n_bins": n_bins}
    Rmi, margin = ref.test_hist_mi(orig, surr, n_bins)
    if Rmi is None or margin < 1e-7:
        ctx.count("surr_mi_borderline_skipped")
        return
    ok, Mm = ctx.call(Surrogates.test_mutual_information, h(orig), h(surr),
                      n_bins=n_bins)
    ctx.evals()
    if not ok:
        ctx.violation(f"{name}:raises:{type(Mm).__name__}",
                      {**mcase, "exc": repr(Mm)}, cid)
        return
    nbad, mx, idx = worst(Mm, np.where(offd, Rmi, np.nan), TOL_MI_HIST)
    ctx.maxstat("surr_mi_max_err", mx if nbad >= 0 else 0)
    if nbad:
        ctx.violation(f"{name}:off-diagonal:differs",
                      {**mcase, "at": idx, "lib": float(Mm[tuple(idx)]),
                       "ref": float(Rmi[tuple(idx)])}, cid)
    nbad, _, idx = worst(Mm, np.where(offd, np.nan, Rmi), TOL_MI_HIST)
    if nbad:
        ctx.violation(f"{name}:diagonal:differs",
                      {**mcase, "at": idx, "lib": float(Mm[tuple(idx)]),
                       "ref": float(Rmi[tuple(idx)])}, cid)
    ctx.count("surr_mi_compared")
    if nondegenerate_mi(Rmi):
        ctx.nontrivial(dkey("surr-mi", (how, n_bins),
                            np.vstack([orig, surr])))
        ctx.sample({"family": "surr-mi", "T": T, "N": N, "n_bins": n_bins,
                    "lib[0,1]": float(Mm[0, 1]), "ref[0,1]":
                    float(Rmi[0, 1])})
    if out_of_range(Mm, -1e-6, np.log(n_bins) + 1e-4):
        ctx.violation(f"{name}:outside-[0,log(n_bins)]", mcase, cid)
    ok, Mt = ctx.call(Surrogates.test_mutual_information, surr.copy(),
                      orig.copy(), n_bins=n_bins)
    ctx.evals()
    if not ok or np.max(np.abs(_f(Mt).T - _f(Mm))) > 2e-5:
        ctx.violation(f"{name}:exchange-asymmetric", mcase, cid)
    s = float(2.0 ** r.integers(-2, 3))
    ok, M2 = ctx.call(Surrogates.test_mutual_information, orig * s, surr * s,
                      n_bins=n_bins)
    ctx.evals()
    if not ok or np.max(np.abs(_f(M2) - _f(Mm))) > 1e-6:
        ctx.violation(f"{name}:scale-variant", {**mcase, "scale": s}, cid)
    ctx.count("affine_checked")
    p = r.permutation(N)
    ok, M3 = ctx.call(Surrogates.test_mutual_information,
                      np.ascontiguousarray(orig[p]),
                      np.ascontiguousarray(surr[p]), n_bins=n_bins)
    ctx.evals()
    if not ok or np.max(np.abs(_f(M3) - _f(Mm)[np.ix_(p, p)])) > 1e-6:
        ctx.violation(f"{name}:reorder-not-equivariant",
                      {**mcase, "perm": p}, cid)
    ctx.count("reorder_checked")


# --------------------------------------------------------------------------
def post(m, results, san_logs):
    """Driver-side hook.  A case during which the process was killed by
    SIGSEGV/SIGABRT/SIGBUS/SIGFPE/SIGILL produced no estimate at all: it is
    recorded as an event `<library call in progress>:crashes:<signal>` (the
    call label is left in a stage file by the dying process and picked up by
    the resumed one).  A case killed by the hard watchdog (a compiled loop
    that does not return) makes the run INCONCLUSIVE through the floor
    `runs_without_hard_kill`."""
    import signal
    run = m["notes"].get("_run", {})
    hard = 0
    for R in results:
        for d in R.get("deaths", []):
            rc = d["rc"]
            cid = d["case_id"]
            if isinstance(rc, int) and -rc in (4, 6, 7, 8, 11):
                label = m["notes"].get(f"death_stage:{cid}", "unknown-call")
                sig = f"{label}:crashes:{signal.Signals(-rc).name}"
                e = m["events"].setdefault(sig, {"count": 0, "details": []})
                e["count"] += 1
                if len(e["details"]) < 3:
                    e["details"].append({
                        "case_id": cid, "shard": d["shard"],
                        "nshards": m["notes"].get("nshards", 16),
                        "tier": run.get("tier", "quick"),
                        "seed": run.get("seed", 0),
                        "detail": {"rc": rc, "log": (d["log"] or "")[-600:]}})
            else:
                hard += 1
                m["notes"].setdefault("hard_killed_cases", []).append(
                    [cid, m["notes"].get(f"death_stage:{cid}")])
    m["counters"]["cases_killed_by_hard_watchdog"] = hard
    m["counters"]["runs_without_hard_kill"] = 0 if hard else 1


HARD_KILL_S = 90
STAGE_FILE = "c10_stage"
DEAD_FILE = "c10_dead_families"


FAMILIES = [("cc", fam_cc, 4), ("mi", fam_mi, 3), ("knn", fam_knn, 2),
            ("it", fam_it, 3), ("clim", fam_clim, 3), ("surr", fam_surr, 2)]


def run(ctx):
    warnings.simplefilter("ignore")
    np.seterr(all="ignore")
    from pyunicorn.funcnet import CouplingAnalysis
    from pyunicorn.funcnet.coupling_analysis_pure_python import \
        CouplingAnalysisPurePython
    from pyunicorn.core.geo_grid import GeoGrid
    from pyunicorn.climate.climate_data import ClimateData
    from pyunicorn.climate.tsonis import TsonisClimateNetwork
    from pyunicorn.climate.spearman import SpearmanClimateNetwork
    from pyunicorn.climate.partial_correlation import \
        PartialCorrelationClimateNetwork
    from pyunicorn.climate.mutual_info import MutualInfoClimateNetwork
    from pyunicorn.timeseries.surrogates import Surrogates
    mods = {"CA": CouplingAnalysis, "PP": CouplingAnalysisPurePython,
            "GeoGrid": GeoGrid, "ClimateData": ClimateData,
            "Tsonis": TsonisClimateNetwork,
            "Spearman": SpearmanClimateNetwork,
            "PartialCorrelation": PartialCorrelationClimateNetwork,
            "MutualInfo": MutualInfoClimateNetwork,
            "Surrogates": Surrogates}
    ctx.note("nshards", ctx.nshards)
    # --- death handling (cwd is private to the shard, kept across restarts)
    # The soft watchdog cannot interrupt a compiled loop and nothing survives
    # a SIGSEGV: every library call leaves its label in a stage file, cases
    # are gated by ctx.start (progress file, META["resume_on_death"]) and run
    # under a hard watchdog.  The driver restarts the shard after the
    # killing case; the restarted process reports the stage and skips the
    # rest of that family (its floor may then be missed => INCONCLUSIVE).
    poisoned = set()
    if ctx.resume_after is not None:
        try:
            with open(STAGE_FILE) as fh:
                ctx.note(f"death_stage:{ctx.resume_after}", fh.read())
        except OSError:
            pass
        if os.path.exists(DEAD_FILE):
            with open(DEAD_FILE) as fh:
                poisoned = set(fh.read().split())
        fam = str(ctx.resume_after).split(":")[0]
        if fam not in poisoned:
            poisoned.add(fam)
            with open(DEAD_FILE, "a") as fh:
                fh.write(fam + "\n")
    elif os.path.exists(DEAD_FILE):
        os.remove(DEAD_FILE)
    plain_call = ctx.call

    def staged_call(fn, *a, **k):
        if ctx.progress_path:
            label = getattr(fn, "__qualname__", type(fn).__name__)
            if "estimator" in k:
                label += ":" + str(k["estimator"])
            with open(STAGE_FILE, "w") as fh:
                fh.write(label)
        return plain_call(fn, *a, **k)
    ctx.call = staged_call
    assert ref.selftest()
    ctx.count("reference_selftest_passed")

    # (a) exhaustive tiny data sets ---------------------------------------
    idx = 0
    for T in ((3, 4) if ctx.thorough else (3,)):
        for vals in itertools.product((-1.0, 0.0, 1.0), repeat=2 * T):
            idx += 1
            if not ctx.mine(idx):
                continue
            data = np.array(vals).reshape(T, 2)
            for tau_max in (0, 1):
                cid = f"ex:{T}:{''.join(str(int(v) + 1) for v in vals)}:" \
                      f"{tau_max}"
                if not ctx.start(cid):
                    continue
                if "ex" in poisoned:
                    continue
                case = {"T": T, "N": 2, "tau_max": tau_max, "data": data}
                faulthandler.dump_traceback_later(HARD_KILL_S, exit=True)
                try:
                    res = check_cc_core(ctx, CouplingAnalysis, data, tau_max,
                                        cid, case, count=False)
                finally:
                    faulthandler.cancel_dump_traceback_later()
                ctx.count("exhaustive_cc_cases")
                if res is not None and nondegenerate_r(res[3]):
                    ctx.nontrivial(dkey("cc", tau_max, data))

    # (a2) long records: bin populations beyond 16-bit ranges --------------
    for k in range(8 if ctx.thorough else 2):
        cid = f"longrec:{k}"
        if not ctx.mine(k) or not ctx.start(cid):
            continue
        faulthandler.dump_traceback_later(HARD_KILL_S, exit=True)
        try:
            with ctx.guard(240):
                long_record_mi(ctx, mods, ctx.rng("longrec", k), k, cid)
        finally:
            faulthandler.cancel_dump_traceback_later()

    # (b) seeded random families -------------------------------------------
    sched = []
    for name, fn, w in FAMILIES:
        sched += [(name, fn)] * w
    cap = 120000 if ctx.thorough else 6400
    k = 0
    while ctx.time_left() > 0 and k < cap:
        k += 1
        if not ctx.mine(k):
            continue
        name, fn = sched[(k // ctx.nshards) % len(sched)]
        cid = f"{name}:{k}"
        if not ctx.start(cid):
            continue
        if name in poisoned:
            ctx.count("skipped_after_death:" + name)
            continue
        r = ctx.rng(name, k)
        np.random.seed(k)
        faulthandler.dump_traceback_later(HARD_KILL_S, exit=True)
        try:
            with ctx.guard(60):
                fn(ctx, mods, r, k, cid)
        finally:
            faulthandler.cancel_dump_traceback_later()
        ctx.count(f"cases_{name}")
