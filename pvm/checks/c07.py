"""C07 -- recurrence matrices are exactly the thresholded distance matrices.

Signatures: "<class>.<method or attribute>:<relation|differs|raises:<Exc>>
[:<input classes joined by '+'>]" -- mechanism only.  Input classes are
computed from the case itself and restricted to the ones that matter for the
class: lag!=0, embedded, missing, asymmetric (matrix not symmetric: fixed local
rate), empty-diagonal (some state is not recurrent with itself, i.e. threshold
<= 0), unequal-lengths, after-setter, and the construction mode for the
missing-value cases."""
import itertools
import warnings

import numpy as np

from pvm.ref import recurrence as ref

META = dict(
    shards={"quick": 8, "thorough": 16},
    budget={"quick": 30, "thorough": 450},
    timeout={"quick": 600, "thorough": 3000},
    rule=(
        "cases: (1) EXHAUSTIVE every scalar series over {0,1,2} of length "
        "1..5 (1..6 thorough) x 3 metrics x threshold in {0,.5,1,1.5,2,2.5} "
        "(d==eps ties at 0,1,2) through RecurrencePlot, plus the (dim=2,"
        "tau=1) embedding of every such series of length >=3; (2) seeded "
        "random RecurrencePlot / RecurrenceNetwork cases: length 1..60 "
        "(quick) / ..400 (thorough), 1..4 components or embedding dim 1..4 "
        "tau 1..5, data styles dyadic (multiples of 1/16), small integers "
        "with many ties, plateaus, constant, float32 normal, float64 normal "
        "(rounded to float32 by library and oracle), the three metrics, the "
        "five construction modes threshold / threshold_std / recurrence_rate "
        "/ local_recurrence_rate / adaptive_neighborhood_size, NaN patterns "
        "with missing_values=True, normalize=True (continuous data only); "
        "RecurrenceNetwork additionally after one setter call; (3) random "
        "CrossRecurrencePlot with unequal lengths, (4) JointRecurrencePlot / "
        "JointRecurrenceNetwork with lags of either sign (|lag| < embedded "
        "length), metric pairs, per-series embeddings of different length, "
        "and one setter call for the network, (5) InterSystemRecurrence"
        "Network with unequal lengths, embedding, setter call.  Oracle: "
        "float32-rounded input, embedding by definition, float64 distances, "
        "d<eps strict.  eps is drawn from the reference distances: on exact "
        "(dyadic) data under every metric half of the thresholds are equal "
        "to an occurring distance (tie: must NOT be recurrent), otherwise eps "
        "lies in a gap with relative margin >1e-9 (1e-5 for threshold_std, "
        "1e-4 after normalize, because std/normalisation are evaluated in "
        "float32 by the library).  Fixed rate: eps=sorted(D.flat)"
        "[int(rr*(D.size-1))]; local rate: same rule per row and on tie-free "
        "rows exactly int(rr*(N-1)) recurrences (self included) in every "
        "row; adaptive: symmetric 0/1 matrix in which every state has >= "
        "size neighbours besides itself (1<=size<=N-1).  On inexact data a "
        "disagreement confined to entries with |d-eps| within the margin is "
        "counted as borderline, never on exact data.  Missing values: no "
        "recurrence in rows/columns of NaN states; for the rate modes only "
        "this and monotonicity (every recurrent valid pair closer than every "
        "non-recurrent valid pair of the same row/matrix) are demanded, for "
        "the adaptive mode only this.  A network class whose construction "
        "fails is tagged single-node when the reference network has <=1 "
        "node.  "
        "Consistency monitor on every object: size attributes == matrix "
        "shape, recurrence_rate() == matrix mean, every RQA method runs "
        "(documented NotImplementedError of CrossRecurrencePlot accepted) "
        "and equals the run-length reference evaluated on the library's own "
        "matrix (scalars rtol 1e-12).  non-trivial = distinct (class, mode, "
        "metric, data, parameters) whose reference matrix has both a "
        "recurrent and a non-recurrent off-diagonal pair."),
    floors={
        "quick": {"rp_matrix_compared": 7000, "distance_compared": 7000,
                  "tie_cases": 3500, "crp_matrix_compared": 500,
                  "jrp_matrix_compared": 900, "jrp_lag_nonzero": 500,
                  "isrn_matrix_compared": 300, "adjacency_compared": 4000,
                  "rqa_values_compared": 150000, "missing_cases": 600,
                  "embedded_cases": 3500, "local_rate_rows_exact": 3000,
                  "unequal_length_cases": 800, "setter_cases": 1000,
                  "rate_cases": 1500, "adaptive_checked": 60,
                  "size_attr_compared": 10000, "rate_compared": 8000},
        "thorough": {"rp_matrix_compared": 48000, "distance_compared": 50000,
                     "tie_cases": 26000, "crp_matrix_compared": 4000,
                     "jrp_matrix_compared": 6000, "jrp_lag_nonzero": 3600,
                     "isrn_matrix_compared": 3800,
                     "adjacency_compared": 28000,
                     "rqa_values_compared": 1000000, "missing_cases": 4000,
                     "embedded_cases": 26000,
                     "local_rate_rows_exact": 40000,
                     "unequal_length_cases": 6000, "setter_cases": 6000,
                     "rate_cases": 12000, "adaptive_checked": 500,
                     "size_attr_compared": 70000, "rate_compared": 55000}},
    exhaustive_subspaces={
        "quick": ["scalar series over {0,1,2}, length 1..5, 3 metrics, 6 "
                  "thresholds incl. ties, plain and (2,1)-embedded"],
        "thorough": ["scalar series over {0,1,2}, length 1..6, 3 metrics, 6 "
                     "thresholds incl. ties, plain and (2,1)-embedded"]},
    assumptions=[
        "the library stores series as float32; the oracle rounds to float32 "
        "first (CrossRecurrencePlot keeps float64 when not embedding, so it "
        "only receives float32-representable data)",
        "NaN with missing_values=False is outside the property (not "
        "generated); embedded length >= 1; |lag| < embedded length",
        "threshold_std uses std of the stored float32 series (all "
        "components), margin 1e-5; normalize margin 1e-4",
        "white vertical lines follow the same missing-value rule as black "
        "ones (runs touching a missing sample are not counted), as the "
        "property states"],
    technique="differential testing against a definitional oracle + "
              "consistency monitor",
    level_text="bounded exhaustive + seeded random exploration",
    level_note="trusted: numpy, pvm.ref.recurrence",
)

META["rule"] += (
    " " + 'Added after the second round of seeded changes: the series is handed over in the representation a caller may hold it in (Fortran order, strided view, read-only, float32 / int64 when exact; counters input_held_as:*), and about 1 % of the single-plot cases have 129 / 200 / 257 states.')

META["rule"] += (
    " " + 'Added after the fifth round: with missing values and a non-supremum metric every complete tie-free row of a local-rate plot keeps exactly int(r(N-1)) recurrences; switches as bool / np.bool_ / 0-1; a fifth of the large cases have 513 / 515 / 1027 states.')

META["rule"] += (
    " " + "Added after the sixth round: the matrix handed out before a setter and a shallow copy of the object keep the old matrix; after a setter of another kind the object is set back to its constructor's setting (A-B-A, objects without missing values).")

META["rule"] += (
    " " + 'Added after the seventh round: normalised inter-system networks, half of them from overlapping stretches of one float32 record of the caller.')

META["rule"] += (
    " " + 'Added after the eighth round: records of more than 1000 states in the rate and threshold modes in every run (all four modes in the thorough tier).')

HIST = ("diagline_dist", "vertline_dist", "white_vertline_dist")


# ------------------------------------------------------------ helpers ----

def held(ctx, r, x):
    """the series in one of the representations a caller may hold it in
    (same values: Fortran order, strided view, read-only, float32, int)"""
    from pvm.gen.held import as_held
    v, tag = as_held(r, np.array(x), allow_list=False)
    ctx.count("input_held_as:" + tag)
    return v


def sig(cname, what, rel, tags=()):
    t = "+".join(tags)
    return f"{cname}.{what}:{rel}" + (f":{t}" if t else "")


def gen_series(r, n, d, style):
    if style == "dyadic":
        return r.integers(-32, 33, (n, d)) / 16.0
    if style == "int":
        return r.integers(0, 4, (n, d)).astype(float)
    if style == "plateau":
        rep = np.repeat(r.integers(0, 5, (n, d)), r.integers(1, 4, n),
                        axis=0)[:n]
        return rep.astype(float) / 2.0
    if style == "const":
        return np.full((n, d), float(r.integers(-3, 4)) / 4.0)
    if style == "f32":
        return np.float32(r.normal(size=(n, d))).astype(float)
    if style == "f64":
        return r.normal(size=(n, d))
    raise ValueError(style)


EXACT = ("dyadic", "int", "plateau", "const")


def pick_eps(r, D, exact, margin):
    """Threshold drawn from the reference distances.  Returns (eps, tie)."""
    vals = np.unique(D[np.isfinite(D)])
    if vals.size == 0:
        return 1.0, False
    u = r.random()
    if exact and u < 0.5:
        return float(r.choice(vals)), True           # d == eps occurs
    if u > 0.95:
        return float(vals[-1]) * 1.5 + 1.0, False
    for _ in range(30):
        i = int(r.integers(0, vals.size))
        a = float(vals[i])
        b = float(vals[i + 1]) if i + 1 < vals.size else a + max(a, 1.0)
        eps = 0.5 * (a + b)
        if ref.rel_margin(D, eps) > margin:
            return eps, False
    return float(vals[-1]) * 2.0 + 1.0, False


def explain_borderline(lib, rf, D, eps, tol):
    """True if every differing entry is within tol of its threshold."""
    if tol <= 0 or D is None:
        return False
    bad = lib != rf
    epsb = np.broadcast_to(np.asarray(eps, dtype=float), D.shape)
    scale = max(float(np.nanmax(np.abs(D))) if np.isfinite(D).any() else 1.0,
                1e-300)
    with np.errstate(invalid="ignore"):
        if not np.all(np.abs(D[bad] - epsb[bad]) <= tol * scale):
            return False
        if np.any(D[bad] == epsb[bad]):
            # an exact tie may only be excused when a *different* distance
            # lies within the margin (a legitimate rank swap in rate modes)
            return bool(np.any((D != epsb) &
                               (np.abs(D - epsb) <= tol * scale)))
    return True


def compare_matrix(ctx, cname, what, lib, rf, tags, case, cid,
                   D=None, eps=None, tol=0.0):
    """Returns True when the library matrix is accepted."""
    lib = np.asarray(lib)
    if lib.shape != rf.shape:
        ctx.violation(sig(cname, what, "shape-differs", tags),
                      {**case, "lib_shape": lib.shape,
                       "ref_shape": rf.shape}, cid)
        return False
    if np.array_equal(lib, rf):
        return True
    if explain_borderline(lib, rf, D, eps, tol):
        ctx.count("borderline_excused")
        ctx.count("borderline_excused:" + str(case.get("mode")) +
                  (":normalize" if case.get("normalize") else ""))
        return True
    d = np.argwhere(lib != rf)
    extra = {}
    if lib.size and (np.min(lib) < 0 or np.max(lib) > 1):
        rel = "entries-outside-{0,1}"
    else:
        rel = "differs"
    if D is not None and eps is not None and d.size:
        i, j = d[0]
        epsb = np.broadcast_to(np.asarray(eps, dtype=float), D.shape)
        extra = {"d": D[i, j], "eps": epsb[i, j]}
        if D[i, j] == epsb[i, j]:
            tags = tuple(tags) + ("tie",)
    ctx.violation(sig(cname, what, rel, tags),
                  {**case, "diff_at": d[:5].tolist(), "lib": lib, "ref": rf,
                   **extra}, cid)
    return False


def close(a, b):
    a = np.asarray(a, dtype=float)
    b = np.asarray(b, dtype=float)
    if a.shape != b.shape:
        return False
    return bool(np.all((a == b) | (np.isnan(a) & np.isnan(b)) |
                       (np.abs(a - b) <= 1e-12 * np.maximum(1, np.abs(b)))))


def rqa_monitor(ctx, obj, cname, R, miss, tags, case, cid, r,
                size_ok=True, full=True):
    """Every RQA method runs and equals the run-length reference on the
    library's own matrix R."""
    R = np.asarray(R)
    n = R.shape[0]
    sym = R.shape[0] == R.shape[1] and np.array_equal(R, R.T)
    # recurrence probability at a lag (documented: diagonal sum / (N - lag))
    # of whatever matrix the object reports (single, joint plots and their
    # networks)
    if size_ok and R.ndim == 2 and R.shape[0] == R.shape[1] and n >= 1 \
            and callable(getattr(obj, "recurrence_probability", None)):
        lag_p = int(r.integers(0, n))
        okp, vp = ctx.call(obj.recurrence_probability, lag_p)
        ctx.evals()
        wantp = float(np.trace(R, lag_p)) / (n - lag_p)
        ctx.count("recurrence_probability_checked")
        if not okp:
            ctx.violation(sig(cname, "recurrence_probability",
                              f"raises:{type(vp).__name__}", tags),
                          {**case, "exc": repr(vp)}, cid)
        elif not close(vp, wantp):
            ctx.violation(sig(cname, "recurrence_probability", "differs",
                              tags), {**case, "lag": lag_p, "lib": vp,
                                      "ref": wantp}, cid)
    refh = None
    if size_ok and R.ndim == 2 and R.shape[0] == R.shape[1]:
        refh = {"diagline_dist": ref.diag_hist(R, miss),
                "vertline_dist": ref.vert_hist(R, True, miss),
                "white_vertline_dist": ref.vert_hist(R, False, miss)}
    t0 = tuple(x for x in tags if x != "asymmetric")
    ta = t0 if sym else ("asymmetric",)
    okh = {}
    libh = {}
    with warnings.catch_warnings():
        warnings.simplefilter("ignore")
        for name in HIST:
            t = ta if name == "diagline_dist" else t0
            ok, v = ctx.call(getattr(obj, name))
            ctx.evals()
            if not ok:
                okh[name] = False
                if isinstance(v, NotImplementedError):
                    ctx.count("not_implemented_documented")
                else:
                    ctx.violation(sig(cname, name,
                                      f"raises:{type(v).__name__}", t),
                                  {**case, "exc": repr(v)}, cid)
                continue
            libh[name] = np.asarray(v)
            if refh is None:
                okh[name] = False
                ctx.count("rqa_blocked_by_size_mismatch")
                continue
            ctx.count("rqa_values_compared")
            okh[name] = np.array_equal(np.asarray(v), refh[name])
            if not okh[name]:
                ctx.violation(sig(cname, name, "differs", t),
                              {**case, "R": R, "lib": v, "ref": refh[name],
                               "missing": miss}, cid)
        if not full:
            return
        if n <= 6:
            mins = list(range(1, n + 1))
        else:
            mins = sorted({1, 2, n, int(r.integers(1, n + 1)),
                           int(r.integers(1, min(n, 8) + 1))})
        scal = []          # (method, args, histogram it depends on, ref fn)
        scal.append(("max_diaglength", (), "diagline_dist",
                     lambda h: ref.max_length(h)))
        scal.append(("max_vertlength", (), "vertline_dist",
                     lambda h: ref.max_length(h)))
        scal.append(("max_white_vertlength", (), "white_vertline_dist",
                     lambda h: ref.max_length(h)))
        for m in mins:
            scal += [
                ("determinism", (m,), "diagline_dist",
                 lambda h, m=m: ref.fraction_in_lines(h, m)),
                ("average_diaglength", (m,), "diagline_dist",
                 lambda h, m=m: ref.average_length(h, m)),
                ("diag_entropy", (m,), "diagline_dist",
                 lambda h, m=m: ref.entropy(h, m)),
                ("laminarity", (m,), "vertline_dist",
                 lambda h, m=m: ref.fraction_in_lines(h, m)),
                ("average_vertlength", (m,), "vertline_dist",
                 lambda h, m=m: ref.average_length(h, m)),
                ("trapping_time", (m,), "vertline_dist",
                 lambda h, m=m: ref.average_length(h, m)),
                ("vert_entropy", (m,), "vertline_dist",
                 lambda h, m=m: ref.entropy(h, m)),
                ("average_white_vertlength", (m,), "white_vertline_dist",
                 lambda h, m=m: ref.average_length(h, m)),
                ("mean_recurrence_time", (m,), "white_vertline_dist",
                 lambda h, m=m: ref.average_length(h, m)),
                ("white_vert_entropy", (m,), "white_vertline_dist",
                 lambda h, m=m: ref.entropy(h, m))]
        for name, args, dep, fn in scal:
            t = ta if dep == "diagline_dist" else t0
            if not okh.get(dep):
                ctx.count("rqa_scalar_blocked")
                # a derived method must still not raise anything new
                if dep in libh:
                    ok, v = ctx.call(getattr(obj, name), *args)
                    ctx.evals()
                    if not ok and not isinstance(v, NotImplementedError):
                        ctx.violation(sig(cname, name,
                                          f"raises:{type(v).__name__}", t),
                                      {**case, "args": args,
                                       "exc": repr(v)}, cid)
                continue
            ok, v = ctx.call(getattr(obj, name), *args)
            ctx.evals()
            if not ok:
                ctx.violation(sig(cname, name,
                                  f"raises:{type(v).__name__}", t),
                              {**case, "args": args, "exc": repr(v)}, cid)
                continue
            ctx.count("rqa_values_compared")
            want = fn(refh[dep])
            if not close(v, want):
                ctx.violation(sig(cname, name, "differs", t),
                              {**case, "args": args, "lib": v, "ref": want,
                               "hist": refh[dep]}, cid)
        # rqa_summary
        if all(okh.get(h) for h in ("diagline_dist", "vertline_dist")):
            lm, vm = mins[0], mins[-1]
            t = ta
            ok, v = ctx.call(obj.rqa_summary, lm, vm)
            ctx.evals()
            if not ok:
                ctx.violation(sig(cname, "rqa_summary",
                                  f"raises:{type(v).__name__}", t),
                              {**case, "exc": repr(v)}, cid)
            else:
                want = {"RR": float(R.sum()) / max(R.size, 1),
                        "DET": ref.fraction_in_lines(refh["diagline_dist"],
                                                     lm),
                        "L": ref.average_length(refh["diagline_dist"], lm),
                        "LAM": ref.fraction_in_lines(refh["vertline_dist"],
                                                     vm)}
                ctx.count("rqa_values_compared")
                if not (isinstance(v, dict) and set(v) == set(want) and
                        all(close(v[q], want[q]) for q in want)):
                    ctx.violation(sig(cname, "rqa_summary", "differs", t),
                                  {**case, "lib": v, "ref": want}, cid)
        # resampled distributions: run, keep total and support
        for name, dep in (("resample_diagline_dist", "diagline_dist"),
                          ("resample_vertline_dist", "vertline_dist")):
            if not okh.get(dep) or n > 40:
                continue
            t = ta if dep == "diagline_dist" else t0
            import random
            random.seed(int(r.integers(1 << 30)))
            mres = 7
            ok, v = ctx.call(getattr(obj, name), mres)
            ctx.evals()
            if not ok:
                ctx.violation(sig(cname, name,
                                  f"raises:{type(v).__name__}", t),
                              {**case, "exc": repr(v)}, cid)
                continue
            h = refh[dep]
            v = np.asarray(v)
            good = v.shape == h.shape and not np.any((v != 0) & (h == 0))
            if good and h.any():
                good = int(v.sum()) == mres
            if not good:
                ctx.violation(sig(cname, name, "support-or-total-differs",
                                  t), {**case, "lib": v, "hist": h}, cid)


def check_rate(ctx, obj, cname, R, denom, tags, case, cid):
    with warnings.catch_warnings():
        warnings.simplefilter("ignore")
        ok, v = ctx.call(obj.recurrence_rate)
    ctx.evals()
    if not ok:
        if isinstance(v, NotImplementedError):
            ctx.count("not_implemented_documented")
            return
        ctx.violation(sig(cname, "recurrence_rate",
                          f"raises:{type(v).__name__}", tags),
                      {**case, "exc": repr(v)}, cid)
        return
    if denom == 0:
        return
    want = float(np.asarray(R).sum()) / denom
    ctx.count("rate_compared")
    if not close(v, want):
        ctx.violation(sig(cname, "recurrence_rate", "differs", tags),
                      {**case, "lib": v, "ref_mean": want,
                       "shape": np.asarray(R).shape,
                       "N": getattr(obj, "N", None)}, cid)


def check_size(ctx, obj, cname, attrs, tags, case, cid):
    """attrs: {attribute name: expected value from the matrix shape}."""
    good = True
    for a, want in attrs.items():
        got = getattr(obj, a, None)
        ctx.evals()
        ctx.count("size_attr_compared")
        if got != want:
            good = False
            ctx.violation(sig(cname, a, "!=matrix-shape", tags),
                          {**case, "attr": a, "lib": got, "shape": want},
                          cid)
    return good


def check_adjacency(ctx, obj, cname, Rref_full, miss, tags, case, cid,
                    D=None, eps=None, tol=0.0, expect_symmetric=True):
    """adjacency == reference matrix without diagonal (rows/columns of
    missing states removed), entries in {0,1}."""
    A = np.asarray(obj.adjacency)
    ctx.evals()
    want = ref.without_diagonal(Rref_full)
    if miss is not None and miss.any():
        keep = ~miss
        want = want[np.ix_(keep, keep)]
        if D is not None:
            D = D[np.ix_(keep, keep)]
            if eps is not None and np.ndim(eps) > 0:
                eps = np.asarray(eps)[keep]
    ctx.count("adjacency_compared")
    ok = compare_matrix(ctx, cname, "adjacency", A, want, tags, case, cid,
                        D, eps, tol)
    if A.shape[0] == A.shape[1] and A.shape[0] != getattr(obj, "N", None):
        ctx.violation(sig(cname, "N", "!=adjacency-shape", tags),
                      {**case, "N": obj.N, "shape": A.shape}, cid)
    return ok


def nontriv(ctx, key, Rref):
    Rref = np.asarray(Rref)
    if Rref.ndim == 2 and Rref.size:
        off = ~np.eye(Rref.shape[0], Rref.shape[1], dtype=bool)
        v = Rref[off]
        if v.size and v.any() and not v.all():
            ctx.nontrivial(key)
            return True
    return False


# --------------------------------------------------- single-series RP ----
def reference_single(E, metric, mode, value, miss_on):
    """Returns (D, R, eps) for the state matrix E (already embedded)."""
    D = ref.distance_matrix(E, E, metric)
    miss = ref.nan_states(E)
    np.fill_diagonal(D, np.where(miss, np.nan, 0.0))
    eps = None
    if mode in ("threshold", "threshold_std"):
        eps = value
        R = ref.threshold_matrix(D, eps)
    elif mode == "recurrence_rate":
        eps = ref.rate_threshold(D, value)
        R = ref.threshold_matrix(D, eps)
    elif mode == "local_recurrence_rate":
        eps = np.array([[ref.rate_threshold(D[i, :], value)]
                        for i in range(D.shape[0])])
        R = ref.local_rate_matrix(D, value)
    else:
        raise ValueError(mode)
    if miss_on:
        R = ref.mask_missing(R, miss)
    return D, R, eps


def monotone_ok(Rlib, D, valid, per_row):
    """Every recurrent valid pair is strictly closer than every
    non-recurrent valid pair (of the same row if per_row)."""
    rows = range(D.shape[0]) if per_row else [None]
    for i in rows:
        if per_row:
            if not valid[i]:
                continue
            d = D[i, valid]
            rr = Rlib[i, valid]
        else:
            d = D[np.ix_(valid, valid)].ravel()
            rr = Rlib[np.ix_(valid, valid)].ravel()
        if (rr == 1).any() and (rr == 0).any() and \
                d[rr == 1].max() >= d[rr == 0].min():
            return False
    return True


def check_single(ctx, mods, cname, x, metric, mode, value, dim, tau,
                 missing, normalize, cid, r, exact, tol, rqa=True,
                 setter=None):
    """One RecurrencePlot / RecurrenceNetwork case.  `value` is a dict
    {'eps'|'std_factor'|'rr'|'size': ...} prepared by the caller from the
    reference distances."""
    cls = mods[cname]
    embedded = dim is not None
    case = {"class": cname, "x": x, "metric": metric, "mode": mode,
            "value": value, "dim": dim, "tau": tau, "missing": missing,
            "normalize": normalize}
    tags = []
    has_nan = bool(np.isnan(x).any())
    if has_nan:
        tags.append("missing")
    if embedded:
        ctx.count("embedded_cases")
    kw = {mode: value}
    if embedded:
        kw.update(dim=dim, tau=tau)
    np.random.seed(int(r.integers(1 << 30)))
    # (the switches in a type a caller may hold them in: bool, np.bool_, 0/1)
    from pvm.gen.held import as_flag
    ok, obj = ctx.call(cls, held(ctx, r, x), metric=metric,
                       normalize=as_flag(r, normalize),
                       missing_values=as_flag(r, missing), silence_level=3,
                       **kw)
    ctx.evals()
    E = state_matrix(x, dim, tau, normalize)
    if not ok:
        nodes = int((~ref.nan_states(E)).sum()) if missing else E.shape[0]
        if mode == "adaptive_neighborhood_size" and \
                isinstance(obj, IndexError):
            itags = [mode]
        elif cname.endswith("Network") and nodes <= 1:
            itags = ["single-node"]
        else:
            itags = tags
        ctx.violation(sig(cname, "__init__",
                          f"raises:{type(obj).__name__}", itags),
                      {**case, "exc": repr(obj)}, cid)
        return None
    judge_single(ctx, obj, cname, E, metric, mode, value, missing, tags,
                 case, cid, r, exact, tol, rqa)
    if setter is not None:
        smode, sval = setter
        stags = tags + ["after-setter"]
        skw = {}
        if smode == "adaptive_neighborhood_size" and r.random() < 0.7:
            # documented option: the order in which states are processed;
            # the guarantee (>= size neighbours) may not depend on it
            skw["order"] = r.permutation(E.shape[0])
            stags = stags + ["order"]
            ctx.count("adaptive_with_order")
        # the matrix the caller was handed before the setter runs, and a
        # shallow copy of the object: both keep describing the old matrix
        import copy as _copy
        okh, held_R = ctx.call(obj.recurrence_matrix)
        held_snap = np.array(held_R, copy=True) if okh else None
        twin = _copy.copy(obj) if r.random() < 0.5 else None
        ok, res = ctx.call(getattr(obj, "set_fixed_" + smode
                                   if smode != "adaptive_neighborhood_size"
                                   else "set_" + smode), sval, **skw)
        ctx.evals()
        ctx.count("setter_cases")
        if okh and ok:
            ctx.count("matrix_held_across_setter")
            tR = None if twin is None else np.asarray(
                twin.recurrence_matrix())
            if not np.array_equal(np.asarray(held_R), held_snap) or (
                    tR is not None and not np.array_equal(tR, held_snap)):
                ctx.violation(sig(cname, "set_" + smode,
                                  "edits-the-matrix-handed-out-before",
                                  stags), {**case, "setter": smode,
                                           "setter_value": sval}, cid)
        scase = {**case, "setter": smode, "setter_value": sval,
                 **{k: v.tolist() for k, v in skw.items()}}
        if not ok:
            ctx.violation(sig(cname, "set_" + smode,
                              f"raises:{type(res).__name__}", stags),
                          {**scase, "exc": repr(res)}, cid)
            return obj
        judge_single(ctx, obj, cname, E, metric, smode, sval, missing, stags,
                     scase, cid, r, exact, tol, rqa=False)
        if smode != mode and not missing and r.random() < 0.6:
            # ... and back to the setting the object was built with, by its
            # setter and with the same value (A-B-A)
            ok, res = ctx.call(getattr(
                obj, "set_fixed_" + mode
                if mode != "adaptive_neighborhood_size" else "set_" + mode),
                value)
            ctx.evals()
            ctx.count("back_to_the_first_setting")
            btags = tags + ["after-setter", "back-to-first-setting"]
            if not ok:
                ctx.violation(sig(cname, "set_" + mode,
                                  f"raises:{type(res).__name__}", btags),
                              {**scase, "exc": repr(res)}, cid)
                return obj
            judge_single(ctx, obj, cname, E, metric, mode, value, missing,
                         btags, scase, cid, r, exact, tol, rqa=False)
    return obj


def state_matrix(x, dim, tau, normalize):
    xs = ref.as2d(ref.f32(x))
    if normalize:
        mu = xs.mean(axis=0)
        sd = xs.std(axis=0)
        xs = xs - mu
        for c in range(xs.shape[1]):
            if sd[c] != 0:
                xs[:, c] = xs[:, c] / sd[c]
    if dim is not None:
        return ref.embed(xs[:, 0], dim, tau)
    return xs


def judge_single(ctx, obj, cname, E, metric, mode, value, missing, tags,
                 case, cid, r, exact, tol, rqa):
    n = E.shape[0]
    miss = ref.nan_states(E)
    has_nan = bool(miss.any())
    network = cname.endswith("Network")
    ok, Rlib = ctx.call(obj.recurrence_matrix)
    ctx.evals()
    if not ok or Rlib is None:
        ctx.violation(sig(cname, "recurrence_matrix", "raises-or-none", tags),
                      {**case, "exc": repr(Rlib)}, cid)
        return
    Rlib = np.asarray(Rlib)
    # ---- distances
    if n <= 80 or r.random() < 0.2:
        ok, Dlib = ctx.call(obj.distance_matrix, metric)
        ctx.evals()
        Dref = ref.distance_matrix(E, E, metric)
        if not ok:
            ctx.violation(sig(cname, "distance_matrix",
                              f"raises:{type(Dlib).__name__}", tags),
                          {**case, "exc": repr(Dlib)}, cid)
        else:
            fin = np.isfinite(Dref)
            ctx.count("distance_compared")
            Dlib = np.asarray(Dlib)
            dtol = 0.0 if exact else max(tol, 1e-12)
            if Dlib.shape != Dref.shape or not np.all(
                    np.abs(Dlib[fin] - Dref[fin]) <=
                    dtol * np.maximum(1.0, np.abs(Dref[fin]))):
                ctx.violation(sig(cname, "distance_matrix", "differs",
                                  tags + [metric]),
                              {**case, "lib": Dlib, "ref": Dref}, cid)
            elif fin.any():
                ctx.maxstat("distance_abs_err_normalized" if
                            case["normalize"] else "distance_abs_err",
                            np.max(np.abs(Dlib[fin] - Dref[fin])))
    # ---- matrix
    mtags = list(tags)
    ctx.count("rp_matrix_compared")
    if has_nan:
        ctx.count("missing_cases")
    good = True
    Rref = None
    D = eps = None
    if mode == "adaptive_neighborhood_size" and not has_nan:
        good = judge_adaptive(ctx, cname, Rlib, n, value, mtags, case, cid,
                              ref.distance_matrix(E, E, metric))
        Rref = Rlib
    elif has_nan and mode not in ("threshold", "threshold_std"):
        # only the missing-value rule and (rate modes) monotonicity
        D = ref.distance_matrix(E, E, metric)
        valid = ~miss
        if Rlib.shape != (n, n):
            ctx.violation(sig(cname, "recurrence_matrix", "shape-differs",
                              mtags), {**case, "lib_shape": Rlib.shape}, cid)
            return
        if Rlib[miss, :].any() or Rlib[:, miss].any():
            good = False
            ctx.violation(sig(cname, "recurrence_matrix",
                              "recurrence-at-missing-state",
                              mtags + [mode]),
                          {**case, "lib": Rlib, "missing_states": miss}, cid)
        if mode != "adaptive_neighborhood_size" and not monotone_ok(
                Rlib, D, valid, mode == "local_recurrence_rate"):
            good = False
            ctx.violation(sig(cname, "recurrence_matrix",
                              "not-a-threshold-of-distances", mtags),
                          {**case, "lib": Rlib, "D": D}, cid)
        if good and mode == "local_recurrence_rate" and metric != "supremum":
            # (the supremum kernel skips NaN components, so states with
            #  missing values have finite distances and take part in the
            #  ranking before they are masked; what the count should be then
            #  is not settled by the property - see DESIGN section 13)
            # "every state the same number of recurrences locally": the
            # int(rate * (N - 1)) nearest states, wherever that many states
            # without missing values exist (tie-free rows)
            k = ref.local_rate_count(n, value)
            for i in np.flatnonzero(valid):
                row = D[i, valid]
                if k < row.size and np.unique(row).size == row.size:
                    ctx.count("local_rate_rows_exact")
                    if int(Rlib[i, :].sum()) != k:
                        good = False
                        ctx.violation(
                            sig(cname, "recurrence_matrix",
                                "row-count!=int(rr*(N-1))", mtags),
                            {**case, "row": int(i),
                             "lib": int(Rlib[i].sum()), "want": k}, cid)
                        break
        Rref = Rlib
    else:
        if mode == "threshold_std":
            sd = float(np.std(ref.as2d(ref.f32(case["x"])))) \
                if not case["normalize"] else \
                float(np.std(state_matrix(case["x"], None, None, True)))
            val = value * sd
        else:
            val = value
        D, Rref, eps = reference_single(E, metric, mode, val, missing)
        key = (cname, mode, metric, np.asarray(case["x"]).tobytes(),
               repr(value), case["dim"], case["tau"], missing)
        nontriv(ctx, key, Rref)
        fin = D[np.isfinite(D)]
        epsb = np.broadcast_to(np.asarray(eps, dtype=float), D.shape)
        with np.errstate(invalid="ignore"):
            if exact and np.any(D == epsb):
                ctx.count("tie_cases")
        if mode in ("recurrence_rate", "local_recurrence_rate"):
            ctx.count("rate_cases")
        good = compare_matrix(ctx, cname, "recurrence_matrix", Rlib, Rref,
                              mtags, case, cid, D, eps,
                              0.0 if exact else tol)
        if good and mode == "local_recurrence_rate" and not has_nan:
            k = ref.local_rate_count(n, value)
            for i in range(n):
                row = D[i, :]
                if np.unique(row).size == row.size:      # tie-free row
                    ctx.count("local_rate_rows_exact")
                    if int(Rlib[i, :].sum()) != k:
                        ctx.violation(
                            sig(cname, "recurrence_matrix",
                                "row-count!=int(rr*(N-1))", mtags),
                            {**case, "row": i, "lib": int(Rlib[i].sum()),
                             "want": k}, cid)
                        break
    # ---- size attributes, rate, RQA
    ctags = list(tags)
    size_ok = check_size(ctx, obj, cname, {"N": Rlib.shape[0]}, ctags,
                         case, cid)
    check_rate(ctx, obj, cname, Rlib, float(Rlib.size), ctags, case, cid)
    if rqa:
        rqa_monitor(ctx, obj, cname, Rlib, miss if missing else None, ctags,
                    case, cid, r, size_ok=size_ok)
        # recurrence_probability: documented as diag sum / (N - lag)
        if size_ok and n >= 1 and not network:
            lag = int(r.integers(0, n))
            ok, v = ctx.call(obj.recurrence_probability, lag)
            ctx.evals()
            want = float(np.trace(Rlib, lag)) / (n - lag)
            if not ok:
                ctx.violation(sig(cname, "recurrence_probability",
                                  f"raises:{type(v).__name__}", ctags),
                              {**case, "exc": repr(v)}, cid)
            elif not close(v, want):
                ctx.violation(sig(cname, "recurrence_probability", "differs",
                                  ctags), {**case, "lag": lag, "lib": v,
                                           "ref": want}, cid)
    # ---- network
    if network and Rref is not None:
        check_adjacency(ctx, obj, cname, Rref, miss if missing else None,
                        ctags, case, cid, D, eps, 0.0 if exact else tol)
    if good:
        ctx.sample({"class": cname, "mode": mode, "metric": metric,
                    "n_states": n, "recurrences": int(Rlib.sum()),
                    "tags": tags})


def judge_adaptive(ctx, cname, Rlib, n, size, tags, case, cid, D):
    ctx.count("adaptive_checked")
    t = tags + ["adaptive_neighborhood_size"]
    if Rlib.shape != (n, n):
        ctx.violation(sig(cname, "recurrence_matrix", "shape-differs", t),
                      {**case, "lib_shape": Rlib.shape}, cid)
        return False
    good = True
    if not np.isin(Rlib, (0, 1)).all() or not np.array_equal(Rlib, Rlib.T):
        good = False
        ctx.violation(sig(cname, "recurrence_matrix",
                          "not-symmetric-0/1", t), {**case, "lib": Rlib}, cid)
    deg = Rlib.sum(axis=1) - np.diag(Rlib)
    if (deg < size).any():
        good = False
        i = int(np.argmax(deg < size))
        if np.sum(D[i, :] == 0) > 1:
            # another state coincides with state i: the sorted neighbour
            # list need not start with i itself
            t = t + ["duplicate-states"]
        ctx.violation(sig(cname, "recurrence_matrix",
                          "fewer-neighbours-than-requested", t),
                      {**case, "lib": Rlib, "degrees": deg}, cid)
    if good and n > size + 1:
        ctx.nontrivial(("adaptive", np.asarray(case["x"]).tobytes(), size,
                        case["metric"]))
    return good


def draw_single(ctx, mods, r, cid, nmax, force=None):
    """Draw and run one random RecurrencePlot / RecurrenceNetwork case
    (force = (n, mode): a long record analysed in the given mode)."""
    cname = "RecurrenceNetwork" if r.random() < 0.5 else "RecurrencePlot"
    big = r.random() < 0.12
    n = int(r.integers(1, (nmax if big else min(nmax, 25)) + 1))
    if r.random() < 0.012:
        # more states than fit an 8-bit counter / one block of 128 or 256
        n = int(r.choice([129, 200, 257]))
        ctx.count("sizes_beyond_8bit")
        if r.random() < 0.2:
            # ... or than one block of 512 / 1024 rows
            n = int(r.choice([513, 515, 1027]))
            ctx.count("sizes_beyond_512")
    if force:
        n = force[0]
        ctx.count("long_records_in_a_given_mode")
    style = str(r.choice(["dyadic", "int", "plateau", "const", "f32", "f64"],
                         p=[.3, .2, .1, .05, .2, .15]))
    exact = style in EXACT
    metric = str(r.choice(ref.METRICS))
    dim = tau = None
    if r.random() < 0.45:
        dim = int(r.integers(1, 5))
        tau = int(r.integers(1, 6))
        while n - (dim - 1) * tau < 1:
            if dim > 1:
                dim -= 1
            else:
                break
        d = 1
    else:
        d = int(r.integers(1, 5))
    x = gen_series(r, n, d, style)
    if d == 1 and r.random() < 0.5:
        x = x.reshape(-1)
    mode = str(r.choice(["threshold", "threshold_std", "recurrence_rate",
                         "local_recurrence_rate",
                         "adaptive_neighborhood_size"],
                        p=[.4, .12, .2, .18, .1]))
    if force:
        mode = force[1]
    normalize = (not exact) and r.random() < 0.2
    if normalize and np.ndim(x) == 2 and x.shape[1] >= 2 and \
            r.random() < 0.35:
        # one channel is exactly constant (stuck sensor, masked channel):
        # centred to zero, it contributes nothing to any distance
        x = np.array(x, dtype=float)
        x[:, int(r.integers(0, x.shape[1]))] = float(
            r.choice([0.0, 1.0, 2.0, 0.5, -3.0]))
        ctx.count("normalized_with_a_constant_channel")
    missing = False
    if r.random() < 0.22 and n >= 2 and not force:
        missing = True
        mask = r.random(np.shape(x)) < min(0.5, 1.5 / max(n, 1) + 0.1)
        if mask.any() and not mask.all():
            x = np.array(x, dtype=float)
            x[mask] = np.nan
            normalize = False
            if mode == "threshold_std":
                mode = "threshold"
            if r.random() < 0.7:
                mode = "threshold"
    tol = 0.0 if exact else (1e-4 if normalize else
                             1e-5 if mode == "threshold_std" else 1e-9)
    E = state_matrix(x, dim, tau, normalize)
    ne = E.shape[0]
    D = ref.distance_matrix(E, E, metric)
    value, ok = draw_value(r, mode, D, ne, exact, tol, x, normalize)
    if not ok:
        ctx.count("rejected")
        return
    setter = None
    if r.random() < 0.5:
        # a setter call on the live object (both classes)
        smode = str(r.choice(["threshold", "recurrence_rate",
                              "local_recurrence_rate", "threshold_std",
                              "adaptive_neighborhood_size"],
                             p=[.4, .2, .15, .1, .15]))
        if np.isnan(x).any() or normalize:
            smode = "threshold"
        sval, ok = draw_value(r, smode, D, ne, exact,
                              1e-5 if (smode == "threshold_std" and not exact)
                              else tol, x, normalize)
        if ok:
            setter = (smode, sval)
    with ctx.guard(120):
        check_single(ctx, mods, cname, x, metric, mode, value, dim, tau,
                     missing, normalize, cid, r, exact, tol,
                     rqa=(ne <= 70 or r.random() < 0.3), setter=setter)


def draw_value(r, mode, D, ne, exact, tol, x, normalize):
    if mode == "threshold":
        eps, _ = pick_eps(r, D, exact, max(tol, 1e-9) * 4)
        return eps, True
    if mode == "threshold_std":
        xs = state_matrix(x, None, None, normalize)
        sd = float(np.std(xs))
        if not np.isfinite(sd):
            return None, False
        if sd == 0:
            return float(r.integers(1, 4)) / 2, True
        if exact:
            # std itself is inexact: keep eps in a gap
            eps, _ = pick_eps(r, D, False, 4e-5)
        else:
            eps, _ = pick_eps(r, D, False, max(tol, 1e-5) * 4)
        f = eps / sd
        if ref.rel_margin(D, f * sd) <= max(tol, 1e-5) * 2:
            return None, False
        return f, True
    if mode in ("recurrence_rate", "local_recurrence_rate"):
        u = r.random()
        if u < 0.1:
            return 0.0, True
        if u < 0.2:
            return 1.0, True
        if u < 0.5:
            return float(r.choice([0.05, 0.1, 0.25, 0.5, 0.75])), True
        return float(r.random()), True
    if mode == "adaptive_neighborhood_size":
        if ne < 2:
            return None, False
        return int(r.integers(1, ne)), True
    raise ValueError(mode)


# ------------------------------------------------------------- cross ----
def draw_cross(ctx, mods, r, cid, nmax):
    cname = "CrossRecurrencePlot"
    big = r.random() < 0.1
    top = nmax if big else min(nmax, 25)
    nx = int(r.integers(1, top + 1))
    ny = int(r.integers(1, top + 1))
    style = str(r.choice(["dyadic", "int", "plateau", "f32"],
                         p=[.4, .2, .1, .3]))
    exact = style in EXACT
    metric = str(r.choice(ref.METRICS))
    dim = tau = None
    if r.random() < 0.45:
        dim = int(r.integers(1, 5))
        tau = int(r.integers(1, 5))
        while min(nx, ny) - (dim - 1) * tau < 1 and dim > 1:
            dim -= 1
        d = 1
    else:
        d = int(r.integers(1, 4))
    x = gen_series(r, nx, d, style)
    y = gen_series(r, ny, d, style)
    # the optional normalisation (continuous data): each series separately,
    # a constant channel is centred and otherwise left alone
    normalize = (not exact) and min(nx, ny) >= 2 and r.random() < 0.3
    if normalize:
        ctx.count("crp_normalized")
        for a in (x, y):
            if d >= 2 and r.random() < 0.35:
                a[:, int(r.integers(0, d))] = float(
                    r.choice([0.0, 1.0, 2.0, 0.5, -3.0]))
                ctx.count("normalized_with_a_constant_channel")
    if d == 1 and r.random() < 0.5:
        x, y = x.reshape(-1), y.reshape(-1)
    X = state_matrix(x, None, None, normalize)
    Y = state_matrix(y, None, None, normalize)
    if dim is not None:
        X, Y = ref.embed(X[:, 0], dim, tau), ref.embed(Y[:, 0], dim, tau)
    D = ref.distance_matrix(X, Y, metric)
    mode = "threshold" if r.random() < 0.6 else "recurrence_rate"
    if normalize:
        mode = "threshold"
    tol = 0.0 if exact else (1e-4 if normalize else 1e-9)
    value, ok_v = draw_value(r, mode, D, 0, exact, tol, None, False)
    if normalize and not ok_v:
        ctx.count("rejected")
        return
    tags = ["normalize"] if normalize else []
    if dim is not None:
        tags.append("embedded")
    if X.shape[0] != Y.shape[0]:
        tags.append("unequal-lengths")
        ctx.count("unequal_length_cases")
    case = {"class": cname, "x": x, "y": y, "metric": metric, "mode": mode,
            "value": value, "dim": dim, "tau": tau}
    kw = {mode: value}
    if dim is not None:
        kw.update(dim=dim, tau=tau)
    if normalize:
        kw["normalize"] = True
    ok, obj = ctx.call(mods[cname], held(ctx, r, x), held(ctx, r, y), metric=metric,
                       silence_level=3, **kw)
    ctx.evals()
    if not ok:
        ctx.violation(sig(cname, "__init__", f"raises:{type(obj).__name__}",
                          tags), {**case, "exc": repr(obj)}, cid)
        return
    eps = value if mode == "threshold" else ref.rate_threshold(D, value)
    Rref = ref.threshold_matrix(D, eps)
    with np.errstate(invalid="ignore"):
        if exact and np.any(D == eps):
            ctx.count("tie_cases")
    if mode == "recurrence_rate":
        ctx.count("rate_cases")
    if dim is not None:
        ctx.count("embedded_cases")
    Rlib = np.asarray(obj.recurrence_matrix())
    ctx.evals()
    ctx.count("crp_matrix_compared")
    if Rref.size and Rref.any() and not Rref.all():
        ctx.nontrivial((cname, mode, metric, np.asarray(x).tobytes(),
                        np.asarray(y).tobytes(), repr(value), dim, tau))
    good = compare_matrix(ctx, cname, "recurrence_matrix", Rlib, Rref, tags,
                          case, cid, D, eps, tol)
    ok, Dlib = ctx.call(obj.distance_matrix, metric)
    ctx.evals()
    if ok:
        ctx.count("distance_compared")
        Dlib = np.asarray(Dlib)
        # (after normalisation the library's mean / std are evaluated in
        #  the precision of the caller's array: 1e-5 instead of 1e-12)
        if Dlib.shape != D.shape or not np.all(
                np.abs(Dlib - D) <= (0.0 if exact else
                                     1e-5 if normalize else 1e-12) *
                np.maximum(1.0, np.abs(D))):
            ctx.violation(sig(cname, "distance_matrix", "differs",
                              tags + [metric]),
                          {**case, "lib": Dlib, "ref": D}, cid)
    else:
        ctx.violation(sig(cname, "distance_matrix",
                          f"raises:{type(Dlib).__name__}", tags),
                      {**case, "exc": repr(Dlib)}, cid)
    check_size(ctx, obj, cname, {"N": Rlib.shape[0], "M": Rlib.shape[1]},
               tags, case, cid)
    check_rate(ctx, obj, cname, Rlib, float(Rlib.size), tags, case, cid)
    ok, v = ctx.call(obj.cross_recurrence_rate)
    ctx.evals()
    if not ok or not close(v, float(Rlib.sum()) / Rlib.size):
        ctx.violation(sig(cname, "cross_recurrence_rate",
                          "differs" if ok else f"raises:{type(v).__name__}",
                          tags), {**case, "lib": repr(v)}, cid)
    rqa_monitor(ctx, obj, cname, Rlib, None, tags, case, cid, r,
                size_ok=False)
    if good:
        ctx.sample({"class": cname, "mode": mode, "metric": metric,
                    "shape": Rlib.shape, "recurrences": int(Rlib.sum()),
                    "tags": tags})
    # ---- one trajectory replaced through the public property, then the
    # plot regenerated at a fixed threshold on the live object
    if r.random() < 0.4:
        which = "y" if r.random() < 0.6 else "x"
        old = Y if which == "y" else X
        n2 = int(r.integers(1, max(2, old.shape[0] + 3)))
        new = ref.as2d(ref.f32(gen_series(r, n2, old.shape[1], style)))
        if new.shape[1] != old.shape[1]:
            return
        X2, Y2 = (X, new) if which == "y" else (new, Y)
        D2 = ref.distance_matrix(X2, Y2, metric)
        eps2, _ = draw_value(r, "threshold", D2, 0, exact, tol, None, False)
        stags = tags + [f"after-{which}_embedded="]
        scase = {**case, "replaced": which, "new_trajectory": new,
                 "threshold": eps2}

        def redo():
            setattr(obj, which + "_embedded", new.astype(np.float64))
            obj.set_fixed_threshold(eps2)
            return np.asarray(obj.recurrence_matrix())
        ok, R2 = ctx.call(redo)
        ctx.evals()
        ctx.count("crp_embedding_replaced")
        if not ok:
            ctx.violation(sig(cname, "set_fixed_threshold",
                              f"raises:{type(R2).__name__}", stags),
                          {**scase, "exc": repr(R2)}, cid)
            return
        compare_matrix(ctx, cname, "recurrence_matrix", R2,
                       ref.threshold_matrix(D2, eps2), stags, scase, cid, D2,
                       eps2, tol)
        ok, Dl = ctx.call(obj.distance_matrix, metric)
        if ok and (np.shape(Dl) != D2.shape or not np.all(
                np.abs(np.asarray(Dl) - D2) <= (
                    0.0 if exact else 1e-5 if normalize else 1e-12) *
                np.maximum(1.0, np.abs(D2)))):
            ctx.violation(sig(cname, "distance_matrix", "differs",
                              stags + [metric]),
                          {**scase, "lib": Dl, "ref": D2}, cid)


# ------------------------------------------------------------- joint ----
def joint_reference(x, y, metric, mode, value, dim, tau, lag, normalize):
    Ex = state_matrix(x, None if dim is None else dim[0],
                      None if dim is None else tau[0], normalize)
    Ey = state_matrix(y, None if dim is None else dim[1],
                      None if dim is None else tau[1], normalize)
    n = min(Ex.shape[0], Ey.shape[0])
    Ex, Ey = Ex[:n], Ey[:n]
    Dx = ref.distance_matrix(Ex, Ex, metric[0])
    Dy = ref.distance_matrix(Ey, Ey, metric[1])
    if mode == "threshold":
        ex, ey = value
    elif mode == "threshold_std":
        ex = value[0] * float(np.std(state_matrix(x, None, None, normalize)))
        ey = value[1] * float(np.std(state_matrix(y, None, None, normalize)))
    else:
        ex = ref.rate_threshold(Dx, value[0])
        ey = ref.rate_threshold(Dy, value[1])
    Rx = ref.threshold_matrix(Dx, ex)
    Ry = ref.threshold_matrix(Dy, ey)
    return ref.joint(Rx, Ry, lag), (Dx, Dy, ex, ey, Rx, Ry, n)


def joint_borderline(Jlib, Jref, aux, lag, tol):
    """Disagreement explained by a pair whose x- or y-distance is within
    tol of its threshold."""
    if tol <= 0:
        return False
    Dx, Dy, ex, ey, _, _, n = aux
    sx = max(float(np.max(np.abs(Dx))), 1e-300)
    sy = max(float(np.max(np.abs(Dy))), 1e-300)
    nearx = bool(np.any((Dx != ex) & (np.abs(Dx - ex) <= tol * sx)))
    neary = bool(np.any((Dy != ey) & (np.abs(Dy - ey) <= tol * sy)))
    for i, j in np.argwhere(Jlib != Jref):
        if lag >= 0:
            dx, dy = Dx[i, j], Dy[i + lag, j + lag]
        else:
            dx, dy = Dx[i - lag, j - lag], Dy[i, j]
        # exact ties are excused only if a different distance lies within
        # the margin (legitimate rank swap in the rate mode)
        okx = abs(dx - ex) <= tol * sx and (dx != ex or nearx)
        oky = abs(dy - ey) <= tol * sy and (dy != ey or neary)
        if not (okx or oky):
            return False
    return True


def joint_values(r, mode, Dx, Dy, exact, tol, x, y, normalize):
    if mode == "threshold":
        return (pick_eps(r, Dx, exact, max(tol, 1e-9) * 4)[0],
                pick_eps(r, Dy, exact, max(tol, 1e-9) * 4)[0]), True
    if mode == "threshold_std":
        a, ok1 = draw_value(r, mode, Dx, 0, exact, tol, x, normalize)
        b, ok2 = draw_value(r, mode, Dy, 0, exact, tol, y, normalize)
        return (a, b), ok1 and ok2
    return (draw_value(r, mode, Dx, 0, exact, tol, None, False)[0],
            draw_value(r, mode, Dy, 0, exact, tol, None, False)[0]), True


def draw_joint(ctx, mods, r, cid, nmax):
    cname = "JointRecurrenceNetwork" if r.random() < 0.5 \
        else "JointRecurrencePlot"
    big = r.random() < 0.1
    n = int(r.integers(1, (nmax if big else min(nmax, 22)) + 1))
    style = str(r.choice(["dyadic", "int", "plateau", "f32", "f64"],
                         p=[.35, .25, .1, .2, .1]))
    exact = style in EXACT
    metric = (str(r.choice(ref.METRICS)), str(r.choice(ref.METRICS)))
    dim = tau = None
    if r.random() < 0.4:
        dim = (int(r.integers(1, 4)), int(r.integers(1, 4)))
        tau = (int(r.integers(1, 4)), int(r.integers(1, 4)))
        if n - max((dim[0] - 1) * tau[0], (dim[1] - 1) * tau[1]) < 1:
            dim = tau = None
    d = 1 if dim is not None else int(r.integers(1, 4))
    x = gen_series(r, n, d, style)
    y = gen_series(r, n, d if r.random() < 0.7 else int(r.integers(1, 4)),
                   style) if dim is None else gen_series(r, n, 1, style)
    mode = str(r.choice(["threshold", "threshold_std", "recurrence_rate"],
                        p=[.5, .15, .35]))
    normalize = (not exact) and r.random() < 0.15
    if normalize:
        for a in (x, y):
            if a.ndim == 2 and a.shape[1] >= 2 and r.random() < 0.35:
                a[:, int(r.integers(0, a.shape[1]))] = float(
                    r.choice([0.0, 1.0, 2.0, 0.5, -3.0]))
                ctx.count("normalized_with_a_constant_channel")
    tol = 0.0 if exact else (1e-4 if normalize else
                             1e-5 if mode == "threshold_std" else 1e-9)
    _, aux = joint_reference(x, y, metric, "threshold", (1.0, 1.0), dim, tau,
                             0, normalize)
    Dx, Dy, _, _, _, _, ne = aux
    lag = 0
    if r.random() < 0.6 and ne >= 2:
        lag = int(r.integers(1, min(ne, 5))) * (1 if r.random() < 0.5 else -1)
    value, ok = joint_values(r, mode, Dx, Dy, exact, tol, x, y, normalize)
    if not ok:
        ctx.count("rejected")
        return
    tags = []
    if lag != 0:
        tags.append("lag!=0")
    case = {"class": cname, "x": x, "y": y, "metric": metric, "mode": mode,
            "value": value, "dim": dim, "tau": tau, "lag": lag,
            "normalize": normalize}
    kw = {mode: value}
    if dim is not None:
        kw.update(dim=dim, tau=tau)
    from pvm.gen.held import as_flag
    ok, obj = ctx.call(mods[cname], held(ctx, r, x), held(ctx, r, y), metric=metric,
                       normalize=as_flag(r, normalize), lag=lag,
                       silence_level=3, **kw)
    ctx.evals()
    if not ok:
        itags = ["single-node"] if (cname.endswith("Network") and
                                    ne - abs(lag) <= 1) else tags
        ctx.violation(sig(cname, "__init__", f"raises:{type(obj).__name__}",
                          itags), {**case, "exc": repr(obj)}, cid)
        return
    judge_joint(ctx, obj, cname, x, y, metric, mode, value, dim, tau, lag,
                normalize, tags, case, cid, r, exact, tol, rqa=True)
    if cname == "JointRecurrenceNetwork" and r.random() < 0.6:
        smode = str(r.choice(["threshold", "recurrence_rate",
                              "threshold_std"], p=[.5, .35, .15]))
        if normalize:
            smode = "threshold"
        stol = tol if smode != "threshold_std" or exact else max(tol, 1e-5)
        sval, ok = joint_values(r, smode, Dx, Dy, exact, stol, x, y,
                                normalize)
        if not ok:
            return
        ok, res = ctx.call(getattr(obj, "set_fixed_" + smode), sval)
        ctx.evals()
        ctx.count("setter_cases")
        stags = tags + ["after-setter"]
        scase = {**case, "setter": smode, "setter_value": sval}
        if not ok:
            ctx.violation(sig(cname, "set_fixed_" + smode,
                              f"raises:{type(res).__name__}", stags),
                          {**scase, "exc": repr(res)}, cid)
            return
        judge_joint(ctx, obj, cname, x, y, metric, smode, sval, dim, tau,
                    lag, normalize, stags, scase, cid, r, exact,
                    max(tol, stol), rqa=False)


def judge_joint(ctx, obj, cname, x, y, metric, mode, value, dim, tau, lag,
                normalize, tags, case, cid, r, exact, tol, rqa):
    Jref, aux = joint_reference(x, y, metric, mode, value, dim, tau, lag,
                                normalize)
    Dx, Dy, ex, ey, Rx, Ry, ne = aux
    Jlib = np.asarray(obj.recurrence_matrix())
    ctx.evals()
    ctx.count("jrp_matrix_compared")
    if lag != 0:
        ctx.count("jrp_lag_nonzero")
    if dim is not None:
        ctx.count("embedded_cases")
    if mode == "recurrence_rate":
        ctx.count("rate_cases")
    with np.errstate(invalid="ignore"):
        if exact and (np.any(Dx == ex) or np.any(Dy == ey)):
            ctx.count("tie_cases")
    nontriv(ctx, (cname, mode, metric, np.asarray(x).tobytes(),
                  np.asarray(y).tobytes(), repr(value), dim, tau, lag), Jref)
    ctags = list(tags)
    atags = list(tags)
    if Jref.size and not np.diag(Jref).all():
        atags.append("empty-diagonal")
    if Jlib.shape != Jref.shape:
        good = compare_matrix(ctx, cname, "recurrence_matrix", Jlib, Jref,
                              ctags, case, cid)
    elif np.array_equal(Jlib, Jref) or \
            (not exact and joint_borderline(Jlib, Jref, aux, lag, tol)):
        good = True
        if not np.array_equal(Jlib, Jref):
            ctx.count("borderline_excused")
            ctx.count("borderline_excused:joint:" + mode +
                      (":normalize" if normalize else ""))
    else:
        good = compare_matrix(ctx, cname, "recurrence_matrix", Jlib, Jref,
                              ctags, case, cid)
    size_ok = check_size(ctx, obj, cname, {"N": Jlib.shape[0]}, ctags, case,
                         cid) if Jlib.ndim == 2 else False
    check_rate(ctx, obj, cname, Jlib, float(Jlib.size), ctags, case, cid)
    if rqa and Jlib.ndim == 2 and Jlib.shape[0] <= 70:
        rqa_monitor(ctx, obj, cname, Jlib, None, ctags, case, cid, r,
                    size_ok=size_ok)
    if cname.endswith("Network"):
        A = np.asarray(obj.adjacency)
        ctx.evals()
        ctx.count("adjacency_compared")
        want = ref.without_diagonal(Jref)
        if A.shape == want.shape and not np.array_equal(A, want) and \
                not exact and joint_borderline(A, want, aux, lag, tol):
            ctx.count("borderline_excused")
            ctx.count("borderline_excused:joint-adjacency:" + mode +
                      (":normalize" if normalize else ""))
        else:
            compare_matrix(ctx, cname, "adjacency", A, want, atags, case,
                           cid)
        if A.shape[0] != getattr(obj, "N", None) and A.shape == want.shape:
            ctx.count("network_N_vs_adjacency_mismatch")
    if good:
        ctx.sample({"class": cname, "mode": mode, "metric": metric,
                    "lag": lag, "n_states": ne,
                    "recurrences": int(Jlib.sum()), "tags": ctags})


# ------------------------------------------------------ inter-system ----
def draw_isrn(ctx, mods, r, cid, nmax):
    cname = "InterSystemRecurrenceNetwork"
    big = r.random() < 0.1
    top = nmax // 2 if big else min(nmax, 16)
    nx = int(r.integers(1, top + 1))
    ny = int(r.integers(1, top + 1))
    style = str(r.choice(["dyadic", "int", "plateau", "f32", "f64"],
                         p=[.35, .25, .1, .2, .1]))
    exact = style in EXACT
    metric = str(r.choice(ref.METRICS))
    dim = tau = None
    if r.random() < 0.45:
        dim = int(r.integers(1, 4))
        tau = (int(r.integers(1, 4)), int(r.integers(1, 4)))
        if min(nx - (dim - 1) * tau[0], ny - (dim - 1) * tau[1]) < 1:
            dim = tau = None
    d = 1 if dim is not None else int(r.integers(1, 4))
    x = gen_series(r, nx, d, style)
    y = gen_series(r, ny, d, style)
    if d == 1 and r.random() < 0.5:
        x, y = x.reshape(-1), y.reshape(-1)
    mode = "threshold" if r.random() < 0.6 else "recurrence_rate"
    tol = 0.0 if exact else 1e-9
    # the optional normalisation (continuous data), each series on its own;
    # in half of those cases x and y are overlapping stretches of one
    # single-precision record of the caller (which stays what it is)
    normalize = (not exact) and min(nx, ny) >= 3 and r.random() < 0.35
    record = None
    if normalize:
        mode = "threshold"
        tol = 1e-4
        ctx.count("isrn_normalized")
        if style == "f32" and r.random() < 0.5:
            k_ = int(r.integers(1, 3))
            record = np.float32(gen_series(r, nx + k_, d, "f32"))
            if d == 1 and np.ndim(x) == 1:
                record = record.reshape(-1)
            x, y = record[:-k_], record[k_:]
            ny = nx
            if dim is not None and \
                    min(nx - (dim - 1) * tau[0], ny - (dim - 1) * tau[1]) < 1:
                dim = tau = None
            record0 = record.copy()
            ctx.count("isrn_overlapping_views_of_one_record")
    X = state_matrix(np.array(x, dtype=float), None, None, normalize)
    Y = state_matrix(np.array(y, dtype=float), None, None, normalize)
    if dim is not None:
        X = ref.embed(X[:, 0], dim, tau[0])
        Y = ref.embed(Y[:, 0], dim, tau[1])
    Ds = (ref.distance_matrix(X, X, metric), ref.distance_matrix(Y, Y, metric),
          ref.distance_matrix(X, Y, metric))
    tags = ["normalize"] if normalize else []
    if dim is not None and (X.shape[0] != nx or Y.shape[0] != ny):
        tags.append("embedded")
    if X.shape[0] != Y.shape[0]:
        ctx.count("unequal_length_cases")
    value = tuple(draw_value(r, mode, D, 0, exact, tol, None, False)[0]
                  for D in Ds)
    case = {"class": cname, "x": x, "y": y, "metric": metric, "mode": mode,
            "value": value, "dim": dim, "tau": tau}
    kw = {mode: value}
    if dim is not None:
        kw.update(dim=dim, tau=tau)
    if normalize:
        kw["normalize"] = True
    if record is not None:
        ok, obj = ctx.call(mods[cname], x, y, metric=metric, silence_level=3,
                           **kw)
        if not np.array_equal(record, record0):
            ctx.violation(sig(cname, "__init__", "edits-the-caller's-record",
                              tags), case, cid)
            return
    else:
        ok, obj = ctx.call(mods[cname], held(ctx, r, x), held(ctx, r, y),
                           metric=metric, silence_level=3, **kw)
    ctx.evals()
    if not ok:
        ctx.violation(sig(cname, "__init__", f"raises:{type(obj).__name__}",
                          tags), {**case, "exc": repr(obj)}, cid)
        return
    judge_isrn(ctx, obj, cname, Ds, mode, value, tags, case, cid, exact, tol,
               dim)
    if r.random() < 0.5 and not normalize:
        smode = "threshold" if r.random() < 0.6 else "recurrence_rate"
        sval = tuple(draw_value(r, smode, D, 0, exact, tol, None, False)[0]
                     for D in Ds)
        ok, res = ctx.call(getattr(obj, "set_fixed_" + smode), sval)
        ctx.evals()
        ctx.count("setter_cases")
        stags = tags + ["after-setter"]
        scase = {**case, "setter": smode, "setter_value": sval}
        if not ok:
            ctx.violation(sig(cname, "set_fixed_" + smode,
                              f"raises:{type(res).__name__}", stags),
                          {**scase, "exc": repr(res)}, cid)
            return
        judge_isrn(ctx, obj, cname, Ds, smode, sval, stags, scase, cid,
                   exact, tol, dim)


def judge_isrn(ctx, obj, cname, Ds, mode, value, tags, case, cid, exact, tol,
               dim):
    eps = [v if mode == "threshold" else ref.rate_threshold(D, v)
           for v, D in zip(value, Ds)]
    Rx, Ry, CR = (ref.threshold_matrix(D, e) for D, e in zip(Ds, eps))
    M = ref.inter_system(Rx, Ry, CR)
    nx, ny = Rx.shape[0], Ry.shape[0]
    Dfull = np.zeros(M.shape)
    Dfull[:nx, :nx], Dfull[nx:, nx:] = Ds[0], Ds[1]
    Dfull[:nx, nx:], Dfull[nx:, :nx] = Ds[2], Ds[2].T
    Efull = np.zeros(M.shape)
    Efull[:nx, :nx], Efull[nx:, nx:] = eps[0], eps[1]
    Efull[:nx, nx:], Efull[nx:, :nx] = eps[2], eps[2]
    if not check_size(ctx, obj, cname, {"N_x": nx, "N_y": ny},
                      [t for t in tags if t != "after-setter"], case, cid):
        return
    ctx.count("isrn_matrix_compared")
    if dim is not None:
        ctx.count("embedded_cases")
    if mode == "recurrence_rate":
        ctx.count("rate_cases")
    if exact and np.any(Dfull == Efull):
        ctx.count("tie_cases")
    nontriv(ctx, (cname, mode, case["metric"], np.asarray(case["x"]).tobytes(),
                  np.asarray(case["y"]).tobytes(), repr(value), dim,
                  case["tau"]), M)
    ok, Mlib = ctx.call(obj.inter_system_recurrence_matrix)
    ctx.evals()
    good = True
    if not ok:
        good = False
        ctx.violation(sig(cname, "inter_system_recurrence_matrix",
                          f"raises:{type(Mlib).__name__}", tags),
                      {**case, "exc": repr(Mlib)}, cid)
    else:
        good = compare_matrix(ctx, cname, "inter_system_recurrence_matrix",
                              np.asarray(Mlib), M, tags, case, cid, Dfull,
                              Efull, tol)
    ctx.count("adjacency_compared")
    A = np.asarray(obj.adjacency)
    ctx.evals()
    good = compare_matrix(ctx, cname, "adjacency", A,
                          ref.without_diagonal(M), tags, case, cid, Dfull,
                          Efull, tol) and good
    check_size(ctx, obj, cname, {"N": nx + ny}, tags, case, cid)
    ok, v = ctx.call(obj.internal_recurrence_rates)
    ctx.evals()
    want = (float(Rx.sum()) / Rx.size, float(Ry.sum()) / Ry.size)
    if not ok or not close(v, want):
        if good:
            ctx.violation(sig(cname, "internal_recurrence_rates",
                              "differs" if ok else
                              f"raises:{type(v).__name__}", tags),
                          {**case, "lib": repr(v), "ref": want}, cid)
    ok, v = ctx.call(obj.cross_recurrence_rate)
    ctx.evals()
    if (not ok or not close(v, float(CR.sum()) / CR.size)) and good:
        ctx.violation(sig(cname, "cross_recurrence_rate",
                          "differs" if ok else f"raises:{type(v).__name__}",
                          tags), {**case, "lib": repr(v),
                                  "ref": float(CR.sum()) / CR.size}, cid)
    if good:
        ctx.sample({"class": cname, "mode": mode, "N_x": nx, "N_y": ny,
                    "links": int(ref.without_diagonal(M).sum()) // 2,
                    "tags": tags})


# --------------------------------------------------------------- run ----
def run(ctx):
    from pyunicorn.timeseries import (
        RecurrencePlot, RecurrenceNetwork, CrossRecurrencePlot,
        JointRecurrencePlot, JointRecurrenceNetwork,
        InterSystemRecurrenceNetwork)
    mods = {"RecurrencePlot": RecurrencePlot,
            "RecurrenceNetwork": RecurrenceNetwork,
            "CrossRecurrencePlot": CrossRecurrencePlot,
            "JointRecurrencePlot": JointRecurrencePlot,
            "JointRecurrenceNetwork": JointRecurrenceNetwork,
            "InterSystemRecurrenceNetwork": InterSystemRecurrenceNetwork}
    nmax = 400 if ctx.thorough else 60
    # 1. exhaustive tiny series
    L = 6 if ctx.thorough else 5
    idx = 0
    for n in range(1, L + 1):
        for xs in itertools.product((0.0, 1.0, 2.0), repeat=n):
            idx += 1
            if not ctx.mine(idx):
                continue
            x = np.array(xs)
            word = "".join(str(int(v)) for v in xs)
            for mi, metric in enumerate(ref.METRICS):
                for ei, eps in enumerate((0.0, 0.5, 1.0, 1.5, 2.0, 2.5)):
                    for emb in ((None, None), (2, 1)):
                        if emb[0] is not None and n < 3:
                            continue
                        cid = f"ex:{word}:{metric}:{eps}:{emb[0]}"
                        if not ctx.want(cid):
                            continue
                        r = ctx.rng("ex", idx, mi, ei)
                        cname = "RecurrenceNetwork" \
                            if (idx + mi + ei) % 3 == 0 else "RecurrencePlot"
                        check_single(ctx, mods, cname, x, metric,
                                     "threshold", eps, emb[0], emb[1], False,
                                     False, cid, r, True, 0.0,
                                     rqa=((idx + mi + ei) % 5 == 0))
    ctx.note("exhaustive_series", idx)
    # 2..5 random
    caps = {"rp": 75000, "crp": 15000, "jrp": 20000, "isrn": 12500} \
        if ctx.thorough else {"rp": 9600, "crp": 1600, "jrp": 2400,
                              "isrn": 1200}
    draws = {"rp": draw_single, "crp": draw_cross, "jrp": draw_joint,
             "isrn": draw_isrn}
    k = 0
    top = max(caps.values())
    while ctx.time_left() > 0 and k < top:
        k += 1
        if not ctx.mine(k):
            continue
        for fam in ("rp", "crp", "jrp", "isrn"):
            # interleave so that a short budget still reaches every family
            step = max(1, top // caps[fam])
            if k % step or k // step > caps[fam]:
                continue
            cid = f"{fam}:{k}"
            if not ctx.want(cid):
                continue
            r = ctx.rng(fam, k)
            with ctx.guard(180):
                draws[fam](ctx, mods, r, cid, nmax)
    # records of more than 1000 states (more than a million distances), in
    # every way of fixing the threshold
    for j, mode in enumerate(("recurrence_rate", "threshold",
                              "local_recurrence_rate", "threshold_std")):
        cid = f"long:{mode}"
        if ctx.mine(j) and ctx.want(cid) and (j < 2 or ctx.thorough):
            with ctx.guard(300):
                draw_single(ctx, mods, ctx.rng("long", j), cid, nmax,
                            force=(1040 + 7 * j, mode))
