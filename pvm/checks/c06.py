"""C06 — queries are pure: no interference, inputs are never modified.

M4 purity ledger: byte copies of every array handed to the library and of
every result handed back (results come *by reference* out of the lru cache);
after each call the ledger is re-verified; every query is compared with its
baseline on a fresh object."""
import copy
import warnings

import numpy as np

from pvm.checks.c01 import SUBJECT_NAMES as _C01_NAMES

SUBJECT_NAMES = _C01_NAMES + ["EventSeries", "CouplingAnalysis"]

META = dict(
    shards={"quick": 16, "thorough": 16},
    budget={"quick": 45, "thorough": 600},
    timeout={"quick": 900, "thorough": 3600},
    technique="purity ledger over caller arrays, shared data objects and "
              "returned (cached) objects + baseline-vs-sequence comparison "
              "with culprit isolation",
    rule=("case = (class, seeded inputs, random ordering of its query "
          "surface: every public method callable without required arguments "
          "x argument patterns, plus random/object-returning methods "
          "(surrogates, resampling, copies) as culprits only). Monitors: "
          "(a) arrays passed to constructors/queries are byte-identical "
          "afterwards unless the method is documented as in-place; (b) a "
          "ClimateData / GeoGrid shared by several derived objects returns "
          "the same observable / anomaly / phase_mean / distances after each "
          "object is built and queried; (c) each query in the sequence "
          "equals its baseline evaluated on a fresh object (same exception "
          "type counts as equal), on mismatch every earlier call is tried "
          "alone before the victim on a fresh object to name the culprit; "
          "(d) objects returned earlier are unchanged after every later call "
          "(in-place edit of a cached result), and a repeated query equals "
          "its first result. Non-deterministic queries (two fresh objects "
          "disagree) are culprits only. non-trivial = distinct (class, "
          "culprit, victim) ordered pairs actually executed in which both "
          "calls touch a common cached method (from the cache shadow log), "
          "plus distinct (class, input array) ledger entries."),
    floors={"quick": {**{f"seq:{n}": 2 for n in SUBJECT_NAMES},
                      "ordered_pairs_executed": 20000,
                      "ledger_verifications": 20000,
                      "shared_data_checks": 100, "input_arrays_checked": 500},
            "thorough": {**{f"seq:{n}": 20 for n in SUBJECT_NAMES},
                         "ordered_pairs_executed": 300000,
                         "ledger_verifications": 300000,
                         "shared_data_checks": 1500,
                         "input_arrays_checked": 6000}},
    assumptions=[
        "documented in-place methods (allow-list): "
        "Data.normalize_time_series_array, "
        "RecurrencePlot.normalize_time_series, "
        "Surrogates.normalize_original_data, randomly_rewire*, set_* / "
        "update_* mutators (not part of the query surface)",
        "ARPACK based measures compared to 1e-6 and only on connected "
        "undirected graphs"],
)

META["rule"] += (
    " " + 'Added later: a dozen further array-taking static helpers, constructors and setters in the argument ledger (coordinate conversions, rectangular grids, Legendre coordinates, recurrence thresholds, ClimateNetwork / ResNetwork / Data / ClimateData constructors, node weights, edge lists, symmetrize_by_absmax).')

META["rule"] += (
    " " + 'Added after the fifth round: 40 % of the network-type objects carry node weights, a link attribute and a node attribute set by their owner after construction (read back during and at the end of the sequence); cache_clear / clear_cache take part in every sequence three times; the Monte-Carlo significance calls of EventSeries take part as culprits.')

META["rule"] += (
    " " + "Added after the sixth round: memoised values handed out again must be what they were when stored (cache shadow); a third of the queries are run from two differently seeded states of the process-wide generators and must not end in the same state; knn estimators among the CouplingAnalysis queries; 'copy and change the copy' as a culprit; window dictionaries in the argument ledger.")

META["rule"] += (
    " " + 'Added after the seventh round: plots / networks of 1025 and 1100 states built twice from differently seeded generator states; Rainfall helpers and Data.rescale in the argument ledger.')

META["rule"] += (
    " " + "Added after the eighth round: family 'histories' (the same state changes with and without queries in between, three objects); 30 % of the sequences hand their matrices over column-major or as a window of a larger buffer; the shared case has a second record of the same or another length and the two-layer constructor.")

META["rule"] += (
    " " + "Added after the ninth round: GeoGrid.convert_lon_coordinates among the argument cases (the caller's array, and the grid's own longitude sequence).")

CULPRITS = {
    "Surrogates": [
        ("white_noise_surrogates", lambda o: o.white_noise_surrogates()),
        ("correlated_noise_surrogates",
         lambda o: o.correlated_noise_surrogates()),
        ("AAFT_surrogates", lambda o: o.AAFT_surrogates()),
        ("refined_AAFT_surrogates",
         lambda o: o.refined_AAFT_surrogates(2)),
        ("twin_surrogates", lambda o: o.twin_surrogates(3, 2, 0.4, 2))],
    "RecurrencePlot": [
        ("resample_diagline_dist", lambda o: o.resample_diagline_dist(5)),
        ("resample_vertline_dist", lambda o: o.resample_vertline_dist(5)),
        ("twin_surrogates", lambda o: o.twin_surrogates(1, 2)),
        ("twins", lambda o: o.twins(2))],
    "ClimateData": [("shuffled_anomaly", lambda o: o.shuffled_anomaly())],
    "EventSeries": [
        ("event_analysis_significance(ES,shuffle)",
         lambda o: o.event_analysis_significance(
             method="ES", surrogate="shuffle", n_surr=2)),
        ("event_analysis_significance(ECA,shuffle)",
         lambda o: o.event_analysis_significance(
             method="ECA", surrogate="shuffle", n_surr=2))],
}
def _change_the_copy(o):
    """copy(), then state changes on the copy: the object is not its copy."""
    c = o.copy()
    A = np.asarray(c.adjacency)
    if A.any():
        for name in list(c.graph.es.attribute_names()) + ["w"]:
            c.set_link_attribute(name, (A != 0) * 6.75)
        c.del_link_attribute("w")
    c.node_weights = np.arange(1.0, c.N + 1.0)
    if A.any() and not c.directed:
        try:
            c.randomly_rewire(2)
        except Exception:  # noqa
            pass
    return c


NET_CULPRITS = [
    ("copy", lambda o: o.copy()),
    ("copy-and-change-the-copy", _change_the_copy),
    ("splitted_copy", lambda o: o.splitted_copy()),
    ("undirected_copy", lambda o: o.undirected_copy()),
    ("permuted_copy", lambda o: o.permuted_copy(
        np.arange(o.N)[::-1].copy())),
]


def pre_import():
    from pvm.mon import shadow_cache
    shadow_cache.install()


def arrays_of(model):
    out = {}
    for k, v in model.items():
        if isinstance(v, np.ndarray):
            out[k] = v
        elif isinstance(v, dict):
            for kk, vv in v.items():
                if isinstance(vv, np.ndarray):
                    out[f"{k}.{kk}"] = vv
    return out


def snap_arrays(d):
    return {k: v.copy() for k, v in d.items()}


def same_bytes(a, b):
    return a.shape == b.shape and a.dtype == b.dtype and \
        np.array_equal(a, b, equal_nan=(a.dtype.kind in "fc"))


def run(ctx):
    from pvm.mon import subjects as S, shadow_cache as SC
    from pvm.mon.reflect import same, snapshot, brief
    from pvm.checks.c01 import is_spectral, spectral_defined
    S.COPY_INPUTS[0] = False
    subs = S.all_subjects() + S.purity_only_subjects()
    cap = 9000 if ctx.thorough else 1200

    def call(q, o):
        with warnings.catch_warnings():
            warnings.simplefilter("ignore")
            np.random.seed(7)
            return ctx.call(q, o)

    def agree(a, b):
        (oka, va), (okb, vb) = a, b
        if not oka or not okb:
            if oka != okb:
                return True, False
            return True, type(va) is type(vb)
        return same(va, vb, rtol=1e-6, atol=1e-10)

    k = 0
    while ctx.time_left() > 0 and k < cap:
        k += 1
        if not ctx.mine(k):
            continue
        cid = f"seq:{k}"
        if not ctx.want(cid):
            continue
        sub = subs[(k + k // ctx.nshards) % len(subs)]
        r = ctx.rng("seq", k)
        with ctx.guard(240):
            sequence_case(ctx, sub, r, cid, call, agree, SC, S, snapshot,
                          brief, is_spectral, spectral_defined)
    # the same state changes with and without queries in between
    for j in range(60 if ctx.thorough else 8):
        cid = f"hist:{ctx.shard}:{j}"
        if ctx.want(cid):
            rr = ctx.rng("hist", ctx.shard, j)
            sub = subs[int(rr.integers(len(subs)))]
            with ctx.guard(240):
                history_case(ctx, sub, rr, cid, call, agree, brief)
    if ctx.shard % 4 == 0 or ctx.only_case:
        for j in range(12 if ctx.thorough else 2):
            cid = f"shared:{ctx.shard}:{j}"
            if ctx.want(cid):
                with ctx.guard(240):
                    shared_case(ctx, ctx.rng("shared", ctx.shard, j), cid,
                                same, brief)
    if ctx.shard % 4 == 2 or ctx.only_case:
        for j in range(4 if ctx.thorough else 1):
            cid = f"largedet:{ctx.shard}:{j}"
            if ctx.want(cid):
                with ctx.guard(240):
                    large_deterministic_case(
                        ctx, ctx.rng("largedet", ctx.shard, j), cid)
    if ctx.shard % 4 == 1 or ctx.only_case:
        for j in range(40 if ctx.thorough else 6):
            cid = f"args:{ctx.shard}:{j}"
            if ctx.want(cid):
                with ctx.guard(120):
                    argument_case(ctx, ctx.rng("args", ctx.shard, j), cid)


def large_deterministic_case(ctx, r, cid):
    """Deterministic constructions on inputs large enough for "fast"
    (sampling) code paths: the same request gives the same object whatever
    state the process-wide generators are in."""
    import random as _pyr
    from pyunicorn.timeseries import RecurrencePlot, RecurrenceNetwork
    n = int(r.choice([1025, 1100]))
    x = np.round(r.normal(size=n) * 64) / 64
    rate = float(r.choice([0.03, 0.05]))
    for cls_ in (RecurrencePlot, RecurrenceNetwork):
        mats = []
        for sd in (11, 22):
            np.random.seed(sd)
            _pyr.seed(sd)
            with warnings.catch_warnings():
                warnings.simplefilter("ignore")
                ok, o = ctx.call(cls_, x.copy(), recurrence_rate=rate,
                                 silence_level=3)
            ctx.evals()
            if not ok:
                ctx.count("rejected")
                break
            mats.append(np.asarray(o.recurrence_matrix()).copy())
        ctx.count("large_deterministic_constructions")
        if len(mats) == 2:
            ctx.nontrivial(("largedet", cls_.__name__, n, rate))
            if not np.array_equal(mats[0], mats[1]):
                ctx.violation(f"{cls_.__name__}:<constructor>:depends-on-the-"
                              "global-random-generator",
                              {"n": n, "recurrence_rate": rate,
                               "entries_differing": int(
                                   (mats[0] != mats[1]).sum())}, cid)


def sequence_case(ctx, sub, r, cid, call, agree, SC, S, snapshot, brief,
                  is_spectral, spectral_defined):
    from pvm.mon.reflect import same
    # 40 % of the network-type objects are used the way their owner has
    # customised them after construction: own node weights, a link and a
    # node attribute of the owner's (every baseline object gets the same)
    custom_seed = int(r.integers(1 << 30)) if r.random() < 0.4 else None
    _plain_build = sub.build

    class _Sub:
        def __getattr__(self, k):
            return getattr(sub_orig, k)

        def build(self, mm):
            o = _plain_build(mm)
            if custom_seed is None or not hasattr(o, "set_link_attribute") \
                    or not hasattr(o, "sp_A"):
                return o
            rc = np.random.default_rng(custom_seed)
            n = int(o.N)
            A = np.asarray(o.adjacency)
            W = np.round(rc.uniform(0.5, 4.0, (n, n)) * 8) / 8
            if not o.directed:
                W = np.triu(W, 1)
                W = W + W.T
            o.node_weights = np.round(rc.uniform(0.5, 3.0, n) * 8) / 8
            if A.any():
                o.set_link_attribute("owner_w", W * (A != 0))
            o.set_node_attribute("owner_tag", list(range(n)))
            return o
    sub_orig, sub = sub, _Sub()
    try:
        with ctx.quiet():
            m = sub.gen(r)
            # (the caller may hold its matrices in another memory layout:
            #  column-major, or as a window of a larger buffer)
            if r.random() < 0.3:
                from pvm.gen.held import as_held
                for key in list(m):
                    if isinstance(m[key], np.ndarray) and m[key].ndim == 2 \
                            and m[key].dtype.kind in "fiub":
                        m[key], tag = as_held(r, m[key], ("f", "view"))
                        ctx.count("caller_layout:" + tag)
            inputs = arrays_of(m)
            ledger_in = snap_arrays(inputs)
            obj = sub.build(m)
    except Exception as e:  # noqa
        ctx.count(f"initial_build_raises:{sub.name}:{type(e).__name__}")
        return
    # (a) constructor must not modify the caller's arrays
    for key, arr in inputs.items():
        ctx.count("input_arrays_checked")
        ctx.nontrivial((sub.name, "input", key, cid))
        if not same_bytes(arr, ledger_in[key]):
            ctx.violation(f"{sub.name}:<constructor>:mutates-caller-input:"
                          f"{key}", {"class": sub.name, "input": key}, cid)
            ledger_in[key] = arr.copy()
    SC.forget_values()
    allq = sub.queries(obj, m)
    culprit_only = list(CULPRITS.get(sub.name, []))
    if hasattr(obj, "sp_A") and sub.name not in (
            "ResNetwork", "InterSystemRecurrenceNetwork",
            "RecurrenceNetwork", "JointRecurrenceNetwork"):
        culprit_only += NET_CULPRITS
    if sub.name in ("RecurrenceNetwork",):
        culprit_only += CULPRITS["RecurrencePlot"]
    # the documented ways of dropping caches by hand: neutral, every answer
    # must stay what it is (and whatever is recomputed afterwards must not
    # undo anything the owner has set)
    for nm in ("cache_clear", "clear_cache"):
        if callable(getattr(obj, nm, None)):
            culprit_only.append(
                (nm, lambda o, nm=nm: getattr(o, nm)()))
    clearers = list(culprit_only[-2:]) if culprit_only and \
        culprit_only[-1][0] in ("cache_clear", "clear_cache") else []
    clearers = [c for c in clearers if c[0] in ("cache_clear", "clear_cache")]
    owner_q = []
    nq = 60 if ctx.thorough else 40
    idx = r.permutation(len(allq))[:nq]
    Q = [allq[i] for i in idx]
    if custom_seed is not None and hasattr(obj, "set_link_attribute") \
            and hasattr(obj, "sp_A"):
        ctx.count("objects_customised_by_owner")
        Q += [q for q in allq if q[0] in ("attr:node_weights",
                                          "attr:adjacency") and q not in Q]
        if np.asarray(obj.adjacency).any():
            Q.append(("link_attribute(owner_w)",
                      lambda o: o.link_attribute("owner_w")))
        Q.append(("node_attribute(owner_tag)",
                  lambda o: list(o.node_attribute("owner_tag"))))
        owner_q = [q for q in Q if q[0] in (
            "attr:node_weights", "attr:adjacency", "link_attribute(owner_w)",
            "node_attribute(owner_tag)")]
    # class-specific queries (two-group measures, effective resistances,
    # twins, ...) always take part
    extra_labels = {lb for lb, _ in sub.extra_queries(obj, m)}
    Q += [q for q in allq if q[0] in extra_labels and q not in Q]
    spectral_ok = spectral_defined(obj)
    Q = [q for q in Q if not is_spectral(q[0]) or spectral_ok]
    # baseline: each query on its own fresh object
    base = {}
    nondet = set()
    for label, q in Q:
        with ctx.quiet():
            f1 = sub.build(m)
        b1 = call(q, f1)
        base[label] = (b1[0], snapshot(b1[1]))
    # determinism probe on a second fresh object for a sample of queries
    for label, q in Q[::3]:
        with ctx.quiet():
            f2 = sub.build(m)
        if not agree(call(q, f2), base[label])[1]:
            nondet.add(label)
            ctx.count("nondeterministic_culprit_only")
        # the process-wide random generators belong to the user: a query
        # may draw from them, it must not put them into a state of its own
        # (started from two different states it must not end in the same)
        import random as _pyr
        ends = []
        for sd in (1001, 2002):
            with ctx.quiet():
                f3 = sub.build(m)
            np.random.seed(sd)
            _pyr.seed(sd)
            with warnings.catch_warnings():
                warnings.simplefilter("ignore")
                ctx.call(q, f3)
            st = np.random.get_state()
            ends.append((st[1].tobytes(), st[2], _pyr.getstate()))
        ctx.count("generator_state_probes")
        if ends[0][:2] == ends[1][:2] or ends[0][2] == ends[1][2]:
            ctx.violation(f"{sub.name}:{label}:resets-the-global-random-"
                          "generator", {"class": sub.name, "query": label},
                          cid)
    seq = [(lb, q, False) for lb, q in Q] + \
        [(lb, q, True) for lb, q in culprit_only]
    order = r.permutation(len(seq))
    seq = [seq[i] for i in order]
    # caches are dropped by hand twice more somewhere in the sequence, and
    # what the owner has set is read once more at the very end
    for c in clearers * 2:
        seq.insert(int(r.integers(0, len(seq) + 1)), (c[0], c[1], True))
    seq += [(lb, q, False) for lb, q in owner_q]
    ctx.count(f"seq:{sub.name}")
    returned = []       # (label, live object, snapshot)
    done = []
    touched = {}
    for pos, (label, q, culprit) in enumerate(seq):
        mk = SC.mark()
        del SC.MODIFIED[:]
        res = call(q, obj)
        for cn_, mn_ in set(SC.MODIFIED):
            # a memoised value was handed out again and is no longer what
            # it was when it was stored (some earlier query edited it)
            ctx.violation(f"{sub.name}:{cn_}.{mn_}:memoised-value-modified",
                          {"class": sub.name, "query": label,
                           "sequence": [x[0] for x in seq[:pos + 1]]}, cid)
        del SC.MODIFIED[:]
        touched[label] = {(e[0], e[1]) for e in SC.EVENTS[mk:]}
        ctx.evals()
        # (a') inputs still intact
        for key, arr in inputs.items():
            if not same_bytes(arr, ledger_in[key]):
                ctx.violation(f"{sub.name}:{label}:mutates-caller-input:{key}",
                              {"class": sub.name, "input": key,
                               "sequence": [x[0] for x in seq[:pos + 1]]},
                              cid)
                ledger_in[key] = arr.copy()
        # (d) previously returned objects unchanged
        for (lb0, live, snap) in returned:
            ctx.count("ledger_verifications")
            c, e = same(live, snap, rtol=0, atol=0)
            if c and not e:
                ctx.violation(
                    f"{sub.name}:{label}->{lb0}:mutates-returned-object",
                    {"class": sub.name, "culprit": label, "victim": lb0,
                     "now": brief(live), "was": brief(snap),
                     "model": {kk: brief(vv) for kk, vv in m.items()}}, cid)
        returned = [(lb0, live, snapshot(live)) for (lb0, live, _)
                    in returned]
        if res[0] and isinstance(res[1], np.ndarray) and len(returned) < 40:
            returned.append((label, res[1], snapshot(res[1])))
        for prev in done:
            ctx.count("ordered_pairs_executed")
            if touched.get(prev, set()) & touched[label]:
                ctx.nontrivial((sub.name, prev, label))
        if culprit or label in nondet:
            done.append(label)
            continue
        # (c) equals the baseline?
        comparable, eq = agree(res, base[label])
        if comparable and not eq:
            # name the culprit: each earlier call alone, then the victim
            culprit_name = None
            for (lb0, q0, _) in seq[:pos]:
                with ctx.quiet():
                    f = sub.build(m)
                call(q0, f)
                if not agree(call(q, f), base[label])[1]:
                    culprit_name = lb0
                    break
            if culprit_name is None:
                # not reproducible with a single predecessor: re-check that
                # the baseline itself is reproducible
                with ctx.quiet():
                    f = sub.build(m)
                if not agree(call(q, f), base[label])[1]:
                    ctx.count("nondeterministic_culprit_only")
                    done.append(label)
                    continue
                culprit_name = "<several-calls>"
            ctx.violation(
                f"{sub.name}:{culprit_name}->{label}:changes-later-result",
                {"class": sub.name, "culprit": culprit_name, "victim": label,
                 "after_sequence": brief(res[1]),
                 "baseline_fresh_object": brief(base[label][1]),
                 "model": {kk: brief(vv) for kk, vv in m.items()}}, cid)
        # repeated query
        res2 = call(q, obj)
        c2, e2 = agree(res2, res)
        if c2 and not e2:
            ctx.violation(f"{sub.name}:{label}:repeated-query-differs",
                          {"class": sub.name, "first": brief(res[1]),
                           "second": brief(res2[1])}, cid)
        done.append(label)
    if len(ctx.samples) < 4:
        ctx.sample({"class": sub.name, "sequence": [x[0] for x in seq][:12],
                    "inputs": list(inputs)})


def history_case(ctx, sub, r, cid, call, agree, brief):
    """What an object answers depends on its state, not on what it was asked
    on the way there: one object is taken through a few state changes and is
    asked things in between, two others go through the same changes
    unasked; in the end all three answer everything alike."""
    try:
        muts = list(sub.mutators())
    except NotImplementedError:
        muts = []
    if not muts:
        ctx.count("history_no_state_changes:" + sub.name)
        return
    try:
        with ctx.quiet():
            m = sub.gen(r)
            objs = [sub.build(m) for _ in range(3)]
    except Exception as e:  # noqa
        ctx.count(f"initial_build_raises:{sub.name}:{type(e).__name__}")
        return
    asked, hist = [], []
    for step in range(int(r.integers(2, 5))):
        allq = sub.queries(objs[0], m)
        for i in r.permutation(len(allq))[:int(r.integers(1, 6))]:
            asked.append(allq[i][0])
            call(allq[i][1], objs[0])
            ctx.evals()
        name, fn = muts[int(r.integers(len(muts)))]
        sd = int(r.integers(1 << 30))
        outs = []
        for o in objs:
            with ctx.quiet(), warnings.catch_warnings():
                warnings.simplefilter("ignore")
                outs.append(ctx.call(fn, o, m, np.random.default_rng(sd)))
        hist.append(name)
        if not all(ok for ok, _ in outs):
            if len({ok for ok, _ in outs}) > 1:
                ctx.violation(f"{sub.name}:{name}:accepted-or-not-depends-"
                              "on-earlier-queries",
                              {"class": sub.name, "asked": asked,
                               "history": hist}, cid)
            ctx.count("history_ended_by_refusal")
            return
        m = outs[0][1]
    ctx.count("histories_with_and_without_queries")
    ctx.count("history:" + sub.name)
    for label, q in sub.queries(objs[0], m):
        a, b, b2 = (call(q, o) for o in objs)
        ctx.evals()
        c0, e0 = agree(b, b2)
        if not c0 or not e0:
            ctx.count("history_query_not_deterministic")
            continue
        ctx.count("history_answers_compared")
        ctx.nontrivial((sub.name, "hist", label, tuple(hist)))
        c, e = agree(a, b)
        if c and not e:
            ctx.violation(
                f"{sub.name}:{label}:depends-on-queries-asked-before-"
                f"{hist[-1]}",
                {"class": sub.name, "asked_in_between": asked,
                 "history": hist, "asked": brief(a[1]),
                 "unasked": brief(b[1])}, cid)


def shared_case(ctx, r, cid, same, brief):
    """One ClimateData / GeoGrid shared by several derived networks."""
    from pyunicorn import climate as C
    from pvm.gen.objects import climate_data
    n, T = int(r.integers(4, 8)), 36
    obs = np.round((r.normal(size=(T, n)) + np.outer(
        np.sin(np.arange(T) * np.pi / 6), r.normal(size=n))) * 32) / 32
    obs0 = obs.copy()
    lat = np.round(r.uniform(-70, 70, n))
    lon = np.round(r.uniform(-170, 170, n))
    cd = climate_data(obs, lat, lon, cycle=12)
    probes = {
        "observable": lambda: cd.observable(),
        "anomaly": lambda: cd.anomaly(),
        "phase_mean": lambda: cd.phase_mean(),
        "grid.angular_distance": lambda: cd.grid.angular_distance(),
        "grid.lat_sequence": lambda: cd.grid.lat_sequence(),
        "grid.cos_lat": lambda: cd.grid.cos_lat(),
    }
    with ctx.quiet():
        snaps = {k: np.array(f(), copy=True) for k, f in probes.items()}
    classes = [("TsonisClimateNetwork", dict(winter_only=False)),
               ("SpearmanClimateNetwork", dict(winter_only=False)),
               ("MutualInfoClimateNetwork", dict(winter_only=False)),
               ("PartialCorrelationClimateNetwork", dict(winter_only=False)),
               ("HavlinClimateNetwork", dict(max_delay=3)),
               ("HilbertClimateNetwork", dict()),
               ("RainfallClimateNetwork", dict(scale_fac=1.0, offset=0.0)),
               ("TsonisClimateNetwork", dict(winter_only=True))]
    # a second record for the two-layer networks: of the same length or
    # not (the constructor then declines, both records stay what they are)
    T2 = T if r.random() < 0.5 else int(r.choice([24, 30, 48]))
    n2 = int(r.integers(3, 6))
    obs2 = np.round(r.normal(size=(T2, n2)) * 32) / 32
    cd2 = climate_data(obs2, np.round(r.uniform(-70, 70, n2)),
                       np.round(r.uniform(-170, 170, n2)), cycle=12)
    probes.update({
        "second.observable": lambda: cd2.observable(),
        "second.anomaly": lambda: cd2.anomaly(),
        "second.window": lambda: np.array(
            [v for _, v in sorted(cd2.window().items())], dtype=float),
        "window": lambda: np.array(
            [v for _, v in sorted(cd.window().items())], dtype=float),
        "second.grid.lat_sequence": lambda: cd2.grid.lat_sequence(),
    })
    with ctx.quiet():
        snaps = {k: np.array(f(), copy=True) for k, f in probes.items()}
    classes.append(("CoupledTsonisClimateNetwork", dict(_second=True)))
    if T2 != T:
        ctx.count("shared_two_layer_unequal_lengths")
    order = r.permutation(len(classes))
    for i in order:
        cname, kw = classes[i]
        kw = dict(kw)
        args = (cd, cd2) if kw.pop("_second", False) else (cd,)
        with warnings.catch_warnings():
            warnings.simplefilter("ignore")
            with ctx.quiet():
                ok, net = ctx.call(getattr(C, cname), *args, threshold=0.3,
                                   silence_level=3, **kw)
            ok = ok and hasattr(net, "sp_A")
            if ok:
                for m in ("degree", "nsi_degree", "link_density_function",
                          "correlation_distance",
                          "inv_correlation_distance",
                          "correlation_distance_weighted_closeness"):
                    try:
                        f = getattr(net, m)
                        ctx.call(f, 10) if m == "link_density_function" \
                            else ctx.call(f)
                    except Exception:  # noqa
                        pass
        ctx.evals()
        for k, f in probes.items():
            with ctx.quiet():
                now = np.asarray(f())
            ctx.count("shared_data_checks")
            ctx.nontrivial((cname, k, cid))
            if now.shape != snaps[k].shape or not np.array_equal(
                    now, snaps[k], equal_nan=True):
                ctx.violation(f"{cname}:<constructor>->ClimateData.{k}:"
                              "mutates-shared-object",
                              {"culprit": cname, "victim": k,
                               "built_ok": ok, "now": brief(now),
                               "was": brief(snaps[k])}, cid)
                snaps[k] = np.array(now, copy=True)
        ctx.count("input_arrays_checked")
        if not np.array_equal(obs, obs0):
            ctx.violation(f"{cname}:<constructor>:mutates-caller-input:"
                          "observable", {"culprit": cname}, cid)
            obs0 = obs.copy()


def argument_case(ctx, r, cid):
    """Arrays passed as arguments of queries / static helpers."""
    from pyunicorn.core import GeoGrid, Network, InteractingNetworks
    from pyunicorn.timeseries import (RecurrencePlot, Surrogates,
                                      VisibilityGraph, CrossRecurrencePlot,
                                      RecurrenceNetwork, JointRecurrencePlot)
    from pyunicorn.funcnet import CouplingAnalysis
    from pyunicorn.eventseries import EventSeries
    n = int(r.integers(5, 10))
    lat = np.round(r.uniform(-60, 60, n))
    lon = np.round(r.uniform(0, 300, n))
    g = GeoGrid(np.arange(3.), lat, lon, silence_level=3)
    poly = np.array([-50., 10., 50., 10., 50., 200., -50., 200.])
    x = np.round(r.normal(size=30) * 16) / 16
    X = np.round(r.normal(size=(3, 24)) * 16) / 16
    A = (r.random((n, n)) < 0.4).astype(np.int8)
    A = np.triu(A, 1)
    A = A + A.T
    W = r.uniform(0.5, 2, (n, n)) * A
    ev = (r.random((20, 3)) < 0.3).astype(int)
    data = np.round(r.normal(size=(25, 3)) * 8) / 8
    emb = np.round(r.normal(size=(15, 2)) * 8) / 8
    dist = r.integers(0, 5, 8)
    x32 = np.ascontiguousarray(x, dtype=np.float32)
    X32 = np.ascontiguousarray(emb, dtype=np.float32)
    d32 = np.ascontiguousarray(data, dtype=np.float32)
    lat32, lon32 = np.float32(lat), np.float32(lon)
    nodes1, nodes2 = np.arange(n // 2), np.arange(n // 2, n)
    net = InteractingNetworks(adjacency=A.copy(), silence_level=3)
    net.set_link_attribute("w", W.copy())
    rp = RecurrencePlot(x.copy(), threshold=0.5, silence_level=3)
    from pyunicorn.core import GeoNetwork, Grid, ResNetwork, Data
    from pyunicorn.climate import ClimateNetwork, ClimateData
    latf, lonf = lat.astype(float).copy(), lon.astype(float).copy()
    pos = np.array([0.3, 0.4, np.sqrt(1 - 0.25)])
    sp2 = np.round(r.normal(size=(2, n)) * 8) / 8
    Dm = np.abs(np.subtract.outer(x[:12], x[:12]))
    Sm = np.round(r.uniform(0, 1, (n, n)) * 64) / 64
    Sm = np.maximum(Sm, Sm.T)
    np.fill_diagonal(Sm, 1.0)
    Rm = np.where(A != 0, np.round(r.uniform(1, 4, (n, n)) * 4) / 4, 0.0)
    Rm = np.maximum(Rm, Rm.T)
    if not (Rm.sum(axis=1) > 0).all():
        Rm = Rm + (np.ones((n, n)) - np.eye(n)) * 2.0 * (Rm == 0)
    nw = r.uniform(0.5, 2.0, n)
    el = np.argwhere(np.triu(A))
    if not len(el):
        el = np.array([[0, 1]])
    Sq = (r.integers(-8, 9, size=(3, 3)) / 8.0).astype(np.float32)
    Lq = r.integers(0, 4, size=(3, 3)).astype(np.int32)
    obs = np.round(r.normal(size=(24, n)) * 8) / 8
    g24 = GeoGrid(np.arange(24.), lat, lon, silence_level=3)
    lonq = lonf.copy()
    glon = g.lon_sequence()
    calls = [
        ("GeoGrid.region_indices", [poly], lambda: g.region_indices(poly)),
        # longitudes in the 0..360 convention, the caller's and the grid's
        # own sequence (what the map plots hand over)
        ("GeoGrid.convert_lon_coordinates", [lonq],
         lambda: g.convert_lon_coordinates(lonq)),
        ("GeoGrid.convert_lon_coordinates(own)", [glon],
         lambda: g.convert_lon_coordinates(g.lon_sequence())),
        ("Network.set_link_attribute", [W],
         lambda: Network(adjacency=A.copy(), silence_level=3)
         .set_link_attribute("w", W)),
        ("Network.__init__", [A], lambda: Network(adjacency=A,
                                                  silence_level=3)),
        ("InteractingNetworks.cross_degree", [nodes1, nodes2],
         lambda: net.cross_degree(nodes1, nodes2)),
        ("InteractingNetworks.cross_local_clustering", [nodes1, nodes2],
         lambda: net.cross_local_clustering(nodes1, nodes2)),
        ("InteractingNetworks.cross_betweenness", [nodes1, nodes2],
         lambda: net.cross_betweenness(nodes1, nodes2)),
        ("Network.nsi_betweenness", [nodes1, nodes2],
         lambda: net.nsi_betweenness(sources=nodes1, targets=nodes2)),
        ("RecurrencePlot.__init__", [x],
         lambda: RecurrencePlot(x, threshold=0.5, silence_level=3)),
        # inputs that already have the library's internal dtype/layout are
        # the ones a conversion without copy would alias
        ("RecurrencePlot.__init__[float32]", [x32],
         lambda: RecurrencePlot(x32, threshold=0.5, silence_level=3)),
        ("RecurrencePlot.__init__[float32,normalize]", [x32],
         lambda: RecurrencePlot(x32, threshold=0.5, normalize=True,
                                silence_level=3)),
        ("RecurrencePlot.__init__[float32,2d,normalize]", [X32],
         lambda: RecurrencePlot(X32, threshold=0.5, normalize=True,
                                silence_level=3)),
        ("RecurrenceNetwork.__init__[float32,normalize]", [x32],
         lambda: RecurrenceNetwork(x32, recurrence_rate=0.2, normalize=True,
                                   silence_level=3)),
        ("CrossRecurrencePlot.__init__[float32,normalize]", [x32],
         lambda: CrossRecurrencePlot(x32, x32[:20], threshold=0.5,
                                     normalize=True, silence_level=3)),
        ("JointRecurrencePlot.__init__[float32,normalize]", [x32],
         lambda: JointRecurrencePlot(x32, x32[::-1].copy(),
                                     threshold=(0.5, 0.5), normalize=True,
                                     silence_level=3)),
        ("VisibilityGraph.__init__[float32]", [x32],
         lambda: VisibilityGraph(x32, silence_level=3)),
        ("Surrogates.__init__[float64,normalize_original_data]", [X],
         lambda: Surrogates(X, silence_level=3).original_distribution(
             Surrogates.test_pearson_correlation, n_bins=5)),
        ("CouplingAnalysis.cross_correlation[float32]", [d32],
         lambda: CouplingAnalysis(d32, silence_level=3)
         .cross_correlation(tau_max=2, lag_mode="max")),
        ("GeoGrid.__init__[float32]", [lat32, lon32],
         lambda: GeoGrid(np.arange(3.), lat32, lon32,
                         silence_level=3).angular_distance()),
        ("Network.__init__[int16 csc]", [],
         lambda: Network(adjacency=A.astype(np.int16), silence_level=3)),
        ("RecurrencePlot.__init__[dim,tau]", [x],
         lambda: RecurrencePlot(x, dim=2, tau=1, recurrence_rate=0.2,
                                silence_level=3)),
        ("RecurrencePlot.embed_time_series", [x],
         lambda: RecurrencePlot.embed_time_series(x, 2, 2)),
        ("RecurrencePlot.bootstrap_distance_matrix", [emb],
         lambda: RecurrencePlot.bootstrap_distance_matrix(emb, "supremum",
                                                          5)),
        ("RecurrencePlot.rejection_sampling", [dist],
         lambda: RecurrencePlot.rejection_sampling(dist + 1, 5)),
        ("RecurrencePlot.threshold_from_recurrence_rate", [],
         lambda: rp.threshold_from_recurrence_rate(
             rp.supremum_distance_matrix(), 0.3)),
        ("CrossRecurrencePlot.__init__", [x],
         lambda: CrossRecurrencePlot(x, x[:20], threshold=0.5,
                                     silence_level=3)),
        ("VisibilityGraph.__init__", [x],
         lambda: VisibilityGraph(x, silence_level=3)),
        ("Surrogates.__init__", [X], lambda: Surrogates(X, silence_level=3)),
        ("Surrogates.embed_time_series_array", [X],
         lambda: Surrogates.embed_time_series_array(X, 2, 1,
                                                    silence_level=3)),
        ("Surrogates.recurrence_plot", [emb],
         lambda: Surrogates.recurrence_plot(emb, 0.5, silence_level=3)),
        ("Surrogates.test_pearson_correlation", [X],
         lambda: Surrogates.test_pearson_correlation(X, X)),
        ("Surrogates.test_mutual_information", [X],
         lambda: Surrogates.test_mutual_information(X, X, n_bins=4)),
        ("CouplingAnalysis.cross_correlation", [data],
         lambda: CouplingAnalysis(data, silence_level=3)
         .cross_correlation(tau_max=2, lag_mode="all")),
        ("CouplingAnalysis.mutual_information", [data],
         lambda: CouplingAnalysis(data, silence_level=3)
         .mutual_information(tau_max=1, estimator="binning", bins=3)),
        ("EventSeries.__init__", [ev],
         lambda: EventSeries(ev, taumax=2).event_series_analysis()),
        ("EventSeries.event_synchronization", [ev],
         lambda: EventSeries.event_synchronization(ev[:, 0], ev[:, 1])),
        ("EventSeries.make_event_matrix", [data],
         lambda: EventSeries.make_event_matrix(data, "quantile", 0.8,
                                               "above")),
        # further static helpers / entry points that take the caller's arrays
        ("GeoNetwork.latlon2cartesian", [latf, lonf],
         lambda: GeoNetwork.latlon2cartesian(latf, lonf)),
        ("GeoNetwork.cartesian2latlon", [pos],
         lambda: GeoNetwork.cartesian2latlon(pos)),
        ("Grid.coord_sequence_from_rect_grid", [lat, lon],
         lambda: Grid.coord_sequence_from_rect_grid([lat, lon])),
        ("GeoGrid.coord_sequence_from_rect_grid", [lat, lon],
         lambda: GeoGrid.coord_sequence_from_rect_grid(lat, lon)),
        ("GeoGrid.node_number", [lat, lon],
         lambda: g.node_number((float(lat[0]), float(lon[0])))),
        ("Grid.__init__", [sp2],
         lambda: Grid(np.arange(3.), sp2, silence_level=3)
         .euclidean_distance()),
        ("RecurrencePlot.legendre_coordinates", [x],
         lambda: RecurrencePlot.legendre_coordinates(x, dim=3, tau_w=5)),
        ("RecurrencePlot.threshold_from_recurrence_rate_fast", [Dm],
         lambda: RecurrencePlot.threshold_from_recurrence_rate_fast(
             Dm, 0.3, rr_precision=0.5)),
        ("RecurrencePlot.threshold_from_recurrence_rate[own-matrix]", [Dm],
         lambda: RecurrencePlot.threshold_from_recurrence_rate(Dm, 0.3)),
        ("EventSeries.event_coincidence_analysis", [ev],
         lambda: EventSeries.event_coincidence_analysis(ev[:, 0], ev[:, 1],
                                                        2)),
        ("ClimateNetwork.__init__", [Sm],
         lambda: ClimateNetwork(g, Sm, threshold=0.4, non_local=True,
                                silence_level=3).correlation_distance()),
        ("ResNetwork.__init__", [Rm],
         lambda: ResNetwork(Rm, silence_level=3)
         .effective_resistance(0, 1)),
        ("ResNetwork.update_resistances", [Rm],
         lambda: ResNetwork(Rm.copy(), silence_level=3)
         .update_resistances(Rm)),
        ("Network.node_weights", [nw],
         lambda: setattr(Network(adjacency=A.copy(), silence_level=3),
                         "node_weights", nw)),
        ("Network.set_edge_list", [el],
         lambda: Network(edge_list=el, n_nodes=n, silence_level=3)),
        ("CouplingAnalysis.symmetrize_by_absmax", [Sq, Lq],
         lambda: CouplingAnalysis(data.copy(), silence_level=3)
         .symmetrize_by_absmax(Sq, Lq)),
        ("Data.__init__", [obs],
         lambda: Data(obs, g24, silence_level=3).observable()),
        ("ClimateData.__init__", [obs],
         lambda: ClimateData(obs, g24, time_cycle=12,
                             silence_level=3).anomaly()),
    ]
    # static helpers that take the caller's field
    from pyunicorn.climate import RainfallClimateNetwork as _RCN
    rain = np.abs(np.round(r.normal(size=(12, 5)) * 8) / 8)
    rainF = np.asfortranarray(rain.copy())
    calls += [
        ("RainfallClimateNetwork.calculate_top_events", [rain],
         lambda: _RCN.calculate_top_events(rain, (0, 1))),
        ("RainfallClimateNetwork.calculate_top_events[fortran]", [rainF],
         lambda: _RCN.calculate_top_events(rainF, (0, 1))),
        ("RainfallClimateNetwork.calculate_rainfall", [rain],
         lambda: _RCN.calculate_rainfall(rain, 2.0, 0.5)),
        ("RainfallClimateNetwork.rank_time_series", [rain],
         lambda: _RCN.rank_time_series(rain)),
    ]
    for vt in ("float64", "float32", "int32", "int16", "uint8"):
        fld = np.round(r.normal(size=(6, 4)) * 8) / 8
        calls.append((f"Data.rescale[{vt}]", [fld],
                      lambda fld=fld, vt=vt: Data.rescale(fld, vt)))
    # node lists given as Python lists the caller keeps (e.g. the nodes_1 /
    # nodes_2 attributes of a coupled network)
    l1, l2 = [int(v) for v in nodes1], [int(v) for v in nodes2]
    for mname in ("cross_degree", "cross_local_clustering",
                  "cross_local_clustering_sparse",
                  "cross_global_clustering_sparse",
                  "cross_transitivity_sparse", "cross_adjacency_sparse",
                  "cross_closeness", "cross_average_path_length",
                  "cross_betweenness", "nsi_cross_degree",
                  "nsi_cross_local_clustering", "number_cross_links",
                  "cross_link_density", "internal_degree",
                  "internal_closeness"):
        b1, b2 = list(l1), list(l2)
        f = getattr(net, mname)
        with warnings.catch_warnings():
            warnings.simplefilter("ignore")
            ctx.call(f, l1) if mname.startswith("internal") \
                else ctx.call(f, l1, l2)
        ctx.evals()
        ctx.count("input_lists_checked")
        if l1 != b1 or l2 != b2:
            ctx.violation(f"InteractingNetworks.{mname}:mutates-caller-"
                          "list", {"now": [l1, l2], "was": [b1, b2]}, cid)
            l1[:], l2[:] = b1, b2
    # a window dictionary of the caller (with the "equal bounds = whole
    # range" convention on some axes) handed to two data objects in turn
    from pyunicorn.core import Data
    from pyunicorn.climate import ClimateData
    for cls_ in (Data, ClimateData):
        win = {"time_min": 0.0, "time_max": 0.0, "lat_min": 0.0,
               "lat_max": 0.0, "lon_min": 0.0, "lon_max": 0.0}
        if r.random() < 0.5:
            win.update(time_min=2.0, time_max=9.0)
        if r.random() < 0.5:
            win.update(lat_min=-90.0, lat_max=90.0, lon_min=-10.0,
                       lon_max=400.0)
        win0 = dict(win)
        for T_ in (12, 30):
            g_ = GeoGrid(np.arange(float(T_)), lat, lon, silence_level=3)
            obs_ = np.round(r.normal(size=(T_, n)) * 8) / 8
            kw_ = {"time_cycle": 3} if cls_ is ClimateData else {}
            with warnings.catch_warnings():
                warnings.simplefilter("ignore")
                okd, d_ = ctx.call(cls_, observable=obs_, grid=g_,
                                   window=win, silence_level=3, **kw_)
                if okd:
                    ctx.call(d_.set_window, win)
            ctx.evals()
            ctx.count("window_dicts_checked")
            if win != win0:
                ctx.violation(f"{cls_.__name__}.set_window:mutates-caller-"
                              "window-dictionary",
                              {"now": dict(win), "was": win0}, cid)
                win.clear()
                win.update(win0)
    # recurrence_plot's rp.supremum_distance_matrix() is a cached array
    cached_D = rp.supremum_distance_matrix()
    cached_D0 = cached_D.copy()
    for label, arrs, fn in calls:
        before = [a.copy() for a in arrs]
        with warnings.catch_warnings():
            warnings.simplefilter("ignore")
            np.random.seed(3)
            ctx.call(fn)
        ctx.evals()
        for i, (a, b) in enumerate(zip(arrs, before)):
            ctx.count("input_arrays_checked")
            ctx.nontrivial((label, i, cid))
            if not same_bytes(a, b):
                ctx.violation(f"{label}:mutates-caller-input:arg{i}",
                              {"call": label, "now": a, "was": b}, cid)
                a[...] = b
        if not np.array_equal(cached_D, cached_D0):
            ctx.violation(f"{label}->RecurrencePlot.supremum_distance_matrix"
                          ":mutates-returned-object", {"call": label}, cid)
            cached_D0 = cached_D.copy()


_ = copy
