"""C09 -- similarity networks link exactly the pairs above the threshold.

Signatures: "<class>.<operation>:<relation broken|raises:<Exc>>[:<input class>]"
-- mechanism only (class, the public operation after which the monitor ran,
the relation that broke, and the input class computed from the event itself:
":non_local" damping switched on, ":directed" directed object,
":arbitrary-diagonal" the similarity's diagonal is not its maximum,
":asymmetric-similarity" an undirected class holds an asymmetric similarity,
":phase-directed" directed Hilbert network whose links are additionally masked
by the sign of the phase shift)."""
import warnings

import numpy as np

from pvm.gen import objects as go
from pvm.mon.invariants import net_invariant

META = dict(
    shards={"quick": 8, "thorough": 16},
    budget={"quick": 45, "thorough": 480},
    timeout={"quick": 600, "thorough": 3000},
    rule=("cases: (1) ClimateNetwork / CoupledClimateNetwork on seeded "
          "similarity matrices with entries k/64, |k|<=64 (exact in float32; "
          "3, 9 or 129 levels so that ties, zeros and negative entries are "
          "common), N=2..9 (quick) / ..16 (thorough), input classes: symmetric "
          "with diagonal = maximum (main class, undirected or directed), "
          "symmetric with arbitrary diagonal (reported under "
          "':arbitrary-diagonal'), asymmetric with directed=True, and a "
          "float-valued symmetric class (uniform float64 entries, unit "
          "diagonal, duplicated pairs) whose thresholds also sit at relative "
          "distance 3e-5 from an occurring value (far above float32 "
          "spacing, far below float16 spacing); clustered "
          "geographic grids (node pairs 0..0.3 rad apart so that the "
          "tanh damping matters) ; non_local on/off.  Per case: constructor "
          "with threshold and with link_density; an increasing sweep of "
          "set_threshold over -1/64, 0, every on-grid value k/64 that occurs "
          "and mid-grid values k/64+1/128 (python float / np.float32 / "
          "np.float64 / int thresholds); set_link_density for rho in {0, 1, "
          "j/(N^2-N), uniform}; a random history of set_threshold / "
          "set_link_density / set_non_local (length 2..5 quick, ..10 "
          "thorough); direct _calculate_non_local_adjacency with other "
          "documented (a, d_min).  After EVERY constructor/setter: "
          "threshold() echo (equal to the argument, resp. to "
          "sorted(|S|.flat)[int((1-rho)(N^2-N))]), non_local() echo, "
          "similarity_measure() unchanged (= abs(float32(S))), the network "
          "invariant I_net (n_links, link_density, sp_A, graph, symmetry, "
          "empty diagonal ...), adjacency == [i!=j and fl32|S_ij| * w_ij > "
          "threshold()] with w = 1 or 0.5(tanh(a(d-d_min))+1) from the "
          "library's float32 angular distances evaluated in float64 -- "
          "damped pairs closer than 1e-4 (relative) to the threshold are "
          "not compared (counted as undecided) --, symmetric similarity => "
          "symmetric adjacency and directed flag as requested, link set "
          "shrinks monotonically along the sweep, realised density <= rho "
          "and (non_local off) rho - realised <= #{off-diagonal entries "
          "equal to the selected threshold}/(N^2-N) (+1e-9).  (2) data-derived "
          "subclasses Tsonis, Spearman, PartialCorrelation, MutualInfo, "
          "Hilbert (undirected and directed; for the directed one the "
          "oracle is rule AND phase_shift()>0, the class's documented "
          "directionality), Havlin, Rainfall, CoupledTsonis, "
          "EventSeriesClimateNetwork (ES/ECA, all symmetrisations, "
          "constructor threshold fixed at 0) on random ClimateData (T=24..60, N=4..9, cycle 12, "
          "winter_only=False): same monitors against the object's own "
          "similarity_measure(), thresholds placed mid-way between distinct "
          "similarity values that are > 1e-3 (relative) apart, constructor "
          "with threshold and with link_density, then set_threshold / "
          "set_link_density / set_non_local.  non-trivial = distinct "
          "(similarity, grid, non_local, threshold) state whose oracle "
          "adjacency has both a linked and an unlinked off-diagonal pair."),
    floors={"quick": {"states_checked": 20000, "strict_ties_exercised": 6000,
                      "monotone_steps": 8000, "density_bound_checked": 6000,
                      "density_with_ties": 2000, "nonlocal_effective": 3000,
                      "history_steps": 3000, "history:set_non_local": 900,
                      "directed_asymmetric_states": 5000,
                      "negative_similarity_states": 12000,
                      "ctor_link_density": 900, "coupled_states": 1000,
                      "direct_nonlocal_compared": 300,
                      "float_valued_cases": 100,
                      "near_threshold_states": 400,
                      "subclass_states": 4000,
                      "subclass_density_checked": 1500,
                      "subclass_states:TsonisClimateNetwork": 400,
                      "subclass_states:SpearmanClimateNetwork": 400,
                      "subclass_states:PartialCorrelationClimateNetwork": 400,
                      "subclass_states:MutualInfoClimateNetwork": 400,
                      "subclass_states:HilbertClimateNetwork": 400,
                      "subclass_states:HilbertClimateNetwork:directed": 100,
                      "subclass_states:HavlinClimateNetwork": 400,
                      "subclass_states:RainfallClimateNetwork": 400,
                      "subclass_states:CoupledTsonisClimateNetwork": 400,
                      "subclass_states:EventSeriesClimateNetwork": 300},
            "thorough": {"states_checked": 300000,
                         "strict_ties_exercised": 100000,
                         "monotone_steps": 100000,
                         "density_bound_checked": 100000,
                         "density_with_ties": 60000,
                         "nonlocal_effective": 60000, "history_steps": 60000,
                         "history:set_non_local": 20000,
                         "directed_asymmetric_states": 80000,
                         "negative_similarity_states": 200000,
                         "ctor_link_density": 12000, "coupled_states": 14000,
                         "direct_nonlocal_compared": 4000,
                         "float_valued_cases": 1200,
                         "near_threshold_states": 5000,
                         "subclass_states": 50000,
                         "subclass_density_checked": 20000,
                         "subclass_states:TsonisClimateNetwork": 6000,
                         "subclass_states:SpearmanClimateNetwork": 6000,
                         "subclass_states:PartialCorrelationClimateNetwork":
                             6000,
                         "subclass_states:MutualInfoClimateNetwork": 5000,
                         "subclass_states:HilbertClimateNetwork": 6000,
                         "subclass_states:HilbertClimateNetwork:directed":
                             1500,
                         "subclass_states:HavlinClimateNetwork": 6000,
                         "subclass_states:RainfallClimateNetwork": 6000,
                         "subclass_states:CoupledTsonisClimateNetwork": 6000,
                         "subclass_states:EventSeriesClimateNetwork": 4500}},
    exhaustive_subspaces={"quick": [], "thorough": []},
    assumptions=[
        "similarities and prescribed thresholds are multiples of 1/128 with "
        "|.|<=1.01, exact in float32, so float32-vs-float64 comparison "
        "semantics of numpy coincide; thresholds chosen by the library from "
        "a link density are float32 entries of the similarity matrix itself",
        "the library's own float32 grid.angular_distance() is taken as the "
        "distance (its accuracy is C12's subject); the damping is "
        "re-evaluated in float64 and pairs within 1e-4 relative of the "
        "threshold are not decided",
        "the quantile rule is the documented one: "
        "sorted(S.flat)[int((1-rho)(N^2-N))] evaluated with the same "
        "floating-point expression; the two density bounds are checked "
        "from link counts only and do not depend on that expression",
        "density bound claimed for similarities whose diagonal is their "
        "maximum; other matrices are run and reported under "
        "':arbitrary-diagonal'",
        "subclasses: only the thresholding of the object's own "
        "similarity_measure() is examined here (the estimates themselves "
        "belong to C10)",
    ],
    technique="runtime monitoring: independent thresholding oracle + class "
              "invariant after every constructor/setter, monotone sweeps, "
              "density bounds from link counts",
    level_text="every sampled similarity matrix / history satisfied the "
               "thresholding rule, the invariant and the density bounds",
    level_note="trusted: numpy comparison/sort on float32-exact values, "
               "pvm.mon.invariants, the library's angular distances",
)

META["rule"] += (
    " " + 'Added after the second round of seeded changes: read-only queries (distance-weighted measures, similarity, degree) are interleaved with the setters of a history; every 24th base case has N in {31,32,33,63,64,65} (thorough also 127,128,129,257).')

META["rule"] += (
    " " + 'Added later: `HilbertClimateNetwork.set_directed` as a history step; `clear_cache` / `cache_clear` and reads of the derived matrices (phase shift, coherence, correlation lag / strength) between setters.')

META["rule"] += (
    " " + "Added after the fifth round: family 'undefined entries' (explicit matrices with NaN rows / pairs, Tsonis / Spearman networks of data with constant series; threshold mode): defined pairs follow the rule on the absolute value, undefined ones are never linked; before half of the re-derivations a known threshold is set, every other time exactly 0 (int, float, float32), and the state afterwards is judged against it; switches as bool / np.bool_ / 0-1.")

META["rule"] += (
    " " + 'Added after the seventh round: the event thresholds of RainfallClimateNetwork are drawn ((0,1), (0.5,1), (0.8,1.0), (0.25,0.9)); answers handed out before a setter stay what they were.')

META["rule"] += (
    " " + 'Added after the eighth round: geographical queries between the setters; coincident pairs in a quarter and whole-degree antipodes in a fifth of the grids; the distance matrix the damping is evaluated on is compared coarsely (2e-3 rad) with the great-circle distance of the coordinates.')

G = 64.0
GUARD = 1e-4


# --------------------------------------------------------------------------
# oracle (numpy only)
# --------------------------------------------------------------------------
def damping(D, a=20.0, d_min=0.05):
    return 0.5 * (np.tanh(a * (np.asarray(D, dtype=np.float64) - d_min)) + 1)


def rule(S32, theta, W=None):
    """-> (A bool, decided bool).  S32: abs float32 similarity."""
    S = np.asarray(S32, dtype=np.float64)
    th = float(theta)
    n = S.shape[0]
    off = ~np.eye(n, dtype=bool)
    if W is None:
        return (S > th) & off, np.ones((n, n), bool)
    V = S * W
    near = np.abs(V - th) <= GUARD * np.maximum(np.abs(V), abs(th))
    decided = ~near | (S == 0) | ~off
    return (V > th) & off, decided


def quantile_theta(S32, rho):
    """The documented selection sorted(S.flat)[int((1-rho)(N^2-N))] and the
    same quantile taken over the off-diagonal entries only (identical link
    set whenever the diagonal is the maximum; the two differ in value only
    when the index reaches the diagonal block, i.e. rho ~ 0)."""
    n = S32.shape[0]
    M = n * n - n
    k = int((1 - rho) * M)
    flat = np.sort(np.asarray(S32).ravel())
    offd = np.sort(np.asarray(S32)[~np.eye(n, dtype=bool)])
    return [flat[k], offd[min(k, M - 1)]]


def diag_is_max(S32):
    n = S32.shape[0]
    off = ~np.eye(n, dtype=bool)
    return bool(np.min(np.diagonal(S32)) >= np.max(S32[off])) if n > 1 \
        else True


# --------------------------------------------------------------------------
# model of one object under test
# --------------------------------------------------------------------------
class Model:
    def __init__(self, cname, S32, D, directed, nl, mask=None, sub=False):
        self.cname = cname
        self.label = cname
        self.S32 = np.array(S32, dtype=np.float32, copy=True)
        self.D = np.array(D, dtype=np.float64, copy=True)
        self.W = damping(self.D)
        self.directed = bool(directed)
        self.nl = bool(nl)
        self.theta = None          # expected echo
        self.theta_alt = None      # acceptable alternatives (see quantile)
        self.mask = mask           # extra link mask (directed Hilbert)
        self.sub = sub
        self.sym = bool(np.array_equal(self.S32, self.S32.T))
        self.dmax = diag_is_max(self.S32)
        self.neg = False
        self.dead = False          # a root-cause event was recorded: stop
        self.near = False          # float-valued class: use near thresholds

    def icls(self, density=False):
        s = ""
        if self.mask is not None:
            s += ":phase-directed"
        elif self.directed:
            s += ":directed"
        if not self.sym and not self.directed:
            s += ":asymmetric-similarity"
        if density and not self.dmax:
            s += ":arbitrary-diagonal"
        return s

    def oracle(self, theta=None, nl=None):
        nl = self.nl if nl is None else nl
        A, dec = rule(self.S32, self.theta if theta is None else theta,
                      self.W if nl else None)
        if self.mask is not None:
            A = A & self.mask
        return A, dec


def check_state(ctx, net, m, op, cid, hist=None):
    """Run all state monitors; returns the library adjacency (bool) or None."""
    c = m.cname
    det = {"op": op, "history": hist, "N": int(m.S32.shape[0]),
           "non_local": m.nl, "directed": m.directed}

    def fire(rel, extra=None, density=False, nlsuffix=False):
        sig = f"{c}.{op}:{rel}" + (":non_local" if nlsuffix and m.nl else "") \
            + m.icls(density)
        d = dict(det)
        d["S"] = m.S32
        if extra:
            d.update(extra)
        ctx.violation(sig, d, cid)

    if m.dead:
        return None
    ctx.count("states_checked")
    if m.sub:
        ctx.count("subclass_states")
        ctx.count("subclass_states:" + m.label)
    if m.neg:
        ctx.count("negative_similarity_states")
    if m.directed and not m.sym:
        ctx.count("directed_asymmetric_states")
    ctx.evals(5)
    # -- echoes -------------------------------------------------------------
    ok, th = ctx.call(net.threshold)
    if not ok:
        fire(f"threshold()-raises:{type(th).__name__}")
        return None
    try:
        echo_ok = (th is not None and np.ndim(th) == 0 and
                   float(th) == float(m.theta))
        if not echo_ok and m.theta_alt is not None and np.ndim(th) == 0:
            for alt in m.theta_alt:
                if float(th) == float(alt):
                    echo_ok = True
                    m.theta = alt
                    ctx.count("density_threshold_offdiagonal_variant")
    except (TypeError, ValueError):
        echo_ok = False
    m.theta_alt = None
    if not echo_ok:
        fire("threshold-echo", {"reported": th, "expected": m.theta})
        return None
    ok, nl = ctx.call(net.non_local)
    if not ok or bool(nl) != m.nl:
        fire("non_local-echo", {"reported": nl if ok else repr(nl)})
        return None
    ok, S = ctx.call(net.similarity_measure)
    if not ok or not (isinstance(S, np.ndarray) and S.shape == m.S32.shape
                      and np.array_equal(S, m.S32)):
        fire("similarity-changed", {"now": S if ok else repr(S)})
        return None
    if bool(net.directed) != m.directed:
        # root cause for everything downstream (n_links, symmetry ...):
        # record once and stop examining this object
        fire("directed-flag", {"reported": net.directed})
        m.dead = True
        return None
    # -- invariant ----------------------------------------------------------
    for cl in net_invariant(net):
        if not m.sym and not m.directed and \
                cl in ("asymmetric-undirected", "n_links"):
            # consequence of the separately recorded root cause
            # "asymmetric-similarity-in-undirected-network"
            ctx.count("invariant_clause_attributed_to_asymmetric_similarity")
            continue
        fire("invariant:" + cl, {"threshold": th,
                                 "adjacency": np.asarray(net.adjacency)})
    # -- the rule -----------------------------------------------------------
    A = np.asarray(net.adjacency)
    n = m.S32.shape[0]
    if A.shape != (n, n):
        fire("adjacency-shape", {"shape": A.shape})
        return None
    R, dec = m.oracle(theta=th)
    B = A != 0
    und = int((~dec).sum())
    if und:
        ctx.count("undecided_pairs", und)
    bad = (B != R) & dec
    if bad.any():
        i, j = [int(v) for v in np.argwhere(bad)[0]]
        fire("adjacency!=rule",
             {"threshold": th, "pair": [i, j], "S_ij": float(m.S32[i, j]),
              "w_ij": float(m.W[i, j]) if m.nl else 1.0,
              "lib": int(A[i, j]), "oracle": int(R[i, j]),
              "n_diff": int(bad.sum()),
              "phase_mask": m.mask}, nlsuffix=m.mask is None)
        if m.mask is not None:
            m.dead = True
            return None
    elif not und:
        want = int(R.sum()) if m.directed else int(R.sum()) // 2
        if m.sym or m.directed:
            if net.n_links != want:
                fire("n_links!=rule-count", {"n_links": net.n_links,
                                             "oracle": want})
    if m.sym and m.mask is None and not np.array_equal(B, B.T):
        fire("asymmetric-adjacency", {"adjacency": A})
    off = ~np.eye(n, dtype=bool)
    if n > 1 and R[off].any() and (~R[off]).any():
        ctx.nontrivial((c, m.S32.tobytes(), m.D.tobytes(), m.nl, float(th),
                        m.directed))
    if not m.nl and bool(np.any((m.S32 == np.float32(th)) & off)):
        ctx.count("strict_ties_exercised")
    if m.near and not m.nl:
        rel = np.abs(m.S32[off].astype(np.float64) - float(th))
        if np.any((rel > 0) & (rel <= 2 * NEAR * max(abs(float(th)), 1e-9))):
            ctx.count("near_threshold_states")
    if m.nl and not np.array_equal(R, m.oracle(theta=th, nl=False)[0]):
        ctx.count("nonlocal_effective")
    return B


def check_density(ctx, net, m, rho, op, cid, hist=None):
    """Density bounds from link counts (after check_state)."""
    n = m.S32.shape[0]
    M = n * n - n
    A = np.asarray(net.adjacency) != 0
    L = int(A.sum())
    off = ~np.eye(n, dtype=bool)
    ties = int(np.sum((m.S32 == np.float32(m.theta)) & off))
    det = {"op": op, "history": hist, "rho": rho, "N": n, "links": L,
           "pairs": M, "threshold": m.theta, "ties": ties, "S": m.S32,
           "non_local": m.nl}
    ctx.evals(1)
    ctx.count("density_bound_checked")
    if m.sub:
        ctx.count("subclass_density_checked")
    if not m.dmax:
        ctx.count("density_arbitrary_diagonal")
    if ties > (1 if m.directed and not m.sym else 2):
        ctx.count("density_with_ties")
    # the arbitrary-diagonal class is one mechanism whatever the other flags
    sfx = ":arbitrary-diagonal" if not m.dmax else \
        (":non_local" if m.nl else "") + m.icls()
    if L > rho * M + 1e-9:
        ctx.violation(f"{m.cname}.{op}:density>requested" + sfx, det, cid)
    elif m.mask is None and not m.nl and rho * M - L > ties + 1e-9:
        ctx.violation(f"{m.cname}.{op}:density-miss>ties" + sfx, det, cid)
    if m.dmax and m.mask is None and not m.nl:
        ctx.maxstat("max_density_miss_in_pairs_minus_ties(claimed class)",
                    rho * M - L - ties)
        ctx.maxstat("max_links_minus_requested(claimed class)", L - rho * M)


def expect_density(m, rho):
    q = quantile_theta(m.S32, rho)
    m.theta = q[0]
    m.theta_alt = q[1:]


# --------------------------------------------------------------------------
# generators
# --------------------------------------------------------------------------
def clustered_latlon(rng, n):
    """Clusters of nearby nodes: pair distances from 0 to ~0.3 rad inside a
    cluster (where the damping acts), anything between clusters."""
    if n >= 4 and rng.random() < 0.2:
        # nodes of a global grid (whole degrees) together with the grid
        # points on the opposite side of the globe (every global lat/lon
        # grid whose longitude step divides 180 has them)
        h = n // 2
        step = float(rng.choice([1.0, 1.0, 2.0, 4.0, 12.0]))
        la = rng.integers(-80 // step, 80 // step + 1, h) * step
        lo = rng.integers(-180 // step, 180 // step, h) * step
        lat = np.concatenate([la, -la, rng.uniform(-60, 60, n - 2 * h)])
        lon = np.concatenate([lo, np.where(lo >= 0, lo - 180.0, lo + 180.0),
                              rng.uniform(-170, 170, n - 2 * h)])
        return lat, lon
    k = int(rng.integers(1, max(2, n // 2) + 1))
    clat = rng.uniform(-70, 70, k)
    clon = rng.uniform(-170, 170, k)
    which = rng.integers(0, k, n)
    spread = rng.choice([0.5, 2.0, 6.0, 12.0])
    lat = clat[which] + rng.uniform(-spread, spread, n)
    lon = clon[which] + rng.uniform(-spread, spread, n)
    if rng.random() < 0.25 and n >= 2:      # coincident pair
        lat[1], lon[1] = lat[0], lon[0]
    if rng.random() < 0.2 and n >= 3:
        # two stations exactly opposite each other on the globe (whole
        # degrees): as far apart as two nodes can be
        lat[0], lon[0] = np.round(lat[0]), np.round(lon[0])
        lat[2] = -lat[0]
        lon[2] = lon[0] - 180.0 if lon[0] > 0 else lon[0] + 180.0
    return np.clip(lat, -89, 89), lon


def similarity(rng, n, kind):
    """kind: 'sym-max' | 'sym-arb' | 'asym' (values k/64) | 'float'
    (symmetric, unit diagonal, float64 values that are not float32 numbers,
    a few duplicated pairs)."""
    if kind == "float":
        K = rng.uniform(-1, 1, (n, n))
        K = np.triu(K, 1)
        iu = np.argwhere(K != 0)
        for _ in range(int(rng.integers(0, 3))):
            if len(iu) >= 2:
                a, b = iu[rng.integers(0, len(iu), 2)]
                K[tuple(a)] = K[tuple(b)] * rng.choice([-1, 1])
        K = K + K.T
        np.fill_diagonal(K, 1.0)
        return K
    levels = int(rng.choice([3, 9, 129]))
    if levels == 129:
        vals = np.arange(-64, 65)
        if rng.random() < 0.7:
            vals = vals[np.abs(vals) <= 60]
    else:
        vals = rng.choice(np.arange(-64, 65), levels, replace=False)
        if rng.random() < 0.5:
            vals[0] = 0
    K = rng.choice(vals, (n, n))
    if rng.random() < 0.2:
        K = np.abs(K)
    if kind != "asym":
        K = np.triu(K, 1)
        K = K + K.T
    if kind == "sym-arb":
        np.fill_diagonal(K, rng.choice(vals, n))
    else:
        np.fill_diagonal(K, 64 if rng.random() < 0.8 else
                         max(1, int(np.max(np.abs(K)))))
        if kind == "asym" and rng.random() < 0.3:
            np.fill_diagonal(K, rng.choice(vals, n))
    return K / G


def typed(rng, t):
    r = rng.random()
    if float(t) == int(t) and r < 0.3:
        return int(t)
    if r < 0.5:
        return float(t)
    if r < 0.75:
        return np.float64(t)
    return np.float32(t)


NEAR = 3e-5     # >> float32 spacing (6e-8), << float16 spacing (5e-4)


def grid_threshold(rng, S32=None, near=False):
    """on-grid (tests strictness) or mid-grid (robust) threshold; near=True
    (float-valued similarities): also thresholds at relative distance 3e-5
    from an occurring value, which any storage coarser than float32 would
    confuse with that value."""
    r = rng.random()
    if near and S32 is not None and rng.random() < 0.5:
        v = float(rng.choice(np.asarray(S32, dtype=np.float64).ravel()))
        return v * (1 + NEAR * (1 if rng.random() < 0.5 else -1))
    if S32 is not None and r < 0.45:
        return float(rng.choice(np.asarray(S32, dtype=np.float64).ravel()))
    k = int(rng.integers(-1, 65))
    if r < 0.7:
        return k / G
    return k / G + 1 / 128.0


def rhos(rng, n, count):
    M = n * n - n
    out = [0.0, 1.0]
    while len(out) < count:
        r = rng.random()
        if r < 0.4:
            out.append(int(rng.integers(0, M + 1)) / M)
        elif r < 0.5:
            out.append(float(rng.choice([0.5, 0.25, 0.1, 0.01, 0.99])))
        else:
            out.append(float(rng.uniform(0, 1)))
    rng.shuffle(out)
    return [typed_rho(rng, v) for v in out]


def typed_rho(rng, v):
    if v in (0.0, 1.0) and rng.random() < 0.3:
        return int(v)
    return np.float64(v) if rng.random() < 0.3 else float(v)


# --------------------------------------------------------------------------
# workloads
# --------------------------------------------------------------------------
def build_base(ctx, rng, coupled, lat, lon, S, **kw):
    from pyunicorn.climate import ClimateNetwork, CoupledClimateNetwork
    from pvm.gen.held import as_held
    n = len(lat)
    # the similarity matrix in a layout a caller may hold it in (Fortran
    # order - e.g. the transpose of a C array -, strided view, read-only)
    S, htag = as_held(rng, S, forms=("c", "c", "c", "f", "view", "readonly"))
    ctx.count("similarity_held_as:" + htag)
    # (switches in a type a caller may hold them in: bool, np.bool_, 0 / 1)
    from pvm.gen.held import as_flag
    for key in ("non_local", "directed"):
        if key in kw:
            kw[key] = as_flag(rng, kw[key])
    if coupled:
        n1 = int(rng.integers(1, n))
        return ctx.call(CoupledClimateNetwork,
                        go.geogrid(lat[:n1], lon[:n1]),
                        go.geogrid(lat[n1:], lon[n1:]), S,
                        silence_level=3, **kw)
    return ctx.call(ClimateNetwork, go.geogrid(lat, lon), S,
                    silence_level=3, **kw)


def setter(ctx, net, m, name, arg, cid, hist):
    """apply one setter, update the model; returns False if it raised."""
    if m.dead:
        return False
    # what the caller was handed before the change stays what it was
    held = []
    if name != "set_directed":
        for q in ("similarity_measure", "adjacency"):
            try:
                v = getattr(net, q)
                v = v() if callable(v) else v
                if isinstance(v, np.ndarray):
                    held.append((q, v, np.array(v, copy=True)))
            except Exception:  # noqa
                pass
    ok, r = ctx.call(getattr(net, name), arg)
    for q, live, snap_ in held:
        ctx.count("answers_held_across_setters")
        if not np.array_equal(live, snap_, equal_nan=True):
            ctx.violation(f"{m.cname}.{name}:edits-the-{q}-handed-out-before",
                          {"history": hist, "arg": arg}, cid)
    if not ok:
        ctx.violation(f"{m.cname}.{name}:raises:{type(r).__name__}"
                      + m.icls(name == "set_link_density"),
                      {"history": hist, "arg": arg, "exc": repr(r),
                       "S": m.S32, "non_local": m.nl}, cid)
        return False
    if name == "set_threshold":
        m.theta = arg
        m.theta_alt = None
    elif name == "set_link_density":
        expect_density(m, arg)
    elif name == "set_non_local":
        m.nl = bool(arg)
    elif name == "set_directed":
        # Hilbert networks: directed = links masked by the sign of the
        # phase shift; undirected = the plain thresholded coherence
        m.directed = bool(arg)
        m.mask = (np.asarray(net.phase_shift()) > 0) if arg else None
        m.S32 = np.array(net.similarity_measure(), dtype=np.float32,
                         copy=True)
        m.sym = bool(np.array_equal(m.S32, m.S32.T))
    return True


def sweep(ctx, net, m, ths, cid):
    """increasing thresholds: rule at each step + nested link sets."""
    prev = None
    prev_t = None
    for t in ths:
        h = ["set_threshold", t]
        if not setter(ctx, net, m, "set_threshold", t, cid, h):
            return
        B = check_state(ctx, net, m, "set_threshold", cid, h)
        if B is None:
            return
        if prev is not None:
            ctx.count("monotone_steps")
            ctx.evals(1)
            if (B & ~prev).any():
                ctx.violation(f"{m.cname}.set_threshold:not-monotone"
                              + (":non_local" if m.nl else "") + m.icls(),
                              {"t_low": prev_t, "t_high": t, "S": m.S32,
                               "gained": np.argwhere(B & ~prev)[:4]}, cid)
        prev, prev_t = B, t


READ_ONLY = ("correlation_distance", "inv_correlation_distance",
             "similarity_measure", "degree", "link_density_function_default",
             "correlation_distance_weighted_average_path_length",
             "correlation_distance_weighted_closeness",
             "local_correlation_distance_weighted_vulnerability",
             "average_link_distance", "max_link_distance",
             "area_weighted_connectivity", "nsi_degree",
             "local_geographical_clustering", "total_link_distance",
             "average_neighbor_distance", "max_neighbor_distance",
             "connectivity_weighted_distance",
             "local_geographical_clustering",
             "cross_correlation_max", "mutual_information", "spearman_corr",
             # dropping derived matrices by hand, and reading them back
             "clear_cache", "cache_clear", "phase_shift", "coherence",
             "correlation_lag", "correlation_strength")


def history(ctx, rng, net, m, length, cid):
    hist = []
    changed = False
    last = np.asarray(net.adjacency) != 0
    for _ in range(length):
        r = rng.random()
        if r < 0.4:
            name = "set_threshold"
            if m.sub:
                arg = sub_threshold(rng, m.S32)
            else:
                arg = typed(rng, grid_threshold(rng, m.S32, m.near))
            if arg is None:
                name, arg = "set_link_density", float(rng.uniform(0, 1))
        elif r < 0.7:
            name, arg = "set_link_density", rhos(rng, m.S32.shape[0], 3)[0]
        else:
            name = "set_non_local"
            arg = (not m.nl) if rng.random() < 0.75 else m.nl
        if callable(getattr(net, "set_directed", None)) and \
                rng.random() < 0.3:
            name = "set_directed"
            arg = (not m.directed) if rng.random() < 0.7 else m.directed
        if rng.random() < 0.5:
            # a read-only query between two changes (results are cached on
            # the object; the next change must still start from the
            # similarity the network was built from)
            qs = [q for q in READ_ONLY if callable(getattr(net, q, None))]
            q = qs[int(rng.integers(0, len(qs)))]
            with warnings.catch_warnings():
                warnings.simplefilter("ignore")
                ctx.call(getattr(net, q))
            hist.append(["query", q])
            ctx.count("history:query")
        hist.append([name, arg])
        if not setter(ctx, net, m, name, arg, cid, list(hist)):
            return
        B = check_state(ctx, net, m, name, cid, list(hist))
        if B is None:
            return
        ctx.count("history_steps")
        ctx.count("history:" + name)
        if name == "set_link_density":
            check_density(ctx, net, m, arg, name, cid, list(hist))
        if not np.array_equal(B, last):
            changed = True
        last = B
    if changed:
        ctx.nontrivial(("hist", m.cname, m.S32.tobytes(), repr(hist)))


def base_case(ctx, k, cid):
    rng = ctx.rng("base", k)
    nmax = 16 if ctx.thorough else 9
    n = int(rng.integers(2, nmax + 1))
    if k % 24 == 7:
        # sizes around powers of two (block / chunk boundaries of vectorised
        # or tiled implementations)
        sizes = [31, 32, 33, 63, 64, 65] + ([127, 128, 129, 257]
                                            if ctx.thorough else [])
        n = sizes[(k // 24) % len(sizes)]
        ctx.count("power_of_two_boundary_sizes")
    kind = str(rng.choice(["sym-max", "sym-max", "sym-max", "sym-arb",
                           "asym", "asym", "float"]))
    near = kind == "float"
    directed = True if kind == "asym" else bool(rng.random() < 0.15)
    coupled = n >= 2 and rng.random() < 0.2
    nl0 = bool(rng.random() < 0.4)
    lat, lon = clustered_latlon(rng, n)
    S = similarity(rng, n, kind)
    if rng.random() < 0.15:
        S = S.astype(np.float32)
    cname = "CoupledClimateNetwork" if coupled else "ClimateNetwork"
    S32 = np.abs(S.astype(np.float32))
    S_before = S.copy()

    # (a) constructor with a threshold
    t0 = typed(rng, grid_threshold(rng, S32, near))
    ok, net = build_base(ctx, rng, coupled, lat, lon, S, threshold=t0,
                         non_local=nl0, directed=directed)
    D = None
    if ok:
        D = np.asarray(net.grid.angular_distance(), dtype=np.float64)
        # (coarse sanity of the distance the damping is evaluated on: it is
        #  the great-circle distance of the coordinates -- from coinciding
        #  to opposite nodes -- up to single precision; its accuracy proper
        #  is C12's subject)
        la_, lo_ = np.radians(np.asarray(lat, float)), \
            np.radians(np.asarray(lon, float))
        cc = np.sin(la_)[:, None] * np.sin(la_)[None, :] + \
            np.cos(la_)[:, None] * np.cos(la_)[None, :] * \
            np.cos(lo_[:, None] - lo_[None, :])
        Dref = np.arccos(np.clip(cc, -1, 1))
        ctx.count("distance_matrices_sanity_checked")
        if D.shape != Dref.shape or not np.all(np.abs(D - Dref) < 2e-3):
            ctx.violation(f"{cname}:grid.angular_distance:not-the-great-"
                          "circle-distance-of-the-coordinates",
                          {"lat": lat, "lon": lon,
                           "at": np.argwhere(~(np.abs(D - Dref) < 2e-3))[:4]
                           if D.shape == Dref.shape else None}, cid)
    m = Model(cname, S32, D if D is not None else np.zeros((n, n)), directed,
              nl0)
    m.neg = bool((S < 0).any())
    m.near = near
    if near:
        ctx.count("float_valued_cases")
    if not ok:
        ctx.violation(f"{cname}.__init__:raises:{type(net).__name__}"
                      + m.icls(), {"S": S, "threshold": t0, "non_local": nl0,
                                   "exc": repr(net)}, cid)
        return
    m.theta = t0
    if coupled:
        ctx.count("coupled_states")
    if check_state(ctx, net, m, "__init__", cid) is None:
        return
    if not np.array_equal(S, S_before):
        ctx.violation(f"{cname}.__init__:caller-similarity-modified", {}, cid)
    ctx.sample({"class": cname, "N": n, "kind": kind, "non_local": nl0,
                "threshold": float(t0), "n_links": int(net.n_links)})

    # (b) monotone sweep
    vals = np.unique(S32.astype(np.float64))
    vals = vals[vals <= 1.0]
    cand = set([-1 / G, 0.0, 1.0])
    cand.update(float(v) for v in rng.choice(vals, min(len(vals), 6),
                                             replace=False))
    cand.update(float(int(v * G) / G + 1 / 128.0)
                for v in rng.choice(vals, min(len(vals), 4), replace=False))
    if near:
        cand.update(float(v) * (1 + NEAR * sg) for sg in (-1, 1)
                    for v in rng.choice(vals, min(len(vals), 3),
                                        replace=False))
    ths = [typed(rng, t) for t in sorted(cand)]
    ths = [t for i, t in enumerate(ths)
           if i == 0 or float(t) > float(ths[i - 1])]
    sweep(ctx, net, m, ths, cid)
    if coupled:
        ctx.count("coupled_states", len(ths))

    # (c) link densities
    for rho in rhos(rng, n, 5 if not ctx.thorough else 8):
        h = ["set_link_density", rho]
        if not setter(ctx, net, m, "set_link_density", rho, cid, h):
            break
        if check_state(ctx, net, m, "set_link_density", cid, h) is None:
            break
        check_density(ctx, net, m, rho, "set_link_density", cid, h)
    # constructor with link_density
    rho = rhos(rng, n, 3)[0]
    nl1 = bool(rng.random() < 0.3)
    ok, net2 = build_base(ctx, rng, coupled, lat, lon, S, link_density=rho,
                          non_local=nl1, directed=directed)
    m2 = Model(cname, S32, D, directed, nl1)
    m2.neg = m.neg
    m2.near = near
    if not ok:
        ctx.violation(f"{cname}.__init__:raises:{type(net2).__name__}"
                      + m2.icls(True), {"S": S, "link_density": rho,
                                        "exc": repr(net2)}, cid)
    else:
        expect_density(m2, rho)
        ctx.count("ctor_link_density")
        if check_state(ctx, net2, m2, "__init__", cid,
                       ["link_density", rho]) is not None:
            check_density(ctx, net2, m2, rho, "__init__", cid)

    # (d) toggling the damping at a fixed threshold and back
    t1 = typed(rng, grid_threshold(rng, S32, near))
    if setter(ctx, net, m, "set_threshold", t1, cid, None):
        B0 = check_state(ctx, net, m, "set_threshold", cid)
        for flag in (not m.nl, not (not m.nl)):
            h = [["set_threshold", t1], ["set_non_local", flag]]
            if not setter(ctx, net, m, "set_non_local", flag, cid, h):
                break
            B1 = check_state(ctx, net, m, "set_non_local", cid, h)
            if B0 is not None and B1 is not None and m.nl and \
                    (B1 & ~B0).any() and not (~m.oracle()[1]).any():
                ctx.violation(f"{cname}.set_non_local:damping-adds-links"
                              + m.icls(), {"S": S32, "threshold": t1}, cid)
    # (e) random history
    lo, hi = (2, 5) if not ctx.thorough else (2, 10)
    history(ctx, rng, net, m, int(rng.integers(lo, hi + 1)), cid)

    # (f) documented parameters of the damping, called directly
    if rng.random() < 0.5:
        a = float(rng.choice([5.0, 10.0, 20.0, 30.0]))
        dmin = float(rng.choice([0.0, 0.05, 0.1, 0.2]))
        t = typed(rng, grid_threshold(rng, S32, near))
        ok, A = ctx.call(net._calculate_non_local_adjacency, S32.copy(), t,
                         a=a, d_min=dmin)
        ctx.evals(1)
        if not ok:
            ctx.violation(f"{cname}._calculate_non_local_adjacency:raises:"
                          f"{type(A).__name__}", {"exc": repr(A)}, cid)
        else:
            R, dec = rule(S32, t, damping(m.D, a, dmin))
            bad = ((np.asarray(A) != 0) != R) & dec
            ctx.count("direct_nonlocal_compared")
            if bad.any():
                ctx.violation(f"{cname}._calculate_non_local_adjacency:"
                              "adjacency!=rule",
                              {"a": a, "d_min": dmin, "threshold": t,
                               "S": S32, "pair": np.argwhere(bad)[0]}, cid)


# -- subclasses ---------------------------------------------------------------
def sub_threshold(rng, S32, upper=None):
    """a threshold mid-way between two distinct values of the object's own
    similarity (off-diagonal), gap > 1e-3 relative; None if there is none."""
    n = S32.shape[0]
    off = ~np.eye(n, dtype=bool)
    v = np.unique(S32[off].astype(np.float64))
    v = v[np.isfinite(v)]
    v = np.concatenate(([min(0.0, v[0]) - 0.25 if len(v) else -0.25], v,
                        [(v[-1] if len(v) else 1.0) * 1.25 + 0.25]))
    gaps = [(a, b) for a, b in zip(v[:-1], v[1:])
            if b - a > 1e-3 * max(abs(a), abs(b))]
    if not gaps:
        return None
    a, b = gaps[int(rng.integers(0, len(gaps)))]
    return float(0.5 * (a + b))


def make_data(rng, n, T, positive=False):
    lat, lon = clustered_latlon(rng, n)
    common = rng.normal(size=(T, 2))
    load = rng.normal(size=(2, n)) * rng.choice([0.0, 0.7, 1.5])
    obs = common @ load + rng.normal(size=(T, n))
    obs += np.sin(2 * np.pi * np.arange(T) / 12.0)[:, None] * \
        rng.uniform(0, 2, n)
    if positive:
        obs = np.abs(obs) * (rng.random((T, n)) < 0.8)
    return obs, lat, lon


SUBCLASSES = ["TsonisClimateNetwork", "SpearmanClimateNetwork",
              "PartialCorrelationClimateNetwork", "MutualInfoClimateNetwork",
              "HilbertClimateNetwork", "HilbertClimateNetwork:directed",
              "HavlinClimateNetwork", "RainfallClimateNetwork",
              "CoupledTsonisClimateNetwork", "EventSeriesClimateNetwork"]


def sub_build(ctx, rng, name, obs, lat, lon, extra, **kw):
    import pyunicorn.climate as pc
    T, n = obs.shape
    cls = getattr(pc, name.split(":")[0], None)
    if name == "CoupledTsonisClimateNetwork":
        n1 = extra["n1"]
        d1 = go.climate_data(obs[:, :n1], lat[:n1], lon[:n1])
        d2 = go.climate_data(obs[:, n1:], lat[n1:], lon[n1:])
        return ctx.call(cls, d1, d2, silence_level=3, **kw)
    data = go.climate_data(obs.copy(), lat, lon)
    from pvm.gen.held import as_flag
    if "non_local" in kw:
        kw["non_local"] = as_flag(rng, kw["non_local"])
    if name == "EventSeriesClimateNetwork":
        from pyunicorn.climate.eventseries_climatenetwork import \
            EventSeriesClimateNetwork
        kw.pop("threshold", None)       # the class fixes threshold=0
        return ctx.call(EventSeriesClimateNetwork, data, silence_level=3,
                        threshold_method="quantile", threshold_types="above",
                        **extra["es"], **kw)
    if name in ("TsonisClimateNetwork", "SpearmanClimateNetwork",
                "PartialCorrelationClimateNetwork",
                "MutualInfoClimateNetwork"):
        kw["winter_only"] = as_flag(rng, False)
    elif name == "HilbertClimateNetwork":
        kw["directed"] = as_flag(rng, False)
    elif name == "HilbertClimateNetwork:directed":
        kw["directed"] = as_flag(rng, True)
    elif name == "HavlinClimateNetwork":
        kw["max_delay"] = extra["max_delay"]
    elif name == "RainfallClimateNetwork" and "et" in extra:
        # the quantiles between which rainfall counts as an event
        kw["event_threshold"] = extra["et"]
    return ctx.call(cls, data, silence_level=3, **kw)


def sub_model(net, name, nl):
    S32 = np.array(net.similarity_measure(), copy=True)
    D = np.asarray(net.grid.angular_distance(), dtype=np.float64)
    cname = name.split(":")[0]
    mask = None
    if name.endswith(":directed"):
        mask = np.asarray(net.phase_shift()) > 0
    m = Model(cname, S32, D, bool(net.directed), nl, mask=mask, sub=True)
    m.label = name
    return m


def sub_case(ctx, k, cid):
    rng = ctx.rng("sub", k)
    name = SUBCLASSES[k % len(SUBCLASSES)]
    n = int(rng.integers(4, 10))
    T = int(rng.choice([24, 36, 48, 60]))
    obs, lat, lon = make_data(rng, n, T,
                              positive=name == "RainfallClimateNetwork")
    extra = {"n1": int(rng.integers(1, n)),
             "max_delay": int(rng.integers(2, 6)),
             "et": [(0, 1), (0.5, 1), (0.8, 1.0), (0.25, 0.9)][
                 int(rng.integers(0, 4))]}
    es = name == "EventSeriesClimateNetwork"
    if es:
        meth = str(rng.choice(["ES", "ECA"]))
        extra["es"] = dict(
            method=meth, taumax=float(rng.integers(1, 6)),
            symmetrization=str(rng.choice(
                ["directed", "mean", "max", "min"] +
                (["symmetric", "antisym"] if meth == "ES" else []))),
            threshold_values=float(rng.choice([0.7, 0.8, 0.85])))
    cname = name.split(":")[0]
    sfx = ":phase-directed" if name.endswith(":directed") else ""
    # probe object: gives the class's own similarity
    nl0 = bool(rng.random() < 0.25)
    ok, net = sub_build(ctx, rng, name, obs, lat, lon, extra, threshold=0.5,
                        non_local=nl0)
    if not ok:
        ctx.violation(f"{cname}.__init__:raises:{type(net).__name__}" + sfx,
                      {"exc": repr(net), "N": n, "T": T, "how": "threshold"},
                      cid)
        return
    ok, m = ctx.call(sub_model, net, name, nl0)
    if not ok:
        ctx.violation(f"{cname}.similarity_measure:raises:"
                      f"{type(m).__name__}" + sfx, {"exc": repr(m)}, cid)
        return
    if not np.all(np.isfinite(m.S32)):
        ctx.count("rejected")
        ctx.count("rejected:nonfinite-similarity:" + cname)
        return
    if not m.sym and not m.directed:
        d = np.abs(m.S32.astype(float) - m.S32.T)
        ctx.violation(f"{cname}.__init__:asymmetric-similarity-in-undirected"
                      "-network", {"N": n, "T": T, "S": m.S32,
                                   "max_rel_asymmetry":
                                   float(np.max(d / np.maximum(m.S32, 1e-30)))},
                      cid)
    if bool((m.S32 < 0).any()):
        ctx.violation(f"{cname}.similarity_measure:negative-entries" + sfx,
                      {"min": float(m.S32.min())}, cid)
        return
    # (a) constructor with thresholds between the distinct values
    for rep in range(2):
        t = 0 if es else sub_threshold(rng, m.S32)
        if t is None:
            ctx.count("rejected")
            return
        nl = bool(rng.random() < 0.25)
        ok, net = sub_build(ctx, rng, name, obs, lat, lon, extra,
                            threshold=t, non_local=nl)
        if not ok:
            ctx.violation(f"{cname}.__init__:raises:{type(net).__name__}"
                          + sfx, {"exc": repr(net), "threshold": t}, cid)
            return
        S_now = np.asarray(net.similarity_measure())
        if not np.array_equal(S_now, m.S32):
            ctx.violation(f"{cname}.__init__:similarity-not-reproducible"
                          + sfx, {"N": n, "T": T}, cid)
            return
        m = sub_model(net, name, nl)
        m.theta = t
        if check_state(ctx, net, m, "__init__", cid,
                       ["threshold", t]) is None:
            return
    ctx.sample({"class": name, "N": n, "T": T, "threshold": t,
                "n_links": int(net.n_links)})
    # (b) sweep over its own values
    ths = sorted(set(x for x in (sub_threshold(rng, m.S32)
                                 for _ in range(6)) if x is not None))
    sweep(ctx, net, m, ths, cid)
    # (c) densities on the live object
    for rho in rhos(rng, n, 4):
        h = ["set_link_density", rho]
        if not setter(ctx, net, m, "set_link_density", rho, cid, h):
            break
        if check_state(ctx, net, m, "set_link_density", cid, h) is None:
            break
        check_density(ctx, net, m, rho, "set_link_density", cid, h)
    # (d) constructor with a link density
    rho = float(rng.uniform(0.1, 0.9))
    nl = bool(rng.random() < 0.25)
    if es:      # no such constructor argument
        ok, net2 = True, None
    else:
        ok, net2 = sub_build(ctx, rng, name, obs, lat, lon, extra,
                             link_density=rho, non_local=nl)
    if not ok:
        ctx.violation(f"{cname}.__init__:raises:{type(net2).__name__}"
                      ":link_density" + sfx,
                      {"exc": repr(net2), "link_density": rho}, cid)
    elif net2 is not None:
        ok, m2 = ctx.call(sub_model, net2, name, nl)
        if ok and np.array_equal(m2.S32, m.S32):
            expect_density(m2, rho)
            ctx.count("ctor_link_density")
            if check_state(ctx, net2, m2, "__init__", cid,
                           ["link_density", rho]) is not None:
                check_density(ctx, net2, m2, rho, "__init__", cid)
    # (e) history
    history(ctx, rng, net, m, int(rng.integers(2, 6)), cid)
    # (f) the similarity re-derived on the live object (winter months /
    # maximum delay), with and without suppression of local links: the
    # network must follow the rule for the object's *new* similarity
    # (f0) the same re-derivation requested with the value the object already
    # has: the similarity and, after the next change, the network are what
    # they were
    same = None
    if hasattr(net, "set_winter_only") and hasattr(net, "winter_only"):
        same = ("set_winter_only", bool(net.winter_only()))
    elif hasattr(net, "set_max_delay"):
        same = ("set_max_delay", int(net.get_max_delay()))
    if same is not None and not m.dead:
        skw = {"dump": False} if cname == "MutualInfoClimateNetwork" else {}
        oks, e = ctx.call(getattr(net, same[0]), same[1], **skw)
        ctx.evals()
        if not oks:
            ctx.violation(f"{cname}.{same[0]}:raises:{type(e).__name__}",
                          {"exc": repr(e), "arg": same[1]}, cid)
        else:
            ctx.count("same_value_rederivations")
            th = sub_threshold(rng, m.S32)
            hh = [[same[0], same[1], "unchanged value"],
                  ["set_threshold", th]]
            if th is not None and setter(ctx, net, m, "set_threshold", th,
                                         cid, hh):
                check_state(ctx, net, m, "set_threshold", cid, hh)
    redo = None
    if hasattr(net, "set_winter_only") and T >= 36:
        redo = ("set_winter_only", True)
    elif hasattr(net, "set_max_delay"):
        redo = ("set_max_delay", int(extra["max_delay"]) + 1)
    if redo is not None and not name.endswith(":directed"):
        nl = bool(rng.random() < 0.6)
        # the threshold the object carries into the re-derivation: half of
        # the time one set just before - every other time exactly zero
        # (int, float, float32), the legal value that is "false"
        kept = None
        if not m.dead and not es and rng.random() < 0.5:
            kept = typed(rng, 0) if rng.random() < 0.5 else \
                sub_threshold(rng, m.S32)
            if kept is not None and not setter(
                    ctx, net, m, "set_threshold", kept, cid,
                    [["set_threshold", kept]]):
                kept = None
            if kept is not None:
                ctx.count("rederived_with_known_threshold")
                if float(kept) == 0:
                    ctx.count("rederived_with_threshold_zero")
        okq, _ = ctx.call(net.set_non_local, nl)
        rkw = {}
        if cname == "MutualInfoClimateNetwork":
            # (dump=True stores the matrix in a file in the working
            #  directory that later objects of the same size reload by
            #  design; keep the cases independent of each other)
            rkw["dump"] = False
        okr, e = ctx.call(getattr(net, redo[0]), redo[1], **rkw)
        ctx.evals()
        if okq and okr:
            okm, m3 = ctx.call(sub_model, net, name, nl)
            if okm and np.all(np.isfinite(m3.S32)):
                m3.theta = float(net.threshold()) if kept is None \
                    else kept
                vals = np.unique(np.asarray(m3.S32, dtype=np.float64))
                # (the threshold kept from before must not sit on a value
                #  of the new similarity)
                if vals.size and np.min(np.abs(vals - m3.theta)) > \
                        1e-3 * max(1e-12, abs(m3.theta)):
                    ctx.count("similarity_rederived_states")
                    check_state(ctx, net, m3, redo[0], cid,
                                ["set_threshold", kept, "set_non_local", nl,
                                 redo[0], redo[1]])
        elif not okr:
            ctx.violation(f"{cname}.{redo[0]}:raises:{type(e).__name__}",
                          {"exc": repr(e)}, cid)


def undefined_case(ctx, k, cid):
    """Similarity matrices with undefined (NaN) entries - what every
    correlation-type subclass gets for a constant series (a masked cell).
    Every pair with a defined similarity follows the rule on the absolute
    value; an undefined similarity exceeds no threshold."""
    from pyunicorn.climate import ClimateNetwork
    rng = ctx.rng("undef", k)
    n = int(rng.integers(3, 10))
    dead = rng.permutation(n)[:int(rng.integers(1, max(2, n - 2)))]
    if k % 2 == 0:
        cname = "ClimateNetwork"
        lat, lon = clustered_latlon(rng, n)
        S = similarity(rng, n, "sym-max").astype(np.float64)
        if rng.random() < 0.3:
            a, b = int(dead[0]), int((dead[0] + 1) % n)      # one pair only
            S[a, b] = S[b, a] = np.nan
        else:
            S[dead, :] = np.nan
            S[:, dead] = np.nan
        nl = bool(rng.random() < 0.3)
        t0 = grid_threshold(rng, np.nan_to_num(np.abs(S.astype(np.float32))))
        ok, net = ctx.call(ClimateNetwork, go.geogrid(lat, lon), S.copy(),
                           threshold=t0, non_local=nl, silence_level=3)
        want = np.abs(S.astype(np.float32))
    else:
        cname = str(rng.choice(["TsonisClimateNetwork",
                                "SpearmanClimateNetwork"]))
        obs, lat, lon = make_data(rng, n, int(rng.choice([24, 36, 48])))
        obs[:, dead] = rng.choice([0.0, 1.5, -3.0])
        nl = False
        t0 = float(rng.choice([0.1, 0.3, 0.5, 0.7]))
        ok, net = sub_build(ctx, rng, cname, obs, lat, lon, {}, threshold=t0,
                            non_local=nl)
        want = None
    sig = f"{cname}:undefined-entries"
    if not ok:
        ctx.violation(f"{sig}:__init__:raises:{type(net).__name__}",
                      {"exc": repr(net)}, cid)
        return
    ctx.count("undefined_similarity_cases")
    sim = np.array(net.similarity_measure(), dtype=np.float64)
    fin = np.isfinite(sim)
    if want is not None and not np.array_equal(sim, want.astype(np.float64),
                                               equal_nan=True):
        ctx.violation(f"{sig}:similarity_measure-not-the-absolute-value",
                      {"given": S, "returned": sim}, cid)
        return
    if (sim[fin] < 0).any():
        ctx.violation(f"{sig}:similarity_measure:negative-entries",
                      {"min": float(sim[fin].min()), "similarity": sim}, cid)
        return
    if want is None and fin.all():
        ctx.count("undefined_similarity_all_defined")
    W = damping(np.asarray(net.grid.angular_distance(), dtype=np.float64)) \
        if nl else None
    ths = [t0] + [float(x) for x in rng.choice(
        [0.0, 0.05, 0.2, 0.4, 0.6, 0.9], 2, replace=False)]
    for step, t in enumerate(ths):
        if step:
            ok, e = ctx.call(net.set_threshold, t)
            if not ok:
                ctx.violation(f"{sig}:set_threshold:raises:"
                              f"{type(e).__name__}", {"exc": repr(e)}, cid)
                return
        A, dec = rule(np.where(fin, sim, -1.0), t, W)
        A &= fin
        # (the similarity matrix is a single-precision array: an entry that
        #  IS the threshold at that resolution - 0.3 stored as
        #  0.30000001192... against a threshold of 0.3 - is not decided)
        with np.errstate(invalid="ignore"):
            dec = dec & (sim.astype(np.float32) != np.float32(t))
        got = np.asarray(net.adjacency) != 0
        ctx.evals()
        ctx.count("undefined_similarity_states")
        if bool(A.any()):
            ctx.nontrivial(("undef", cname, cid, step))
        if ((got != A) & dec).any():
            ctx.violation(f"{sig}:rule", {
                "similarity": sim, "threshold": t, "non_local": nl,
                "step": step, "library": got.astype(int),
                "expected": A.astype(int)}, cid)
            return
        if int(net.n_links) != int(got.sum()) // 2:
            ctx.violation(f"{sig}:n_links-inconsistent",
                          {"n_links": int(net.n_links),
                           "adjacency_sum": int(got.sum())}, cid)
            return


def run(ctx):
    import warnings
    warnings.simplefilter("ignore")
    for k in range(400 if ctx.thorough else 60):
        cid = f"undef:{k}"
        if ctx.mine(k) and ctx.want(cid):
            with ctx.guard(60):
                undefined_case(ctx, k, cid)
    nb = 90000 if ctx.thorough else 2400
    ns = 36000 if ctx.thorough else 1000
    total = ctx.time_left()
    for k in range(nb):
        if not ctx.mine(k):
            continue
        if ctx.time_left() <= 0.4 * total:
            ctx.count("base_cases_cut_by_budget")
            break
        cid = f"base:{k}"
        if ctx.want(cid):
            np.random.seed(k)
            with ctx.guard(60):
                base_case(ctx, k, cid)
            ctx.count("base_cases")
    for k in range(ns):
        if not ctx.mine(k):
            continue
        if ctx.time_left() <= 0:
            ctx.count("sub_cases_cut_by_budget")
            break
        cid = f"sub:{k}"
        if ctx.want(cid):
            np.random.seed(k)
            with ctx.guard(60):
                sub_case(ctx, k, cid)
            ctx.count("sub_cases")
