"""C05 — all representations of a network agree, and survive save/load."""
import os
import tempfile

import numpy as np

from pvm.gen import graphs as G

META = dict(
    shards={"quick": 16, "thorough": 16},
    budget={"quick": 35, "thorough": 420},
    timeout={"quick": 900, "thorough": 3600},
    technique="class-invariant monitor (I_net) on every construction path + "
              "cross-path equality with the input (metamorphic)",
    rule=("case = (adjacency, directed, node weights, link attribute 'w'); "
          "inputs: every labelled graph with 2..4 nodes (undirected) / 2..3 "
          "(directed) incl. edgeless, seeded G(n,p) up to 14 nodes, graphs "
          "with isolated trailing nodes, a single link. Every case is built "
          "through: dense list, ndarray {int8,int64,bool,float64}, scipy "
          "{csc,csr,coo,lil} (also with explicitly stored zeros), edge list (+n_nodes) via constructor and via "
          "set_edge_list, FromIGraph, copy(), undirected_copy() (undirected "
          "inputs), save->Load for graphml/graphmlz/pickle/gml, and for "
          "SpatialNetwork/GeoNetwork save->Load with their grid file (node weight types None/surface/irrigation/custom), and save -> change node weights -> save -> Load on one object. Oracle: "
          "the class invariant I_net (pvm/mon/invariants.py) holds on the "
          "result, and N, n_links, link_density, adjacency, node weights "
          "(total, mean) and link_attribute('w') equal the input (floats to "
          "1e-12, text formats 1e-9). Internal consumers of the same paths "
          "(local_vulnerability, component loops of the random-walk "
          "betweennesses) are driven on stars / 2-node graphs / graphs with "
          "isolated nodes. non-trivial = distinct (input graph, path)."),
    floors={"quick": {"paths_checked": 3000, "roundtrips": 400,
                      "edgeless_inputs": 20, "attr_compared": 500},
            "thorough": {"paths_checked": 30000, "roundtrips": 4000,
                         "edgeless_inputs": 60, "attr_compared": 5000}},
    exhaustive_subspaces={
        "quick": ["labelled undirected graphs n=2..4, directed n=2..3"],
        "thorough": ["labelled undirected graphs n=2..4, directed n=2..3"]},
    assumptions=["N >= 2 (link density of a 0/1-node network is undefined)",
                 "edge-list paths are given n_nodes (the documented "
                 "convention infers N from the largest index otherwise)"],
)

META["rule"] += (
    " " + 'Added after the second round of seeded changes: the same links listed in shuffled order and (undirected) either orientation through the edge-list constructor and FromIGraph; copies, copies of copies and save/Load round trips of such igraph-built objects, and copies of loaded objects.')

META["rule"] += (
    " " + 'Added after the third round: 40 % of the link attributes carry either sign; `FromIGraph` twice on one igraph object and on the embedded graph of a network; ClimateNetwork save -> Load with its three files.')

META["rule"] += (
    " " + 'Added after the fifth round: chains through two file formats with a change of node weights in between; half of the round trips leave the file format to be detected from the name; half of the attributed networks carry three link attributes, the second one is compared on every path.')

META["rule"] += (
    " " + 'Added after the sixth round: every saved file is loaded, the loaded network changed and saved elsewhere, and the file loaded again; an object that has refused three state changes is the input still (with its node-weight totals), and so is its copy.')

META["rule"] += (
    " " + 'Added after the seventh round: node-weight totals on every path; spatial subclasses saved and loaded as directed networks too; results edited by the caller; Fortran-ordered similarity; Python-made clones.')

META["rule"] += (
    " " + 'Added after the eighth round: set_edge_list on an object that held a larger network; every clone (copy, deepcopy, pickle, undirected copy) is changed afterwards and the original judged again.')

META["rule"] += (
    " " + 'Added after the ninth round: history save -> new links -> save -> Load on one object.')

FORMATS = ["graphml", "graphmlz", "pickle", "gml"]


def input_class(A, directed):
    n = len(A)
    m = int(A.sum()) if directed else int(A.sum() // 2)
    tags = []
    if m == 0:
        tags.append("edgeless")
    elif m == 1:
        tags.append("single-link")
    elif n and not (A[-1].any() or A[:, -1].any()):
        tags.append("isolated-last-node")
    else:
        tags.append("generic")
    return ("directed," if directed else "") + tags[0]


def check_net(ctx, net, inp, path, cid, text=False, want_attr=True,
              want_w=True):
    """net: constructed object; inp: dict(A, directed, w, W)."""
    from pvm.mon.invariants import net_invariant
    A, w, W = inp["A"], inp["w"], inp["W"]
    icls = input_class(A, inp["directed"])
    ctx.count("paths_checked")
    ctx.evals()
    ctx.nontrivial((G.canon_key(A), inp["directed"], path))
    case = {"path": path, "edges": np.argwhere(A).tolist(), "N": len(A),
            "directed": inp["directed"]}
    for b in net_invariant(net):
        ctx.violation(f"{path}:invariant:{b}:{icls}", case, cid)
    n = len(A)
    nnz = int(A.sum())
    exp = {"N": n, "n_links": nnz if inp["directed"] else nnz // 2,
           "link_density": nnz / (n * (n - 1.0))}
    for k, v in exp.items():
        got = getattr(net, k, None)
        if got is None or abs(got - v) > 1e-12:
            ctx.violation(f"{path}:{k}!=input:{icls}",
                          {**case, "got": got, "want": v}, cid)
    try:
        if not np.array_equal(np.asarray(net.adjacency), A):
            ctx.violation(f"{path}:adjacency!=input:{icls}", case, cid)
        if bool(net.directed) != bool(inp["directed"]):
            ctx.violation(f"{path}:directed-flag!=input:{icls}", case, cid)
    except Exception as e:  # noqa
        ctx.violation(f"{path}:adjacency:raises:{type(e).__name__}:{icls}",
                      {**case, "exc": repr(e)}, cid)
    tol = 1e-9 if text else 1e-12
    if want_w:
        ww = np.ones(n) if w is None else w
        nw = net.node_weights
        if nw is None or len(nw) != n or \
                not np.allclose(nw, ww, rtol=tol, atol=0):
            ctx.violation(f"{path}:node_weights!=input:{icls}",
                          {**case, "got": nw, "want": ww}, cid)
        else:
            # the totals derived from the weights belong to them
            tw_ = float(np.sum(ww))
            t1_ = float(getattr(net, "total_node_weight", np.nan))
            m1_ = float(getattr(net, "mean_node_weight", np.nan))
            if not (abs(t1_ - tw_) <= 1e-7 * max(1.0, tw_) and
                    abs(m1_ - tw_ / max(n, 1)) <= 1e-7 * max(1.0, tw_)):
                ctx.violation(f"{path}:node-weight-totals!=input:{icls}",
                              {**case, "total": t1_, "mean": m1_,
                               "want_total": tw_}, cid)
    if want_attr and W is not None:
        ok, got = ctx.call(net.link_attribute, "w")
        ctx.count("attr_compared")
        if not ok:
            ctx.violation(f"{path}:link_attribute:raises:"
                          f"{type(got).__name__}:{icls}",
                          {**case, "exc": repr(got)}, cid)
        elif not np.allclose(got, W, rtol=tol, atol=0):
            ctx.violation(f"{path}:link_attribute!=input:{icls}",
                          {**case, "got": got, "want": W}, cid)
        elif inp.get("W2") is not None and "buffers-reused" not in path:
            ok, got = ctx.call(net.link_attribute, "w2")
            ctx.count("second_attr_compared")
            if not ok:
                ctx.violation(f"{path}:second-link-attribute:raises:"
                              f"{type(got).__name__}:{icls}",
                              {**case, "exc": repr(got)}, cid)
            elif not np.allclose(got, inp["W2"], rtol=tol, atol=0):
                ctx.violation(f"{path}:second-link-attribute!=input:{icls}",
                              {**case, "got": got, "want": inp["W2"]}, cid)


def one_input(ctx, inp, cid, tmp, heavy=True):
    import igraph
    import scipy.sparse as sp
    from pyunicorn.core import Network
    A, d, w, W = inp["A"], inp["directed"], inp["w"], inp["W"]
    n = len(A)
    icls = input_class(A, d)
    if not A.any():
        ctx.count("edgeless_inputs")

    def build(path, fn, **kw):
        ok, net = ctx.call(fn)
        if not ok:
            ctx.count("paths_checked")
            ctx.violation(f"{path}:raises:{type(net).__name__}:{icls}",
                          {"path": path, "edges": np.argwhere(A).tolist(),
                           "N": n, "directed": d, "exc": repr(net)}, cid)
            return None
        check_net(ctx, net, inp, path, cid, **kw)
        return net

    W2 = inp.get("W2")

    def with_attr(net):
        if W2 is not None:
            net.set_link_attribute("a0", W2 * 3.0)
        if W is not None:
            net.set_link_attribute("w", W)
        if W2 is not None:
            net.set_link_attribute("w2", W2)
        return net

    mk = lambda a: with_attr(Network(adjacency=a, directed=d,  # noqa
                                     node_weights=w, silence_level=3))
    base = build("dense-list", lambda: mk(A.tolist()))
    for dt in (np.int8, np.int64, bool, np.float64):
        build(f"ndarray-{np.dtype(dt).name}", lambda dt=dt: mk(A.astype(dt)))
    for fmt in ("csc", "csr", "coo", "lil"):
        build(f"scipy-{fmt}",
              lambda fmt=fmt: mk(getattr(sp, fmt + "_matrix")(A)))
    # sparse input that stores explicit zeros (e.g. after entries were
    # cleared in place): they are not links
    rr, cc = np.nonzero(np.ones_like(A) - np.eye(n, dtype=A.dtype))
    build("scipy-coo-explicit-zeros",
          lambda: mk(sp.coo_matrix((A[rr, cc], (rr, cc)), shape=(n, n))))
    build("scipy-csr-explicit-zeros",
          lambda: mk(sp.csr_matrix((A[rr, cc], (rr, cc)), shape=(n, n))))
    edges = np.argwhere(A if d else np.triu(A))
    build("edge_list-ctor", lambda: with_attr(Network(
        edge_list=edges, n_nodes=n, directed=d, node_weights=w,
        silence_level=3)))

    # the caller reuses its buffers afterwards (one weight vector / matrix
    # refilled for the next network): the network built earlier is unchanged
    def reused():
        Ab = A.astype(np.int16)
        wb = None if w is None else np.array(w, dtype=np.float64)
        Wb = None if W is None else np.array(W, dtype=np.float64)
        o = Network(adjacency=Ab, directed=d, node_weights=wb,
                    silence_level=3)
        if Wb is not None:
            o.set_link_attribute("w", Wb)
        o.degree()
        Ab[...] = 1 - Ab
        np.fill_diagonal(Ab, 0)
        if wb is not None:
            wb *= 3.0
            wb += 1.0
        if Wb is not None:
            Wb *= -2.0
        return o
    build("buffers-reused-by-caller", reused)

    def via_set():
        o = Network(adjacency=np.zeros((n, n), dtype=int) if A.any() else
                    (np.ones((n, n), dtype=int) - np.eye(n, dtype=int)),
                    directed=d, node_weights=w, silence_level=3)
        o.set_edge_list(edges, n_nodes=n)
        return with_attr(o)
    build("set_edge_list", via_set)

    # an object that held a larger network before: without n_nodes the node
    # count is the one the list implies
    if len(edges) and int(edges.max()) + 1 == n:
        def via_set_larger():
            o = Network(adjacency=np.ones((n + 2, n + 2), dtype=int)
                        - np.eye(n + 2, dtype=int), directed=d,
                        silence_level=3)
            o.degree()
            o.set_edge_list(edges)
            # (node weights of the new size are the caller's to supply)
            o.node_weights = w
            return with_attr(o)
        build("set_edge_list-on-a-larger-object", via_set_larger)

    def ig():
        g = igraph.Graph(n=n, edges=[tuple(map(int, e)) for e in edges],
                         directed=d)
        if w is not None:
            g.vs["node_weight_nsi"] = list(map(float, w))
        if W is not None:
            g.es["w"] = [float(W[e.tuple]) for e in g.es]
        if W2 is not None:
            g.es["w2"] = [float(W2[e.tuple]) for e in g.es]
        return Network.FromIGraph(g, silence_level=3)
    build("FromIGraph", ig)
    # the same links listed in another order and, when undirected, in either
    # orientation: an equivalent edge list / igraph object.  Objects whose
    # embedded graph numbers its edges differently from the adjacency order
    # are then copied, saved and loaded like any other.
    rs = ctx.rng("shuffle", cid)
    es = edges[rs.permutation(len(edges))] if len(edges) else edges
    if not d and len(es):
        flip = rs.random(len(es)) < 0.5
        es = np.where(flip[:, None], es[:, ::-1], es)
    build("edge_list-ctor[shuffled]", lambda: with_attr(Network(
        edge_list=es, n_nodes=n, directed=d, node_weights=w,
        silence_level=3)))

    def ig_s():
        g = igraph.Graph(n=n, edges=[tuple(map(int, e)) for e in es],
                         directed=d)
        if w is not None:
            g.vs["node_weight_nsi"] = list(map(float, w))
        if W is not None:
            g.es["w"] = [float(W[e.tuple]) for e in g.es]
        if W2 is not None:
            g.es["w2"] = [float(W2[e.tuple]) for e in g.es]
        return Network.FromIGraph(g, silence_level=3)
    ign = build("FromIGraph[shuffled]", ig_s)

    # the caller's igraph object is used twice (and the embedded graph of a
    # network is handed to FromIGraph again): both networks are the input
    def ig_twice():
        g = igraph.Graph(n=n, edges=[tuple(map(int, e)) for e in es],
                         directed=d)
        if w is not None:
            g.vs["node_weight_nsi"] = list(map(float, w))
        if W is not None:
            g.es["w"] = [float(W[e.tuple]) for e in g.es]
        if W2 is not None:
            g.es["w2"] = [float(W2[e.tuple]) for e in g.es]
        first = Network.FromIGraph(g, silence_level=3)
        first.degree()
        return Network.FromIGraph(g, silence_level=3)
    build("FromIGraph[same-object-twice]", ig_twice)
    if ign is not None:
        build("FromIGraph[graph-of-a-network]",
              lambda: Network.FromIGraph(ign.graph, silence_level=3))
    if ign is not None:
        build("copy-of-FromIGraph[shuffled]", ign.copy)
        build("copy-of-copy-of-FromIGraph[shuffled]",
              lambda: ign.copy().copy())
        if heavy:
            fmt = FORMATS[int(rs.integers(0, len(FORMATS)))]

            def rt_ig(fmt=fmt):
                fn = os.path.join(tmp, f"ig.{fmt}")
                ign.save(fn, fileformat=fmt)
                return Network.Load(fn, fileformat=fmt, silence_level=3)
            ctx.count("roundtrips")
            ld = build(f"save-Load-of-FromIGraph[shuffled]:{fmt}", rt_ig,
                       text=fmt != "pickle")
            if ld is not None:
                build(f"copy-of-Load:{fmt}", ld.copy, text=fmt != "pickle")
    # an object that has refused three state changes (weights of the wrong
    # length, a non-square adjacency, an attribute matrix of another size)
    # is the input still - and so are its copy and its totals
    def refused():
        o = mk(A)
        for bad in (lambda: setattr(o, "node_weights", np.full(n + 2, 7.5)),
                    lambda: setattr(o, "adjacency", np.ones((2, 3), int)),
                    lambda: o.set_link_attribute("w", np.full((1, 1), 3.0))):
            try:
                bad()
            except Exception:  # noqa: refused, as it must be
                ctx.count("refused_changes")
        return o
    # what the object hands out belongs to the caller: editing the returned
    # adjacency / attribute matrix does not edit the network
    def edited():
        o = mk(A)
        B = o.adjacency
        B[...] = 1 - B
        if W is not None and A.any():
            V = o.link_attribute("w")
            V *= -3.0
        return o
    build("results-edited-by-caller", edited)
    ro = build("after-refused-changes", refused)
    if ro is not None:
        build("copy-after-refused-changes", ro.copy)
        tw = float(np.sum(np.ones(n) if w is None else w))
        if abs(float(ro.total_node_weight) - tw) > 1e-9 * max(1.0, tw) or \
                abs(float(ro.mean_node_weight) - tw / n) > 1e-9 * max(
                    1.0, tw / n):
            ctx.violation(f"after-refused-changes:node-weight-totals!=input:"
                          f"{icls}", {"total": float(ro.total_node_weight),
                                      "mean": float(ro.mean_node_weight),
                                      "want_total": tw}, cid)
    if base is not None:
        # clones made by Python itself
        import copy as _copy
        import pickle as _pickle
        build("copy.copy", lambda: _copy.copy(base))
        build("copy.deepcopy", lambda: _copy.deepcopy(base))
        build("pickle-round-trip",
              lambda: _pickle.loads(_pickle.dumps(base)))
        build("copy", base.copy)
        if not d:
            build("undirected_copy", base.undirected_copy, want_attr=False)
        # a clone is an object of its own: what is done to it afterwards is
        # not done to the original
        clones = [("copy", base.copy),
                  ("copy.deepcopy", lambda: _copy.deepcopy(base)),
                  ("pickle-round-trip",
                   lambda: _pickle.loads(_pickle.dumps(base)))]
        if not d:
            clones.append(("undirected_copy", base.undirected_copy))
        for cname_, mkc in clones:
            okc, c_ = ctx.call(mkc)
            if not okc:
                continue
            try:
                c_.node_weights = np.full(n, 9.5)
                if W is not None and A.any():
                    c_.set_link_attribute("w", np.full((n, n), -1.0))
                c_.adjacency = np.zeros((n, n), dtype=int) if A.any() else \
                    np.ones((n, n), dtype=int) - np.eye(n, dtype=int)
            except Exception:  # noqa
                ctx.count("clone_change_refused")
            ctx.count("originals_checked_after_the_clone_changed")
            check_net(ctx, base, inp,
                      f"original-after-its-{cname_}-was-changed", cid)
        else:
            ok, u = ctx.call(base.undirected_copy)
            if ok:
                from pvm.mon.invariants import net_invariant
                Au = ((A + A.T) > 0).astype(np.int8)
                ctx.count("paths_checked")
                for b in net_invariant(u):
                    ctx.violation(f"undirected_copy:invariant:{b}:{icls}",
                                  {"edges": np.argwhere(A).tolist()}, cid)
                if not np.array_equal(np.asarray(u.adjacency), Au):
                    ctx.violation(f"undirected_copy:adjacency!=A|A.T:{icls}",
                                  {"edges": np.argwhere(A).tolist()}, cid)
            else:
                ctx.violation(f"undirected_copy:raises:{type(u).__name__}:"
                              f"{icls}", {"exc": repr(u)}, cid)
        if heavy:
            for fmt in FORMATS:
                fn = os.path.join(tmp, f"net.{fmt}")

                def rt(fmt=fmt, fn=fn):
                    base.save(fn, fileformat=fmt)
                    return Network.Load(
                        fn, fileformat=fmt if (len(fn) + n) % 2 else None,
                        silence_level=3)
                ctx.count("roundtrips")
                build(f"save-Load:{fmt}", rt, text=fmt != "pickle")

                # the same file loaded a second time, after the network from
                # the first load was given other weights and attributes (and
                # saved elsewhere): the second network is the file's
                def twice(fmt=fmt, fn=fn):
                    first = Network.Load(fn, fileformat=fmt, silence_level=3)
                    first.node_weights = np.arange(1.0, n + 1.0) * 0.5
                    if W is not None and A.any():
                        first.set_link_attribute("w", (A != 0) * 9.25)
                    first.save(os.path.join(tmp, f"other.{fmt}"),
                               fileformat=fmt)
                    return Network.Load(fn, fileformat=fmt, silence_level=3)
                ctx.count("files_loaded_twice")
                build(f"Load-change-Load-again:{fmt}", twice,
                      text=fmt != "pickle")
            # history on one object: save, replace the links (the weights
            # and attributes of the final network are set as on every other
            # path, weights first), save again, load the second file
            def rt_topology(fmt=FORMATS[(n + int(A.sum())) % len(FORMATS)]):
                o = Network(adjacency=(1 - A) - np.eye(n, dtype=A.dtype)
                            if not d else A.T.copy(), directed=d,
                            node_weights=w, silence_level=3)
                o.save(os.path.join(tmp, f"t1.{fmt}"), fileformat=fmt)
                o.adjacency = A
                with_attr(o)
                o.save(os.path.join(tmp, f"t2.{fmt}"), fileformat=fmt)
                return Network.Load(os.path.join(tmp, f"t2.{fmt}"),
                                    fileformat=fmt, silence_level=3)
            ctx.count("roundtrips")
            build("save-new-links-save-Load", rt_topology, text=True)
            # history on one object: save, change the node weights (back
            # to unit / to new values), save again, load the second file
            fmt = FORMATS[int(ctx.rng("fmt", cid).integers(0, len(FORMATS)))]
            for tag, w2 in (("unit", None),
                            ("new", G.pos_weights(ctx.rng("w2", cid), n,
                                                  "loguni"))):
                def rt2(fmt=fmt, w2=w2):
                    o = mk(A)
                    f1 = os.path.join(tmp, f"a.{fmt}")
                    f2 = os.path.join(tmp, f"b.{fmt}")
                    o.save(f1, fileformat=fmt)
                    o.node_weights = w2
                    o.save(f2, fileformat=fmt)
                    return Network.Load(f2, fileformat=fmt, silence_level=3)
                ok2, net2 = ctx.call(rt2)
                ctx.count("roundtrips")
                if not ok2:
                    ctx.violation(f"save-change-weights-save-Load:raises:"
                                  f"{type(net2).__name__}:{icls}",
                                  {"exc": repr(net2), "fmt": fmt}, cid)
                else:
                    check_net(ctx, net2, {**inp, "w": w2},
                              f"save-change-weights({tag})-save-Load", cid,
                              text=fmt != "pickle")
    # a chain through two formats: saved, loaded, node weights changed on
    # the loaded object, saved in another format, loaded again
    if heavy and base is not None:
        rc = ctx.rng("chain", cid)
        f1, f2 = [FORMATS[int(i)] for i in rc.permutation(len(FORMATS))[:2]]
        w3 = G.pos_weights(rc, n, "loguni")

        def chain():
            a1 = os.path.join(tmp, f"c1.{f1}")
            a2 = os.path.join(tmp, f"c2.{f2}")
            mk(A).save(a1, fileformat=f1)
            o = Network.Load(a1, fileformat=f1, silence_level=3)
            o.node_weights = w3
            o.save(a2, fileformat=f2)
            return Network.Load(a2, fileformat=f2, silence_level=3)
        okc, netc = ctx.call(chain)
        ctx.count("roundtrips")
        if not okc:
            ctx.violation(f"save-Load-change-save-Load:raises:"
                          f"{type(netc).__name__}:{icls}",
                          {"exc": repr(netc), "formats": [f1, f2]}, cid)
        else:
            check_net(ctx, netc, {**inp, "w": w3},
                      f"save:{f1}-Load-change-weights-save:{f2}-Load", cid,
                      text=True)
    # spatial subclasses
    if heavy:
        from pyunicorn.core import GeoNetwork, SpatialNetwork, GeoGrid, Grid
        r = ctx.rng("grid", cid)
        lat = np.round(r.uniform(-80, 80, n))
        lon = np.round(r.uniform(-170, 170, n))
        gg = GeoGrid(np.arange(3.), lat, lon, silence_level=3)
        sg = Grid(np.arange(3.), np.round(r.normal(size=(2, n)) * 8) / 8,
                  silence_level=3)

        rg = ctx.rng("geo", cid)
        gfmt = FORMATS[int(rg.integers(0, len(FORMATS)))]
        nwt = [None, "surface", "irrigation", "custom"][int(
            rg.integers(0, 4))]
        wc = G.pos_weights(rg, n, "loguni")
        auto_fmt = bool(rg.random() < 0.5)
        if not auto_fmt:
            ctx.count("format_detected_from_file_name")

        def geo_rt():
            net = GeoNetwork(gg, adjacency=A, directed=d, node_weight_type=(
                "surface" if nwt == "custom" else nwt), silence_level=3)
            if nwt == "custom":
                net.node_weights = wc
            with_attr(net)
            fn = (os.path.join(tmp, "geo." + gfmt),
                  os.path.join(tmp, "geo.grid"))
            net.save(fn, fileformat=gfmt)
            return GeoNetwork.Load(fn, fileformat=gfmt if auto_fmt else None,
                                   silence_level=3)
        coslat = np.cos(np.float32(lat) * np.pi / 180)
        coslat = {None: np.ones(n), "surface": coslat,
                  "irrigation": coslat ** 2, "custom": wc}[nwt]
        inp_g = {**inp, "w": coslat}
        ok, net = ctx.call(geo_rt)
        ctx.count("roundtrips")
        if not ok:
            ctx.violation(f"GeoNetwork.save-Load:raises:"
                          f"{type(net).__name__}:{icls}",
                          {"exc": repr(net),
                           "edges": np.argwhere(A).tolist()}, cid)
        else:
            check_net(ctx, net, inp_g, f"GeoNetwork.save-Load:{gfmt}", cid,
                      text=True, want_w=False)
            nw = net.node_weights
            if nw is None or not np.allclose(nw, coslat, rtol=1e-5):
                ctx.violation(f"GeoNetwork.save-Load:{gfmt}:node_weights!="
                              f"saved:{icls}", {"got": nw, "want": coslat,
                                          "node_weight_type": nwt}, cid)
            if not np.allclose(net.grid.lat_sequence(), np.float32(lat)):
                ctx.violation(f"GeoNetwork.save-Load:grid-differs:{icls}",
                              {}, cid)

        # "constant unit weights" (type None) requested over weights that
        # were assigned by hand: weights, total and mean are those of ones
        oku, unet = ctx.call(GeoNetwork, gg, adjacency=A, directed=d,
                             node_weight_type=None, silence_level=3)
        if oku:
            ctx.count("paths_checked")
            unet.node_weights = np.arange(1.0, n + 1.0)
            oks, e = ctx.call(unet.set_node_weight_type, None)
            nw = unet.node_weights
            if oks and (nw is None or not np.array_equal(nw, np.ones(n))
                        or abs(unet.total_node_weight - n) > 1e-9 * n
                        or abs(unet.mean_node_weight - 1) > 1e-9):
                ctx.violation("GeoNetwork.set_node_weight_type(None):"
                              f"weights-total-mean!=unit:{icls}",
                              {"got": nw,
                               "total": unet.total_node_weight,
                               "mean": unet.mean_node_weight}, cid)

        # several networks on ONE grid object, with different geographic
        # weight types in turn: each has the weights of its own type
        cl = np.cos(np.float32(lat) * np.pi / 180).astype(float)
        seq = [str(v) for v in rg.choice(["surface", "irrigation"], 4)]
        for si, t in enumerate(seq):
            okg, gnet = ctx.call(GeoNetwork, gg, adjacency=A, directed=d,
                                 node_weight_type=t, silence_level=3)
            ctx.count("paths_checked")
            if not okg:
                ctx.violation(f"GeoNetwork(shared-grid):raises:"
                              f"{type(gnet).__name__}:{icls}",
                              {"exc": repr(gnet)}, cid)
                break
            want = cl if t == "surface" else cl ** 2
            if not np.allclose(gnet.node_weights, want, rtol=1e-5,
                               atol=1e-7):
                ctx.violation(f"GeoNetwork(shared-grid):node_weights!="
                              f"type:{t}:{icls}",
                              {"sequence": seq[:si + 1],
                               "got": gnet.node_weights, "want": want}, cid)
                break
            if si == 1:
                # ... also when the type of an existing network is switched
                ctx.call(gnet.set_node_weight_type,
                         "surface" if t == "irrigation" else "irrigation")

        def sp_rt():
            net = SpatialNetwork(sg, adjacency=A, directed=d,
                                 silence_level=3)
            net.node_weights = w
            with_attr(net)
            fn = (os.path.join(tmp, "sp." + gfmt),
                  os.path.join(tmp, "sp.grid"))
            net.save(fn, fileformat=gfmt)
            # (half of the time the format is left to be detected from the
            #  file name, as the documentation allows)
            return SpatialNetwork.Load(fn, fileformat=gfmt if auto_fmt
                                       else None, silence_level=3)
        ctx.count("roundtrips")
        build(f"SpatialNetwork.save-Load:{gfmt}", sp_rt, text=True)

        # ClimateNetwork: network + grid + similarity matrix in three files;
        # the loaded object is the saved network (adjacency as thresholded,
        # node weights = cos lat, link attribute)
        if A.any() and not d:
            from pyunicorn.climate import ClimateNetwork
            S = np.where(A != 0, 0.9, 0.1) + np.eye(n) * 0.9
            S = np.maximum(S, S.T)

            def cn_rt():
                # (the similarity in the memory order the caller has it in)
                Sg = np.asfortranarray(S.copy()) if rg.random() < 0.5 \
                    else S.copy()
                net = ClimateNetwork(gg, Sg, threshold=0.5,
                                     silence_level=3)
                check_net(ctx, net, {**inp, "w": np.cos(
                    np.float32(lat) * np.pi / 180).astype(float), "W2": None},
                    "ClimateNetwork(thresholded)", cid, want_attr=False)
                with_attr(net)
                fn = (os.path.join(tmp, "cn." + gfmt),
                      os.path.join(tmp, "cn.grid"),
                      os.path.join(tmp, "cn.sim"))
                net.save(fn, fileformat=gfmt)
                return ClimateNetwork.Load(fn, fileformat=gfmt,
                                           silence_level=3)
            okc, cn = ctx.call(cn_rt)
            ctx.count("roundtrips")
            if not okc:
                ctx.violation(f"ClimateNetwork.save-Load:raises:"
                              f"{type(cn).__name__}:{icls}",
                              {"exc": repr(cn), "fmt": gfmt,
                               "edges": np.argwhere(A).tolist()}, cid)
            else:
                cl = np.cos(np.float32(lat) * np.pi / 180)
                check_net(ctx, cn, {**inp, "w": cl},
                          f"ClimateNetwork.save-Load:{gfmt}", cid, text=True,
                          want_w=False)
                nw = cn.node_weights
                if nw is None or not np.allclose(nw, cl, rtol=1e-5):
                    ctx.violation(f"ClimateNetwork.save-Load:{gfmt}:"
                                  f"node_weights!=saved:{icls}",
                                  {"got": nw, "want": cl}, cid)
                oks, sim = ctx.call(cn.similarity_measure)
                if not oks or not np.allclose(np.asarray(sim, float),
                                              np.float32(S), atol=1e-6):
                    ctx.violation(f"ClimateNetwork.save-Load:{gfmt}:"
                                  f"similarity!=saved:{icls}", {}, cid)
                # the loaded network can be re-thresholded like the saved one
                okt, e = ctx.call(cn.set_threshold, 0.95)
                if not okt or int(cn.n_links) != 0:
                    ctx.violation(f"ClimateNetwork.save-Load:{gfmt}:"
                                  f"set_threshold-after-Load:{icls}",
                                  {"exc": repr(e), "n_links":
                                   getattr(cn, "n_links", None)}, cid)
    # internal consumers of the same construction paths
    #  (n >= 3: local_vulnerability removes one node, and a network needs
    #   two nodes for its link density to be defined)
    if base is not None and not d and n >= 3:
        for m in ("local_vulnerability", "newman_betweenness",
                  "nsi_newman_betweenness", "arenas_betweenness",
                  "nsi_arenas_betweenness"):
            if m.endswith("arenas_betweenness") and n > 8:
                continue
            net2 = Network(adjacency=A, node_weights=w, silence_level=3)
            ok, v = ctx.call(getattr(net2, m))
            ctx.evals()
            ctx.count("internal_consumers_run")
            if not ok:
                ctx.violation(f"consumer:{m}:raises:{type(v).__name__}:"
                              f"{icls}",
                              {"edges": np.argwhere(A).tolist(), "N": n,
                               "exc": repr(v)}, cid)
            elif np.shape(v) != (n,):
                ctx.violation(f"consumer:{m}:wrong-shape:{icls}",
                              {"shape": np.shape(v)}, cid)


def gen_inputs(ctx):
    idx = 0
    # exhaustive small
    for n in (2, 3, 4):
        for bits in range(G.count_undirected(n)):
            idx += 1
            yield idx, f"exu:{n}:{bits}", G.nth_undirected(n, bits), False
    for n in (2, 3):
        for bits in range(1 << (n * (n - 1))):
            idx += 1
            yield idx, f"exd:{n}:{bits}", G.nth_directed(n, bits), True
    for name, A in G.families().items():
        idx += 1
        yield idx, f"fam:{name}", A, False
    k = 0
    cap = 30000 if ctx.thorough else 250
    while k < cap:
        k += 1
        idx += 1
        r = ctx.rng("in", k)
        d = bool(r.integers(0, 2))
        style = r.choice(["gnp", "isolated-tail", "single", "edgeless"],
                         p=[.6, .2, .1, .1])
        n = int(r.integers(2, 15))
        if style == "gnp":
            A = G.gnp(r, n, float(r.choice([.1, .3, .6, 1.0])), d)
        elif style == "isolated-tail":
            A = G.gnp(r, n, 0.5, d)
            t = int(r.integers(1, max(2, n // 2)))
            A[-t:, :] = 0
            A[:, -t:] = 0
        elif style == "single":
            A = np.zeros((n, n), dtype=np.int8)
            i, j = r.choice(n, 2, replace=False)
            A[i, j] = 1
            if not d:
                A[j, i] = 1
        else:
            A = np.zeros((n, n), dtype=np.int8)
        yield idx, f"rnd:{k}", A, d


def run(ctx):
    tmp = tempfile.mkdtemp(dir=os.environ.get("PVM_TMP"))
    for idx, cid, A, d in gen_inputs(ctx):
        if not ctx.mine(idx) or not ctx.want(cid):
            continue
        if ctx.time_left() <= 0 and cid.startswith("rnd"):
            ctx.count("budget_truncated")
            break
        r = ctx.rng("w", cid)
        n = len(A)
        w = None if r.random() < 0.25 else G.pos_weights(r, n)
        W = None if (r.random() < 0.2) else G.link_attr(r, A, d)
        if W is not None and r.random() < 0.4:
            # link attributes are arbitrary reals: either sign
            sg = r.choice([-1.0, 1.0], size=W.shape)
            if not d:
                sg = np.triu(sg, 1)
                sg = sg + sg.T
            W = W * sg
        if W is not None and r.random() < 0.3:
            # ... and a link may carry the value 0
            z = r.random(W.shape) < 0.25
            if not d:
                z = np.triu(z, 1)
                z = z | z.T
            W = np.where(z, 0.0, W)
        # half of the attributed networks carry further link attributes
        # (one set before, one after "w"); they travel with the network too
        W2 = None
        if W is not None and A.any() and r.random() < 0.5:
            W2 = (np.asarray(W) * -0.5 + 2.0) * (A != 0)
            ctx.count("inputs_with_several_link_attributes")
        inp = {"A": A.astype(np.int8), "directed": d, "w": w, "W": W,
               "W2": W2}
        with ctx.guard(60):
            one_input(ctx, inp, cid, tmp,
                      heavy=(idx % 3 == 0) or cid.startswith(("rnd", "fam")))
        if len(ctx.samples) < 3:
            ctx.sample({"case": cid, "edges": np.argwhere(A).tolist(),
                        "directed": d, "paths": 22})
