"""C01 — results always reflect the object's current state (cache coherence).

History + executable model (M3) with the cache shadow (M2) recording
hit/miss.  See DESIGN.md §4 C01."""
import copy
import os
import warnings

import numpy as np

SUBJECT_NAMES = [
    "Network", "Network[directed]", "InteractingNetworks", "GeoNetwork",
    "ClimateNetwork", "TsonisClimateNetwork", "SpearmanClimateNetwork",
    "MutualInfoClimateNetwork", "HavlinClimateNetwork", "RecurrencePlot", "RecurrenceNetwork", "JointRecurrencePlot",
    "JointRecurrenceNetwork", "CrossRecurrencePlot",
    "InterSystemRecurrenceNetwork", "ResNetwork", "ClimateData",
    "Surrogates"]

META = dict(
    shards={"quick": 16, "thorough": 16},
    budget={"quick": 45, "thorough": 600},
    timeout={"quick": 900, "thorough": 3600},
    technique="history + executable model: twin oracle (fresh object from "
              "the model's current inputs, cold deep copy) with a cache "
              "hit/miss shadow on Cached.method",
    rule=("case = (class, seeded model of its primary inputs, history of "
          "public mutators of length 1..3 quick / 1..6 thorough incl. A-B-A histories that return to an earlier setting after a different kind of change, random "
          "subset of the query surface discovered by reflection: every public "
          "method callable without required arguments x argument patterns "
          "(key / link_attribute = attribute name, typical_weight, order, "
          "...) + summary attributes). The object is warmed with the queries, "
          "then after EVERY mutator each query is evaluated on the object "
          "first (so a stale entry can be hit) and on a twin freshly "
          "constructed from the model's current inputs; results must agree "
          "(ints exact, floats rtol 1e-6 (ARPACK tol 1e-8 in the spectral measures); same exception type counts as "
          "agreement). A mismatch is classified with a cold deep copy: "
          "stale (cold copy agrees with fresh: a cache key did not change), "
          "derived-state (even a cold copy differs), raises. Non-"
          "deterministic queries (two fresh twins disagree) are skipped. "
          "non-trivial = distinct (class, query pattern, mutator) cells in "
          "which the fresh value after the mutator differs from the value "
          "before it, so a stale result would have been visible."),
    floors={"quick": {**{f"cells:{n}": 3 for n in SUBJECT_NAMES},
                      "obj_query_cache_hits": 200},
            "thorough": {**{f"cells:{n}": 10 for n in SUBJECT_NAMES},
                         "obj_query_cache_hits": 2000}},
    assumptions=[
        "fresh twin = public constructor applied to the harness's model of "
        "the current primary inputs; after random mutators (rewiring) the "
        "model reads the adjacency back through the uncached sp_A",
        "a change of the adjacency drops link attributes (they live on the "
        "igraph edges): the model drops them too",
        "recurrence/joint/inter-system networks are modelled without "
        "explicit node weights"],
)


META["rule"] += (
    " " + 'Added later: `cache_clear()` / `clear_cache()` as neutral steps of a history (every answer must stay what it is).')

META["rule"] += (
    " " + 'Added after the fifth round: the Surrogates queries include twin surrogates for two (dimension, delay) pairs at one threshold, the caller putting its embedding back through the setter afterwards.')

META["rule"] += (
    " " + 'Added later: state changes the object refuses (non-square adjacency, wrong-length node weights, attribute / resistance matrix of another size, edge list with a non-existent node, recurrence rate > 1, window that selects nothing) are steps of the histories: the call must raise and every query must then equal that of a new object of the unchanged model; str(obj) is a query of every subject.')

META["rule"] += (
    " " + 'Added after the sixth round: the cache shadow fingerprints every mutable memoised value when it is stored and compares at every later hit (memoised-value-modified); state changes applied to a clone (copy(), deep copy, pickle round trip) are neutral steps; answers handed out by method calls before a state change are compared after it; the twin is asked in reverse order on odd steps; 12 % of the cases ask all queries that read the link attribute.')

META["rule"] += (
    " " + 'Added after the seventh round: the object as an argument of the cross-link generators / FromIGraph; histories continue on deep copies, pickle round trips and (plain networks) save -> Load; refused pair arguments on joint plots.')

def pre_import():
    from pvm.mon import shadow_cache
    shadow_cache.install()


def run(ctx):
    from pvm.mon import subjects as S, shadow_cache as SC
    from pvm.mon.reflect import same, snapshot, brief
    assert SC.PATCHED[0], "cache shadow not active"
    subs = S.all_subjects()
    assert [s.name for s in subs] == SUBJECT_NAMES
    max_hist = 6 if ctx.thorough else 3
    nq = 24 if ctx.thorough else 14
    cap = 60000 if ctx.thorough else 6000
    qcache = {}

    def call(q, o):
        with warnings.catch_warnings():
            warnings.simplefilter("ignore")
            return ctx.call(q, o)

    def agree(a, b):
        (oka, va), (okb, vb) = a, b
        if not oka or not okb:
            if oka != okb:
                return True, False
            return True, type(va) is type(vb)
        return same(va, vb, rtol=1e-6, atol=1e-10)

    k = 0
    while ctx.time_left() > 0 and k < cap:
        k += 1
        if not ctx.mine(k):
            continue
        cid = f"h:{k}"
        if not ctx.want(cid):
            continue
        r = ctx.rng("case", k)
        sub = subs[k // ctx.nshards % len(subs)] if ctx.nshards else subs[0]
        sub = subs[int(r.integers(0, len(subs)))] if k % 3 == 0 else sub
        with ctx.guard(120):
            one_case(ctx, sub, r, cid, max_hist, nq, call, agree, qcache,
                     SC, S, same, snapshot, brief)
    ctx.note("cache_shadow_counts", dict(SC.COUNTS))


class _EndCase(Exception):
    pass


class _SwitchTo(Exception):
    def __init__(self, obj, model=None):
        Exception.__init__(self)
        self.obj = obj
        self.model = model


def rejected_changes(ctx, obj, m, S):
    """State changes that the object refuses (an exception is raised): the
    object must then be what it was - every query is compared with a newly
    constructed object of the unchanged model as after any other step."""
    out = []

    def add(name, fn):
        def mut(o, mm, rr):
            try:
                fn(o, mm, rr)
            except S.Skip:
                raise
            except Exception:  # noqa: refused, as expected
                ctx.count("rejected_state_changes")
                return mm
            # accepted: the model does not know this state
            ctx.count("illegal_change_accepted:" + name)
            raise _EndCase()
        out.append(("rejected:" + name, mut))

    if hasattr(obj, "sp_A") and hasattr(obj, "node_weights"):
        def bad_adj(o, mm, rr):
            o.adjacency = np.ones((2, 3), dtype=int)
        add("adjacency=non-square", bad_adj)

        def bad_w(o, mm, rr):
            o.node_weights = np.ones(int(o.N) + 1)
        add("node_weights=wrong-length", bad_w)

        def bad_attr(o, mm, rr):
            if int(o.n_links) == 0 or int(o.N) < 3:
                raise S.Skip()
            # (over an attribute the object carries and the queries read,
            #  so that a half-done overwrite shows)
            if "w" not in (mm.get("attrs") or {}):
                raise S.Skip()
            # (a matrix with one row and column too few: fits the first
            #  links, not those of the last node)
            o.set_link_attribute("w", np.full((int(o.N) - 1,) * 2, 7.0))
        add("set_link_attribute(wrong-shape)", bad_attr)

        def bad_edges(o, mm, rr):
            o.set_edge_list(np.array([[0, int(o.N) + 3]]), n_nodes=int(o.N))
        add("set_edge_list(out-of-range)", bad_edges)
    if hasattr(obj, "set_window") and hasattr(obj, "observable"):
        def bad_window(o, mm, rr):
            t = np.asarray(o._full_grid.grid()["time"], dtype=float)
            o.set_window({"time_min": float(t.max()) + 10.0,
                          "time_max": float(t.max()) + 20.0,
                          "lat_min": 0.0, "lat_max": 0.0,
                          "lon_min": 0.0, "lon_max": 0.0})
        add("set_window(selects-nothing)", bad_window)
    if hasattr(obj, "set_fixed_recurrence_rate") and \
            not hasattr(obj, "x_embedded"):
        def bad_rate(o, mm, rr):
            o.set_fixed_recurrence_rate(1.5)
        add("set_fixed_recurrence_rate(>1)", bad_rate)
    if hasattr(obj, "JR") and hasattr(obj, "set_fixed_threshold"):
        def bad_pair(o, mm, rr):
            # one number where the pair (threshold of x, threshold of y) is
            # expected
            o.set_fixed_threshold(0.5)
        add("set_fixed_threshold(one-number-for-a-pair)", bad_pair)
    if hasattr(obj, "update_resistances"):
        def bad_res(o, mm, rr):
            o.update_resistances(np.ones((1, 1)))
        add("update_resistances(wrong-shape)", bad_res)
    return out


def is_spectral(label):
    return "eigenvector" in label or "msf_synchronizability" in label


def spectral_defined(obj):
    from pvm.gen.graphs import connected
    try:
        if getattr(obj, "directed", False):
            return False
        return connected(np.asarray(obj.sp_A.toarray()))
    except Exception:  # noqa
        return True


def one_case(ctx, sub, r, cid, max_hist, nq, call, agree, qcache, SC, S,
             same, snapshot, brief):
    try:
        with ctx.quiet():
            m = sub.gen(r)
            obj = sub.build(m)
    except Exception as e:   # noqa: construction of the *initial* object
        ctx.count(f"initial_build_raises:{sub.name}:{type(e).__name__}")
        return
    SC.forget_values()
    del SC.MODIFIED[:]
    _call = call

    def call(q, o):     # noqa: every call, on the object and on its twins
        res = _call(q, o)
        if SC.MODIFIED:
            # a memoised value was handed out again and is no longer what
            # it was when it was stored
            for cn_, mn_ in set(SC.MODIFIED):
                ctx.violation(f"{cn_}.{mn_}:memoised-value-modified",
                              {"class": sub.name}, cid)
            del SC.MODIFIED[:]
        return res
    allq = sub.queries(obj, m)
    idx = r.permutation(len(allq))[:nq]
    Q = [allq[i] for i in sorted(idx)]
    keyed = [q for q in allq if "=w" in q[0]]
    if keyed and r.random() < 0.12:
        # every query that reads the link attribute, in a random order (they
        # share memoised intermediate results: weighted path lengths, ...)
        Q = [keyed[i] for i in r.permutation(len(keyed))]
        ctx.count("cases_with_all_keyed_queries")
    # summary attributes always take part
    Q += [q for q in allq if q[0].startswith("attr:") and q not in Q]
    prev = {}
    held = {}        # arrays handed out: (live object, its snapshot)
    for label, q in Q:
        ok, v = call(q, obj)
        prev[label] = (ok, snapshot(v))
        # (results of method calls; an attribute read hands out the object's
        #  own state, which documented in-place setters do edit)
        if ok and isinstance(v, np.ndarray) and not label.startswith("attr:"):
            held[label] = (v, prev[label][1])
    def _clear(o, mm, rr):
        # the documented ways of dropping caches by hand: a state change of
        # the caches only, every answer must stay what it is
        did = False
        for nm in ("cache_clear", "clear_cache"):
            f = getattr(o, nm, None)
            if callable(f):
                f()
                did = True
        if not did:
            raise S.Skip()
        return mm
    muts = list(sub.mutators()) + [("cache_clear", _clear)]
    muts += rejected_changes(ctx, obj, m, S)
    real = list(sub.mutators())

    def _on_a_clone(how):
        # a state change applied to a copy of the object (its own copy(), a
        # deep copy, a pickle round trip): the object itself is what it was
        def mut(o, mm, rr):
            import pickle
            try:
                if how == "copy()":
                    if not callable(getattr(o, "copy", None)):
                        raise S.Skip()
                    c = o.copy()
                elif how == "deepcopy":
                    c = copy.deepcopy(o)
                else:
                    c = pickle.loads(pickle.dumps(o))
            except S.Skip:
                raise
            except Exception:  # noqa: not every class can be cloned this way
                ctx.count("clone_not_possible:" + how)
                raise S.Skip()
            if not real:
                raise S.Skip()
            nm, fn = real[int(rr.integers(0, len(real)))]
            try:
                fn(c, dict(mm), rr)
            except Exception:  # noqa: (a clone of another class, e.g.
                #                  Network.copy() of a subclass object)
                ctx.count("clone_mutator_not_applicable")
            if hasattr(c, "set_link_attribute") and hasattr(c, "n_links") \
                    and int(c.n_links) > 0:
                A_ = np.asarray(c.adjacency)
                c.set_link_attribute("w", (A_ != 0) * 5.5)
                if hasattr(c, "del_link_attribute") and rr.random() < 0.3:
                    c.del_link_attribute("w")
            ctx.count("state_changes_on_a_clone:" + how)
            return mm
        return ("on-a-clone:" + how, mut)
    muts += [_on_a_clone("copy()"), _on_a_clone("deepcopy"),
             _on_a_clone("pickle")]

    def _as_argument(o, mm, rr):
        # the object handed to a generator / converter as an argument: they
        # return new networks, the argument is what it was
        if not hasattr(o, "cross_link_density") or int(o.N) < 4:
            raise S.Skip()
        from pyunicorn.core import InteractingNetworks as _IN, Network as _N
        n_ = int(o.N)
        pr = rr.permutation(n_)
        c_ = int(rr.integers(1, n_ - 1))
        g1, g2 = sorted(pr[:c_].tolist()), sorted(pr[c_:].tolist())
        np.random.seed(int(rr.integers(1 << 30)))
        for f, kw in ((_IN.RandomlySetCrossLinks_sparse,
                       {"number_cross_links": int(rr.integers(
                           0, len(g1) * len(g2) + 1))}),
                      (_IN.RandomlySetCrossLinks,
                       {"cross_link_density": 0.5})):
            # (RandomlyRewireCrossLinks is left out: its rejection loop does
            #  not end when no admissible swap exists - see C17)
            try:
                f(o, g1, g2, **kw)
            except Exception:  # noqa: not defined for this network
                ctx.count("argument_use_refused")
        try:
            _N.FromIGraph(o.graph).degree()
        except Exception:  # noqa
            pass
        ctx.count("used_as_an_argument")
        return mm
    muts.append(("as-an-argument", _as_argument))

    def _continue_on(how):
        # the history continues on a clone of the object (deep copy, pickle
        # round trip, for plain networks also save -> Load and FromIGraph on
        # its graph): the clone is in the same state
        def mut(o, mm, rr):
            import pickle
            import tempfile
            from pyunicorn.core import Network as _N
            try:
                if how == "deepcopy":
                    c = copy.deepcopy(o)
                elif how == "pickle":
                    c = pickle.loads(pickle.dumps(o))
                else:
                    if type(o) is not _N:
                        raise S.Skip()
                    if how == "FromIGraph":
                        c = _N.FromIGraph(o.graph.copy(), silence_level=3)
                    else:
                        fmt = str(rr.choice(["graphml", "gml", "pickle"]))
                        fn = os.path.join(tempfile.mkdtemp(
                            dir=os.environ.get("PVM_TMP")), "n." + fmt)
                        o.save(fn, fileformat=fmt)
                        c = _N.Load(fn, fileformat=fmt, silence_level=3)
            except S.Skip:
                raise
            except Exception:  # noqa
                ctx.count("clone_not_possible:" + how)
                raise S.Skip()
            ctx.count("continued_on_a_clone:" + how)
            mm2 = None
            if how == "save-Load" and "w" in mm and mm["w"] is not None:
                # the text formats carry the node weights with 15-16
                # significant digits (how faithful a file is, is C05's
                # subject): the history goes on from the weights the
                # loaded object has, if they are the saved ones to 1e-12
                lw = np.asarray(c.node_weights, dtype=float)
                mw = np.asarray(mm["w"], dtype=float)
                if lw.shape == mw.shape and np.allclose(lw, mw, rtol=1e-12,
                                                        atol=0):
                    mm2 = {**mm, "w": lw.copy()}
            raise _SwitchTo(c, mm2)
        return ("continue-on:" + how, mut)
    # (FromIGraph on the object's own graph is no clone: the node weights
    #  are written to the graph only when it is saved)
    muts += [_continue_on(h) for h in ("deepcopy", "pickle", "save-Load")]
    hist = []
    L = int(r.integers(1, max_hist + 1))
    applied = []          # (mutator index, seed of its private rng)
    for step in range(L):
        mi = int(r.integers(0, len(muts)))
        mseed = int(r.integers(1 << 30))
        if step >= 2 and r.random() < 0.5:
            # A-B-A history: repeat an earlier mutator with the same private
            # random stream, i.e. return to an earlier setting after a
            # different kind of change
            mi, mseed = applied[int(r.integers(0, len(applied) - 1))]
            ctx.count("aba_steps")
        mname, mfn = muts[mi]
        applied.append((mi, mseed))
        try:
            with ctx.quiet():
                m2 = mfn(obj, m, np.random.default_rng(mseed))
        except S.Skip:
            ctx.count("mutator_precondition_skips")
            continue
        except _EndCase:
            return
        except _SwitchTo as sw:
            obj = sw.obj
            m2 = m if sw.model is None else sw.model
        except Exception as e:  # noqa
            ctx.violation(f"{sub.name}:<mutator>:{mname}:raises:"
                          f"{type(e).__name__}",
                          {"history": hist + [mname], "exc": repr(e)}, cid)
            return
        m = m2
        hist.append(mname)
        # answers handed out before the change belong to the caller: the
        # change must not have edited them
        for lb0, (live, snap0_) in list(held.items()):
            ctx.count("held_answers_checked")
            c_, e_ = same(live, snap0_, rtol=0, atol=0)
            if c_ and not e_:
                ctx.violation(f"{sub.name}:{lb0}:{mname}:"
                              "answer-handed-out-earlier-modified",
                              {"class": sub.name, "query": lb0,
                               "history": hist, "now": brief(live),
                               "was": brief(snap0_)}, cid)
                held.pop(lb0)
        # object first (may hit a stale entry) ...
        got, hits = {}, {}
        for label, q in Q:
            mk = SC.mark()
            got[label] = call(q, obj)
            ev = SC.outermost_since(mk)
            hits[label] = bool(ev) and all(e[2] for e in ev)
            if ev:
                ctx.count("obj_query_cache_hits" if hits[label]
                          else "obj_query_cache_misses")
            ctx.evals()
        # ... then the fresh twin
        try:
            with ctx.quiet():
                fresh = sub.build(m)
        except Exception as e:  # noqa
            ctx.count(f"fresh_build_raises:{sub.name}:{type(e).__name__}")
            return
        cold = None
        # (the twin is asked in another order than the object: an answer
        #  must not depend on what was asked before it either)
        Qf = Q if step % 2 == 0 else list(reversed(Q))
        for label, q in Qf:
            if is_spectral(label) and not spectral_defined(obj):
                # leading eigenvector of a disconnected / directed graph is
                # not unique (ARPACK returns an arbitrary one): undefined
                ctx.count("spectral_undefined_skipped")
                continue
            vf = call(q, fresh)
            comparable, eq = agree(got[label], vf)
            if not comparable:
                ctx.count("uncomparable_results")
                continue
            c2, changed = agree(prev[label], vf)
            if c2 and not changed:
                ctx.nontrivial((sub.name, label, mname))
                ctx.count(f"cells:{sub.name}")
                if hits[label]:
                    ctx.count("nontrivial_cells_with_observed_hit")
            if eq:
                continue
            # determinism of the query itself
            with ctx.quiet():
                fresh2 = sub.build(m)
            if not agree(call(q, fresh2), vf)[1]:
                ctx.count("nondeterministic_skipped")
                continue
            if cold is None:
                try:
                    cold = copy.deepcopy(obj)
                except Exception:  # noqa
                    cold = False
            kind = "inconsistent"
            vc = None
            if got[label][0] != vf[0]:
                kind = "raises" if not got[label][0] else "fresh-raises"
            elif cold:
                vc = call(q, cold)
                kind = "stale" if agree(vc, vf)[1] else "derived-state"
            ctx.violation(
                f"{sub.name}:{label}:{mname}:{kind}",
                {"class": sub.name, "query": label, "history": hist,
                 "cache_hit_observed": hits[label],
                 "object_returned": brief(got[label][1]),
                 "fresh_twin": brief(vf[1]),
                 "before_mutator": brief(prev[label][1]),
                 "cold_copy": None if vc is None else brief(vc[1]),
                 "model": {kk: brief(vv) for kk, vv in m.items()}}, cid)
        for label, q in Q:
            prev[label] = (got[label][0], snapshot(got[label][1]))
            if got[label][0] and isinstance(got[label][1], np.ndarray) \
                    and not label.startswith("attr:"):
                held[label] = (got[label][1], prev[label][1])
        if len(ctx.samples) < 4 and hist:
            ctx.sample({"class": sub.name, "history": list(hist),
                        "queries": [lb for lb, _ in Q][:8]})


_ = np
