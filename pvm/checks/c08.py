"""C08 -- RQA line statistics are exact run-length counts of the matrix.

Signatures: "<numerics.kernel | RecurrencePlot.method>:<differs|raises:<Exc>|
conservation|sequential!=matrix|not-realised>[:<input classes joined by '+'>]"
with input classes sparse (sequential storage mode), missing, asymmetric,
float32-boundary, embedded -- mechanism only."""
import warnings

import numpy as np

from pvm.ref import recurrence as ref

META = dict(
    shards={"quick": 8, "thorough": 16},
    budget={"quick": 30, "thorough": 420},
    timeout={"quick": 600, "thorough": 3000},
    rule=(
        "two boundaries.  KERNEL: numerics._diagline_dist/_vertline_dist/"
        "_white_vertline_dist, their _missingvalues and _sequential(_missing"
        "values) variants called exactly as recurrence_plot.py does (int32 "
        "zero histogram of length n, int8 matrix, bool mask, float64 "
        "embedding, Python float eps): EXHAUSTIVELY on every symmetric 0/1 "
        "matrix with unit diagonal n<=5 (1099) -- matrix kernels on R, "
        "sequential kernels on the Frechet series of R (supremum, eps=1.5), "
        "missing-value kernels with every mask for n<=4 and 4 (thorough: "
        "all 32) masks for n=5, on the masked and on the raw matrix -- and "
        "on seeded random matrices up to 60x60 (thorough 150), symmetric "
        "and asymmetric, densities 0..1, random masks.  API: every one of "
        "the 1099 matrices is realised through RecurrencePlot(Frechet "
        "series, metric='supremum', threshold=1.5) in both storage modes "
        "(sparse_rqa off/on), realisation verified bit for bit, all three "
        "histograms and every scalar measure for every l_min/v_min/w_min in "
        "1..N; the same with NaN states (missing_values=True) for a "
        "rotating subset of masks; seeded random dyadic series (length "
        "<=60, 1..3 components or embedding) in both modes with and without "
        "NaN; fixed local recurrence rate (asymmetric R); objects with a history (built by threshold / rate / local rate / threshold_std, all histograms queried, then re-thresholded 1-3 times through set_fixed_threshold / _threshold_std / _recurrence_rate / _local_recurrence_rate, judged against the matrix they then report); series placed on "
        "float32 rounding boundaries of eps (values from {0,+-delta,+-fl32("
        "eps), neighbours} so that distances fall in [mid(fl32 neighbours of "
        "eps), eps)), both modes against the float64 rule d<eps.  Oracle: "
        "pure-Python run-length counter; vertical = runs along the second "
        "index at fixed first index; diagonal = all diagonals but the main "
        "one, both triangles (kernel contract: lower triangle, doubled by "
        "the method); a black run adjacent to a missing point is not counted "
        "(white lines likewise, per the property statement); conservation "
        "sum l*P_vert=sum R, sum l*P_white=N^2-sum R, sum l*P_diag=sum R-tr R "
        "(no missing values); DET/L/L_max/ENTR/LAM/TT/V_max and white "
        "counterparts by their formulas on the reference histogram with the "
        "documented 1e-8 regulariser, rtol 1e-12.  non-trivial = distinct "
        "(matrix, mask, boundary, mode) whose reference histograms contain "
        "a line of length >=2 and which is not uniformly black or white."),
    floors={
        "quick": {"kernel_hist_compared": 2500, "kernel_missing_compared":
                  12000, "kernel_sequential_compared": 5000,
                  "kernel_random_matrices": 700, "api_realised": 1700,
                  "api_hist_compared": 9000, "api_scalar_compared": 150000,
                  "api_sparse_objects": 1700, "api_missing_objects": 1000,
                  "api_asymmetric_objects": 40, "derived_plot_cases": 30,
                  "api_history_objects": 40, "api_history_asymmetric": 10,
                  "long_line_cases": 3,
                  "conservation_checked": 2000, "boundary_cases": 500,
                  "boundary_cases_modes_disagree_in_R": 150,
                  "sequential_vs_matrix_compared": 3000},
        "thorough": {"kernel_hist_compared": 22000,
                     "kernel_missing_compared": 100000,
                     "kernel_sequential_compared": 36000,
                     "kernel_random_matrices": 10000, "api_realised": 15000,
                     "api_hist_compared": 85000,
                     "api_scalar_compared": 1400000,
                     "api_sparse_objects": 15000,
                     "api_missing_objects": 7500,
                     "api_asymmetric_objects": 250,
                     "api_history_objects": 350,
                     "api_history_asymmetric": 100,
                     "derived_plot_cases": 300,
                     "conservation_checked": 20000, "boundary_cases": 6500,
                     "boundary_cases_modes_disagree_in_R": 2500,
                     "sequential_vs_matrix_compared": 30000}},
    exhaustive_subspaces={
        "quick": ["symmetric unit-diagonal 0/1 matrices n<=5 (1099) at the "
                  "kernel boundary and through RecurrencePlot in both "
                  "storage modes, all l_min/v_min/w_min in 1..n",
                  "all missing-value masks for n<=4 at the kernel boundary"],
        "thorough": ["symmetric unit-diagonal 0/1 matrices n<=5 (1099) at "
                     "the kernel boundary and through RecurrencePlot in both "
                     "storage modes, all l_min/v_min/w_min in 1..n",
                     "all missing-value masks for n<=5 at the kernel "
                     "boundary"]},
    assumptions=[
        "Frechet embedding x_i=(d(i,j))_j, d in {0,1,2}, supremum metric, "
        "eps=1.5 reproduces every symmetric unit-diagonal matrix (verified "
        "per case: 'not-realised' would be an event)",
        "kernels are private; their contract is the one the public methods "
        "rely on (diagonal kernel: lower triangle, undoubled)",
        "random API series are dyadic (exact in float32) except the "
        "float32-boundary class, whose values are float32-representable by "
        "construction"],
    technique="differential testing against a run-length oracle at the "
              "kernel and the API boundary; mode-vs-mode comparison",
    level_text="bounded exhaustive + seeded random exploration",
    level_note="trusted: numpy, pvm.ref.recurrence",
)

META["rule"] += (
    " " + "Added after the second round: family 'long lines' (plateaus of 129 .. 300 samples: lines longer than 127 / 255).")

META["rule"] += (
    " " + 'Added after the fifth round: half of the local-rate cases have a quarter of their samples missing; 30 % of the history cases are sequential-mode objects whose threshold attribute is assigned after the histograms were queried; switches as bool / np.bool_ / 0-1; plateaus of 520 (thorough 1030) samples.')

META["rule"] += (
    " " + 'Added after the sixth round: missing_values switched off on 30 % of the live objects with missing samples; a shallow copy taken before the setters of a history is judged against the old matrix afterwards.')

META["rule"] += (
    " " + 'Added after the seventh round: series with NaN samples and missing_values=False, the two storage modes against each other.')

META["rule"] += (
    " " + "Added after the eighth round: family 'derived plots': JointRecurrencePlot (product of the two reference matrices) and RecurrenceNetwork answer the same line statistics.")

SCALARS = [
    ("max_diaglength", "diag", None), ("determinism", "diag", "frac"),
    ("average_diaglength", "diag", "avg"), ("diag_entropy", "diag", "ent"),
    ("max_vertlength", "vert", None), ("laminarity", "vert", "frac"),
    ("average_vertlength", "vert", "avg"), ("trapping_time", "vert", "avg"),
    ("vert_entropy", "vert", "ent"),
    ("max_white_vertlength", "white", None),
    ("average_white_vertlength", "white", "avg"),
    ("mean_recurrence_time", "white", "avg"),
    ("white_vert_entropy", "white", "ent")]
HNAME = {"diag": "diagline_dist", "vert": "vertline_dist",
         "white": "white_vertline_dist"}


def sig(where, rel, tags=()):
    t = "+".join(tags)
    return f"{where}:{rel}" + (f":{t}" if t else "")


def close(a, b):
    a = np.asarray(a, dtype=float)
    b = np.asarray(b, dtype=float)
    if a.shape != b.shape:
        return False
    return bool(np.all((a == b) | (np.isnan(a) & np.isnan(b)) |
                       (np.abs(a - b) <= 1e-12 * np.maximum(1, np.abs(b)))))


def is_nontrivial(R, hists):
    R = np.asarray(R)
    if R.size == 0 or R.all() or not R.any():
        return False
    return any(np.asarray(h)[1:].any() for h in hists)


# ------------------------------------------------------------ kernels ----
def kcall(ctx, K, name, n, *args):
    hist = np.zeros(n, dtype=np.int32)
    ok, res = ctx.call(getattr(K, name), n, hist, *args)
    ctx.evals()
    return ok, (hist if ok else res)


def kernel_matrix(ctx, K, R, cid, tags, masks=()):
    """Matrix-mode kernels on R (int8, n x n) and on (R, mask) pairs."""
    R = np.ascontiguousarray(R, dtype=np.int8)
    n = R.shape[0]
    sym = np.array_equal(R, R.T)
    want = {"_diagline_dist": ref.diag_hist(R, None, "lower"),
            "_vertline_dist": ref.vert_hist(R, True),
            "_white_vertline_dist": ref.vert_hist(R, False)}
    got = {}
    for name, w in want.items():
        ok, h = kcall(ctx, K, name, n, R)
        if not ok:
            ctx.violation(sig("numerics." + name,
                              f"raises:{type(h).__name__}", tags),
                          {"R": R, "exc": repr(h)}, cid)
            continue
        got[name] = h
        ctx.count("kernel_hist_compared")
        if not np.array_equal(h, w):
            ctx.violation(sig("numerics." + name, "differs", tags),
                          {"R": R, "lib": h, "ref": w}, cid)
    if len(got) == 3:
        ctx.count("conservation_checked")
        tot = int(R.astype(np.int64).sum())
        if ref.weighted(got["_vertline_dist"]) != tot:
            ctx.violation(sig("numerics._vertline_dist", "conservation",
                              tags), {"R": R, "hist":
                                      got["_vertline_dist"]}, cid)
        if ref.weighted(got["_white_vertline_dist"]) != n * n - tot:
            ctx.violation(sig("numerics._white_vertline_dist",
                              "conservation", tags),
                          {"R": R, "hist": got["_white_vertline_dist"]}, cid)
        if sym and 2 * ref.weighted(got["_diagline_dist"]) != \
                tot - int(np.trace(R)):
            ctx.violation(sig("numerics._diagline_dist", "conservation",
                              tags), {"R": R, "hist":
                                      got["_diagline_dist"]}, cid)
    if is_nontrivial(R, want.values()):
        ctx.nontrivial(("k", R.tobytes(), n))
    for M in masks:
        M = np.asarray(M, dtype=bool)
        for variant, Rm in (("masked", ref.mask_missing(R, M)), ("raw", R)):
            Rm = np.ascontiguousarray(Rm, dtype=np.int8)
            wm = {"_diagline_dist_missingvalues":
                  ref.diag_hist(Rm, M, "lower"),
                  "_vertline_dist_missingvalues": ref.vert_hist(Rm, True, M)}
            for name, w in wm.items():
                ok, h = kcall(ctx, K, name, n, Rm, M.copy())
                if not ok:
                    ctx.violation(sig("numerics." + name,
                                      f"raises:{type(h).__name__}",
                                      tags + ["missing"]),
                                  {"R": Rm, "M": M, "exc": repr(h)}, cid)
                    continue
                ctx.count("kernel_missing_compared")
                if not np.array_equal(h, w):
                    ctx.violation(sig("numerics." + name, "differs",
                                      tags + ["missing"]),
                                  {"R": Rm, "M": M, "lib": h, "ref": w,
                                   "variant": variant}, cid)
            if M.any() and is_nontrivial(Rm, wm.values()):
                ctx.nontrivial(("km", Rm.tobytes(), M.tobytes()))


def kernel_sequential(ctx, K, E, eps, cid, tags, masks=(), R=None):
    """Sequential kernels on the float64 embedding E with threshold eps.
    R: the matrix they must reproduce (computed by the caller's rule)."""
    E = np.ascontiguousarray(E, dtype=np.float64)
    n, dim = E.shape
    if R is None:
        R = ref.threshold_matrix(ref.distance_matrix(E, E, "supremum"), eps)
    want = {"_diagline_dist_sequential": ref.diag_hist(R, None, "lower"),
            "_vertline_dist_sequential": ref.vert_hist(R, True)}
    for name, w in want.items():
        ok, h = kcall(ctx, K, name, n, E, float(eps), dim)
        if not ok:
            ctx.violation(sig("numerics." + name,
                              f"raises:{type(h).__name__}", tags),
                          {"E": E, "eps": eps, "exc": repr(h)}, cid)
            continue
        ctx.count("kernel_sequential_compared")
        if not np.array_equal(h, w):
            ctx.violation(sig("numerics." + name, "differs", tags),
                          {"E": E, "eps": eps, "lib": h, "ref": w}, cid)
    for M in masks:
        M = np.asarray(M, dtype=bool)
        Em = E.copy()
        Em[M, :] = np.nan
        Rm = ref.mask_missing(R, M)
        wm = {"_diagline_dist_sequential_missingvalues":
              ref.diag_hist(Rm, M, "lower"),
              "_vertline_dist_sequential_missingvalues":
              ref.vert_hist(Rm, True, M)}
        for name, w in wm.items():
            ok, h = kcall(ctx, K, name, n, M.copy(), Em, float(eps), dim)
            if not ok:
                ctx.violation(sig("numerics." + name,
                                  f"raises:{type(h).__name__}",
                                  tags + ["missing"]),
                              {"E": Em, "M": M, "exc": repr(h)}, cid)
                continue
            ctx.count("kernel_sequential_compared")
            ctx.count("kernel_missing_compared")
            if not np.array_equal(h, w):
                ctx.violation(sig("numerics." + name, "differs",
                                  tags + ["missing"]),
                              {"E": Em, "M": M, "eps": eps, "lib": h,
                               "ref": w}, cid)


# ---------------------------------------------------------------- API ----
def api_object(ctx, RP, x, cid, tags, sparse, missing, **kw):
    from pvm.gen.held import as_held
    hx, htag = as_held(ctx.rng("held", cid, sparse, missing), np.array(x),
                       allow_list=False)
    ctx.count("input_held_as:" + htag)
    from pvm.gen.held import as_flag
    rf = ctx.rng("flags", cid, sparse, missing)
    ok, obj = ctx.call(RP, hx, metric=kw.pop("metric", "supremum"),
                       sparse_rqa=as_flag(rf, sparse),
                       missing_values=as_flag(rf, missing),
                       silence_level=3, **kw)
    ctx.evals()
    if not ok:
        ctx.violation(sig("RecurrencePlot.__init__",
                          f"raises:{type(obj).__name__}", tags),
                      {"x": x, "kw": kw, "exc": repr(obj)}, cid)
        return None
    return obj


def api_judge(ctx, obj, R, miss, cid, tags, case, r, all_mins=True,
              white_missing_rule=True):
    """All histograms + scalars of one RecurrencePlot object against the
    run-length reference of R (the matrix the object must represent)."""
    R = np.asarray(R)
    n = R.shape[0]
    sparse = "sparse" in tags
    sym = np.array_equal(R, R.T)
    refh = {"diag": ref.diag_hist(R, miss),
            "vert": ref.vert_hist(R, True, miss),
            "white": ref.vert_hist(R, False,
                                   miss if white_missing_rule else None)}
    libh = {}
    with warnings.catch_warnings():
        warnings.simplefilter("ignore")
        for key in ("diag", "vert", "white"):
            name = HNAME[key]
            t = list(tags)
            if key == "diag" and not sym:
                t = [x for x in t if x != "missing"] + ["asymmetric"]
            if key == "white" and miss is None:
                t = [x for x in t if x != "missing"]
            ok, h = ctx.call(getattr(obj, name))
            ctx.evals()
            if not ok:
                if isinstance(h, NotImplementedError):
                    ctx.count("not_implemented_documented")
                else:
                    if key == "white" and sparse:
                        t = ["sparse"]      # no sequential white kernel
                    ctx.violation(sig("RecurrencePlot." + name,
                                      f"raises:{type(h).__name__}", t),
                                  {**case, "exc": repr(h)}, cid)
                continue
            ctx.count("api_hist_compared")
            h = np.asarray(h)
            if np.array_equal(h, refh[key]):
                libh[key] = h
            else:
                ctx.violation(sig("RecurrencePlot." + name, "differs", t),
                              {**case, "R": R, "missing": miss, "lib": h,
                               "ref": refh[key]}, cid)
        if miss is None and len(libh) == 3:
            ctx.count("conservation_checked")
            tot = int(R.astype(np.int64).sum())
            bad = []
            if ref.weighted(libh["vert"]) != tot:
                bad.append("vertline_dist")
            if ref.weighted(libh["white"]) != n * n - tot:
                bad.append("white_vertline_dist")
            if sym and ref.weighted(libh["diag"]) != tot - int(np.trace(R)):
                bad.append("diagline_dist")
            for b in bad:
                ctx.violation(sig("RecurrencePlot." + b, "conservation",
                                  tags), {**case, "R": R}, cid)
        if is_nontrivial(R, refh.values()):
            ctx.nontrivial(("api", R.tobytes(),
                            None if miss is None else miss.tobytes(),
                            tuple(tags)))
        mins = list(range(1, n + 1)) if (all_mins or n <= 6) else \
            sorted({1, 2, n, int(r.integers(1, n + 1))})
        for name, key, kind in SCALARS:
            if key not in libh:
                ctx.count("scalar_blocked")
                continue
            h = refh[key]
            argsets = [()] if kind is None else [(m,) for m in mins]
            if kind is not None:
                argsets.append(())                      # documented default
            for args in argsets:
                if kind is None:
                    want = ref.max_length(h)
                else:
                    m = args[0] if args else (1 if key == "white" else 2)
                    if m > n:
                        continue
                    want = {"frac": ref.fraction_in_lines,
                            "avg": ref.average_length,
                            "ent": ref.entropy}[kind](h, m)
                ok, v = ctx.call(getattr(obj, name), *args)
                ctx.evals()
                if not ok:
                    ctx.violation(sig("RecurrencePlot." + name,
                                      f"raises:{type(v).__name__}", tags),
                                  {**case, "args": args, "exc": repr(v)},
                                  cid)
                    break
                ctx.count("api_scalar_compared")
                if not close(v, want):
                    ctx.violation(sig("RecurrencePlot." + name, "differs",
                                      tags), {**case, "args": args, "lib": v,
                                              "ref": want, "hist": h}, cid)
                    break
        # recurrence rate (sparse mode derives it from vertline_dist) and
        # the summary
        ok, v = ctx.call(obj.recurrence_rate)
        ctx.evals()
        if not ok:
            ctx.violation(sig("RecurrencePlot.recurrence_rate",
                              f"raises:{type(v).__name__}", tags),
                          {**case, "exc": repr(v)}, cid)
        elif (miss is None or not sparse) and (not sparse or "vert" in libh):
            ctx.count("api_scalar_compared")
            if not close(v, float(R.sum()) / (n * n)):
                ctx.violation(sig("RecurrencePlot.recurrence_rate",
                                  "differs", tags),
                              {**case, "lib": v,
                               "ref": float(R.sum()) / (n * n)}, cid)
        if "diag" in libh and "vert" in libh and (miss is None or not sparse):
            lm, vm = mins[len(mins) // 2], mins[-1]
            ok, v = ctx.call(obj.rqa_summary, lm, vm)
            ctx.evals()
            want = {"RR": float(R.sum()) / (n * n),
                    "DET": ref.fraction_in_lines(refh["diag"], lm),
                    "L": ref.average_length(refh["diag"], lm),
                    "LAM": ref.fraction_in_lines(refh["vert"], vm)}
            if not ok:
                ctx.violation(sig("RecurrencePlot.rqa_summary",
                                  f"raises:{type(v).__name__}", tags),
                              {**case, "exc": repr(v)}, cid)
            else:
                ctx.count("api_scalar_compared")
                if not (isinstance(v, dict) and set(v) == set(want) and
                        all(close(v[q], want[q]) for q in want)):
                    ctx.violation(sig("RecurrencePlot.rqa_summary",
                                      "differs", tags),
                                  {**case, "lib": v, "ref": want}, cid)
    return libh


def api_pair(ctx, RP, x, R, miss, cid, tags, case, r, all_mins=True, **kw):
    """Matrix mode and sequential mode objects of the same input; each
    against the reference of R, then against each other."""
    missing = miss is not None
    out = {}
    for sparse in (False, True):
        t = list(tags) + (["sparse"] if sparse else []) + \
            (["missing"] if missing else [])
        obj = api_object(ctx, RP, x, cid, t, sparse, missing, **dict(kw))
        if obj is None:
            continue
        ctx.count("api_sparse_objects" if sparse else "api_matrix_objects")
        if missing:
            ctx.count("api_missing_objects")
        if not sparse:
            Rlib = np.asarray(obj.recurrence_matrix())
            ctx.evals()
            if Rlib.shape != R.shape or not np.array_equal(Rlib, R):
                ctx.violation(sig("RecurrencePlot.recurrence_matrix",
                                  "not-realised", t),
                              {**case, "lib": Rlib, "ref": R}, cid)
                continue
            ctx.count("api_realised")
        out[sparse] = api_judge(ctx, obj, R, miss, cid, t, case, r, all_mins)
        out[(sparse, "obj")] = obj
        if missing and not sparse and r.random() < 0.3:
            # the public switch turned off on the live object: the matrix
            # (rows and columns of missing samples are empty) is then
            # counted like any other matrix
            obj.missing_values = False
            ctx.count("api_missing_switched_off")
            api_judge(ctx, obj, R, None, cid, t + ["switched-off"], case, r,
                      all_mins)
            obj.missing_values = True
    if (False, "obj") in out and (True, "obj") in out:
        # direct mode-vs-mode comparison, independent of the reference
        for key in ("diag", "vert"):
            name = HNAME[key]
            with warnings.catch_warnings():
                warnings.simplefilter("ignore")
                ok1, a = ctx.call(getattr(out[(False, "obj")], name))
                ok2, b = ctx.call(getattr(out[(True, "obj")], name))
            ctx.evals(2)
            if ok1 and ok2:
                ctx.count("sequential_vs_matrix_compared")
                if not np.array_equal(a, b) and key in out[True]:
                    # (a sequential histogram that already disagreed with
                    # the reference has been reported)
                    ctx.violation(sig("RecurrencePlot." + name,
                                      "sequential!=matrix",
                                      list(tags) + (["missing"] if missing
                                                    else [])),
                                  {**case, "matrix_mode": a,
                                   "sequential_mode": b}, cid)
    return out


def nan_series(x, miss, r, whole):
    x = np.array(x, dtype=float)
    for i in np.where(miss)[0]:
        if whole or x.shape[1] == 1:
            x[i, :] = np.nan
        else:
            x[i, int(r.integers(0, x.shape[1]))] = np.nan
    return x


def boundary_series(r, n):
    """Values whose pairwise distances sit on float32 rounding boundaries
    of eps.  Returns (x float64 array of float32-representable values,
    eps)."""
    kind = int(r.integers(0, 3))
    if kind == 0:
        eps = float(r.choice([0.5, 0.75, 1.0, 1.25, 3.0]))     # fl32 exact
    elif kind == 1:
        eps = float(r.choice([0.1, 0.3, 0.7, 1.1, 0.2]))
    else:
        eps = float(np.round(r.uniform(0.05, 3.0), 6))
    e32 = np.float32(eps)
    dl = np.float32(float(e32) * 2.0 ** -int(r.integers(26, 34)))
    vals = [0.0, float(dl), -float(dl), float(e32), -float(e32),
            float(np.nextafter(e32, np.float32(0))),
            float(np.nextafter(e32, np.float32(10))),
            2 * float(e32), float(e32) / 2]
    vals = [v for v in vals if float(np.float32(v)) == v]
    x = r.choice(vals, size=n)
    return np.asarray(x, dtype=np.float64), eps


# --------------------------------------------------------------- run ----
def run(ctx):
    from pyunicorn.timeseries import RecurrencePlot as RP
    from pyunicorn.timeseries._ext import numerics as K
    idx = 0
    all5 = ctx.thorough
    # 1. exhaustive: kernels + API on every matrix n<=5
    for n in range(1, 6):
        for code, R in ref.all_binary_symmetric(n):
            idx += 1
            if not ctx.mine(idx):
                continue
            cid = f"ex:{n}:{code}"
            if not ctx.want(cid):
                continue
            r = ctx.rng("ex", n, code)
            if n <= 4 or all5:
                masks = [np.array([m >> i & 1 for i in range(n)], bool)
                         for m in range(1, 1 << n)]
            else:
                ms = {int(v) for v in r.integers(1, 1 << n, 4)}
                masks = [np.array([m >> i & 1 for i in range(n)], bool)
                         for m in sorted(ms)]
            kernel_matrix(ctx, K, R, cid, [], masks)
            X = ref.frechet_series(R)
            kernel_sequential(ctx, K, X, 1.5, cid, [], masks[:6], R=R)
            case = {"R": R, "series": "frechet", "threshold": 1.5}
            api_pair(ctx, RP, X, R, None, cid, [], case, r, threshold=1.5)
            # a rotating subset of the masks through the API
            for M in masks[(code % max(len(masks), 1)):][:2 if n < 5 or all5
                                                         else 1]:
                Xm = nan_series(X, M, r, whole=bool(code & 1))
                api_pair(ctx, RP, Xm, ref.mask_missing(R, M), M, cid, [],
                         {**case, "missing": M, "x": Xm}, r, threshold=1.5)
    ctx.note("exhaustive_matrices", idx)
    # 2. random
    nmax = 150 if ctx.thorough else 60
    cap = 240000 if ctx.thorough else 6400
    k = 0
    while ctx.time_left() > 0 and k < cap:
        k += 1
        if not ctx.mine(k):
            continue
        cid = f"rnd:{k}"
        if not ctx.want(cid):
            continue
        r = ctx.rng("rnd", k)
        fam = k % 8
        with ctx.guard(120):
            if fam in (0, 1):
                random_kernel_case(ctx, K, r, cid, nmax)
            elif fam == 2:
                random_sequential_kernel_case(ctx, K, r, cid, nmax)
            elif fam in (3, 4):
                random_api_case(ctx, RP, r, cid, nmax)
            elif fam == 5 and (k // 8) % 40 == 3:
                long_lines_case(ctx, RP, r, cid, ctx.thorough)
            elif fam == 5 and (k // 8) % 10 == 7:
                unmasked_nan_case(ctx, RP, r, cid)
            elif fam == 5 and (k // 8) % 5 == 1:
                subclass_case(ctx, r, cid)
            elif fam == 5:
                if (k // 8) % 2:
                    local_rate_case(ctx, RP, r, cid, nmax)
                else:
                    history_case(ctx, RP, r, cid, nmax)
            else:
                boundary_case(ctx, RP, K, r, cid, nmax)


def random_matrix(r, n):
    p = float(r.choice([0.0, 1.0, r.random(), r.random() ** 3,
                        1 - r.random() ** 3]))
    R = (r.random((n, n)) < p).astype(np.int8)
    style = int(r.integers(0, 4))
    if style == 0:                       # symmetric, unit diagonal
        R = np.triu(R, 1)
        R = R + R.T + np.eye(n, dtype=np.int8)
    elif style == 1:                     # symmetric, arbitrary diagonal
        R = np.triu(R)
        R = R + np.triu(R, 1).T
    elif style == 2:                     # banded: long lines
        w = int(r.integers(0, n))
        i, j = np.indices((n, n))
        R = (np.abs(i - j) <= w).astype(np.int8)
        holes = r.random((n, n)) < 0.05
        R[holes] = 0
    return np.ascontiguousarray(R, dtype=np.int8)


def random_kernel_case(ctx, K, r, cid, nmax):
    n = int(r.integers(1, (nmax if r.random() < 0.3 else 20) + 1))
    R = random_matrix(r, n)
    masks = []
    for _ in range(2):
        q = float(r.choice([0.05, 0.2, 0.5, 1.0]))
        M = r.random(n) < q
        if M.any():
            masks.append(M)
    tags = [] if np.array_equal(R, R.T) else ["asymmetric"]
    ctx.count("kernel_random_matrices")
    kernel_matrix(ctx, K, R, cid, tags, masks)


def random_sequential_kernel_case(ctx, K, r, cid, nmax):
    n = int(r.integers(1, (nmax if r.random() < 0.3 else 20) + 1))
    dim = int(r.integers(1, 4))
    E = r.integers(-16, 17, (n, dim)) / 8.0
    D = ref.distance_matrix(E, E, "supremum")
    vals = np.unique(D)
    eps = float(r.choice(vals)) if r.random() < 0.5 else \
        float(r.choice(vals)) + 1 / 16.0
    masks = []
    M = r.random(n) < 0.2
    if M.any():
        masks.append(M)
    ctx.count("kernel_random_matrices")
    kernel_sequential(ctx, K, E, eps, cid, [], masks)


def random_api_case(ctx, RP, r, cid, nmax):
    n = int(r.integers(1, (nmax if r.random() < 0.25 else 18) + 1))
    kw = {}
    if r.random() < 0.4:
        dim, tau = int(r.integers(1, 4)), int(r.integers(1, 4))
        while n - (dim - 1) * tau < 1 and dim > 1:
            dim -= 1
        kw.update(dim=dim, tau=tau)
        d = 1
    else:
        d = int(r.integers(1, 4))
    if r.random() < 0.5:
        x = r.integers(-16, 17, (n, d)) / 8.0
    else:
        x = np.repeat(r.integers(0, 4, (n, d)), r.integers(1, 5, n),
                      axis=0)[:n] / 2.0
    miss = None
    if r.random() < 0.4 and n >= 2:
        m = r.random((n, d)) < min(0.4, 1.0 / n + 0.08)
        if m.any():
            x = x.copy()
            x[m] = np.nan
    E = ref.as2d(ref.f32(x))
    if kw:
        E = ref.embed(E[:, 0], kw["dim"], kw["tau"])
    if np.isnan(x).any():
        miss = ref.nan_states(E)
    D = ref.distance_matrix(E, E, "supremum")
    np.fill_diagonal(D, np.where(ref.nan_states(E), np.nan, 0.0))
    vals = np.unique(D[np.isfinite(D)])
    if vals.size == 0:
        vals = np.array([1.0])
    eps = float(r.choice(vals)) + (0.0 if r.random() < 0.5 else 1 / 16.0)
    R = ref.threshold_matrix(D, eps)
    if miss is not None:
        R = ref.mask_missing(R, miss)
    case = {"x": x, "threshold": eps, **kw}
    tags = []
    api_pair(ctx, RP, x, R, miss, cid, tags, case, r, all_mins=False,
             threshold=eps, **kw)


def subclass_case(ctx, r, cid):
    """The plots derived from RecurrencePlot answer the same line statistics
    for the matrix they stand for: the joint plot of two records (product
    of their two matrices), the recurrence network (same matrix as the plot
    of its record)."""
    from pyunicorn.timeseries import JointRecurrencePlot, RecurrenceNetwork
    n = int(r.integers(1, 25))
    x = r.integers(-16, 17, (n, int(r.integers(1, 3)))) / 8.0
    y = r.integers(-16, 17, (n, int(r.integers(1, 3)))) / 8.0

    def mat(z, eps):
        E = ref.as2d(ref.f32(z))
        return ref.threshold_matrix(ref.distance_matrix(E, E, "supremum"),
                                    eps)
    ex = float(r.integers(1, 24)) / 8.0 + 1 / 16.0
    ey = float(r.integers(1, 24)) / 8.0 + 1 / 16.0
    if r.random() < 0.6:
        ok, obj = ctx.call(JointRecurrencePlot, x, y, metric=("supremum",) * 2,
                           threshold=(ex, ey), silence_level=3)
        R = mat(x, ex) * mat(y, ey)
        tags, case = ["joint"], {"x": x, "y": y, "threshold": (ex, ey)}
    else:
        ok, obj = ctx.call(RecurrenceNetwork, x, metric="supremum",
                           threshold=ex, silence_level=3)
        R = mat(x, ex)
        tags, case = ["network"], {"x": x, "threshold": ex}
    ctx.evals()
    if not ok:
        ctx.violation(sig(type(obj).__name__ + ".__init__", "raises", tags),
                      {**case, "exc": repr(obj)}, cid)
        return
    ctx.count("derived_plot_cases")
    api_judge(ctx, obj, R, None, cid, tags, case, r, all_mins=False)


def local_rate_case(ctx, RP, r, cid, nmax):
    """Asymmetric matrices through the public class (matrix mode)."""
    n = int(r.integers(2, 25))
    x = r.integers(-32, 33, (n, int(r.integers(1, 3)))) / 8.0
    rr = float(r.choice([0.1, 0.25, 0.5, r.random()]))
    # a third of the asymmetric matrices also have missing samples (lines
    # touching them are excluded)
    miss = None
    tags = []
    if n >= 4 and r.random() < 0.5:
        m = r.random(n) < 0.25
        if m.any() and not m.all():
            x = x.copy()
            x[m, 0] = np.nan
            miss = m
            tags = ["missing"]
            ctx.count("api_asymmetric_with_missing")
    obj = api_object(ctx, RP, x, cid, tags, False, miss is not None,
                     local_recurrence_rate=rr)
    if obj is None:
        return
    R = np.asarray(obj.recurrence_matrix())
    ctx.count("api_asymmetric_objects")
    api_judge(ctx, obj, R, miss, cid, tags,
              {"x": x, "local_recurrence_rate": rr}, r, all_mins=False)


def long_lines_case(ctx, RP, r, cid, thorough):
    """Series made of a few long plateaus: black and white lines longer than
    127 / 255 samples (line-length counters of narrow integer type, block
    boundaries of tiled loops), matrix and sequential mode."""
    lens = [int(v) for v in r.choice([129, 140, 200, 257, 300] if thorough
                                     else [129, 140, 200, 257],
                                     int(r.integers(2, 4)))]
    if r.random() < (0.3 if thorough else 0.15):
        # one plateau longer than 512 (1024) samples
        lens[0] = int(r.choice([520, 1030] if thorough else [520]))
        lens = lens[:2]
        ctx.count("long_line_cases_beyond_512")
    levels = r.permutation(8)[:len(lens)].astype(float) * 4.0
    x = np.concatenate([np.full(n, lv) + r.integers(0, 2, n) / 8.0
                        for n, lv in zip(lens, levels)])
    if r.random() < 0.5:
        x = np.concatenate([x, x[:lens[0]]])      # long diagonals too
    x = x[:, None]
    eps = float(r.choice([0.0625, 0.25, 1.0]))
    E = ref.as2d(ref.f32(x))
    D = ref.distance_matrix(E, E, "supremum")
    R = ref.threshold_matrix(D, eps)
    ctx.count("long_line_cases")
    ctx.maxstat("longest_vertical_line",
                float(np.flatnonzero(ref.vert_hist(R, True, None)).max() + 1))
    api_pair(ctx, RP, x, R, None, cid, ["long-lines"],
             {"plateau_lengths": lens, "levels": levels, "threshold": eps},
             r, all_mins=False, threshold=eps)


def unmasked_nan_case(ctx, RP, r, cid):
    """A series with NaN samples and missing_values=False (the default): the
    property does not say what such a sample is to the plot, but the two
    storage modes are two implementations of one plot - their histograms
    agree."""
    n = int(r.integers(6, 40))
    d = int(r.integers(1, 3))
    x = r.integers(-16, 17, (n, d)) / 8.0
    x[r.random((n, d)) < 0.15] = np.nan
    if not np.isnan(x).any():
        x[int(r.integers(0, n)), 0] = np.nan
    eps = float(r.choice([0.5, 1.0, 2.0]))
    objs = {}
    for sparse in (False, True):
        objs[sparse] = api_object(ctx, RP, x, cid, ["unmasked-nan"], sparse,
                                  False, threshold=eps)
        if objs[sparse] is None:
            return
    ctx.count("unmasked_nan_cases")
    for key in ("diag", "vert"):
        name = HNAME[key]
        with warnings.catch_warnings():
            warnings.simplefilter("ignore")
            ok1, a = ctx.call(getattr(objs[False], name))
            ok2, b = ctx.call(getattr(objs[True], name))
        ctx.evals(2)
        if ok1 and ok2:
            ctx.count("sequential_vs_matrix_compared")
            ctx.nontrivial(("unmasked-nan", cid, key))
            if not np.array_equal(a, b):
                ctx.violation(sig("RecurrencePlot." + name,
                                  "sequential!=matrix", ["unmasked-nan"]),
                              {"x": x, "threshold": eps, "matrix_mode": a,
                               "sequential_mode": b}, cid)


def history_case(ctx, RP, r, cid, nmax):
    """A matrix that the object obtained after construction: built one way,
    queried, then re-thresholded through the public setters (symmetric and
    asymmetric rules in any order).  Whatever matrix the object now reports,
    its histograms are the run-length counts of that matrix."""
    n = int(r.integers(2, 25))
    x = r.integers(-32, 33, (n, int(r.integers(1, 3)))) / 8.0
    if r.random() < 0.3:
        # sequential mode: there is no matrix, the histograms follow the
        # object's threshold; change it after the histograms were queried
        t1, t2 = [float(v) for v in r.choice([0.4, 1.0, 1.7, 2.5], 2,
                                             replace=False)]
        obj = api_object(ctx, RP, x, cid, ["history", "sparse"], True, False,
                         threshold=t1)
        if obj is None:
            return
        with warnings.catch_warnings():
            warnings.simplefilter("ignore")
            for q in ("diagline_dist", "vertline_dist", "recurrence_rate",
                      "determinism", "laminarity"):
                ctx.call(getattr(obj, q))
        obj.threshold = t2
        E = ref.as2d(ref.f32(x))
        R2 = ref.threshold_matrix(ref.distance_matrix(E, E, "supremum"), t2)
        ctx.count("api_history_sequential")
        api_judge(ctx, obj, R2, None, cid, ["history", "sparse"],
                  {"x": x, "threshold": t1, "then threshold =": t2}, r,
                  all_mins=False)
        return
    ctor = [{"threshold": float(r.choice([0.4, 1.0, 2.5]))},
            {"recurrence_rate": float(r.choice([0.1, 0.3, 0.6]))},
            {"local_recurrence_rate": float(r.choice([0.15, 0.4]))},
            {"threshold_std": float(r.choice([0.3, 1.0]))}][
                int(r.integers(0, 4))]
    obj = api_object(ctx, RP, x, cid, ["history"], False, False, **dict(ctor))
    if obj is None:
        return
    steps = []
    setters = [("set_fixed_threshold", lambda: float(r.choice([0.3, 1.1, 3.0]))),
               ("set_fixed_threshold_std", lambda: float(r.choice([0.2, 0.9]))),
               ("set_fixed_recurrence_rate",
                lambda: float(r.choice([0.12, 0.35, 0.7]))),
               ("set_fixed_local_recurrence_rate",
                lambda: float(r.choice([0.1, 0.3, 0.55])))]
    with warnings.catch_warnings():
        warnings.simplefilter("ignore")
        nsteps = int(r.integers(1, 4))
        last_local = r.random() < 0.4
        # a shallow copy of the object taken before the setters run (and the
        # matrix it reported then): the setters act on the object, the copy
        # keeps describing the matrix it was copied with
        import copy as _copy
        twin = _copy.copy(obj) if r.random() < 0.4 else None
        R_before = np.array(obj.recurrence_matrix(), copy=True)
        for si in range(nsteps):
            # warm every cache with the matrix about to be replaced
            for q in ("diagline_dist", "vertline_dist", "white_vertline_dist",
                      "recurrence_rate", "determinism", "laminarity"):
                ctx.call(getattr(obj, q))
            name, argf = setters[3 if (last_local and si == nsteps - 1)
                                 else int(r.integers(0, len(setters)))]
            a = argf()
            ok, e = ctx.call(getattr(obj, name), a)
            steps.append([name, a])
            if not ok:
                ctx.violation(sig("RecurrencePlot." + name,
                                  f"raises:{type(e).__name__}", ["history"]),
                              {"x": x, "ctor": ctor, "steps": steps,
                               "exc": repr(e)}, cid)
                return
    R = np.asarray(obj.recurrence_matrix())
    ctx.count("api_history_objects")
    if not np.array_equal(R, R.T):
        ctx.count("api_history_asymmetric")
    api_judge(ctx, obj, R, None, cid, ["history"],
              {"x": x, "ctor": ctor, "steps": steps}, r, all_mins=False)
    if twin is not None:
        ctx.count("api_history_shallow_copies")
        Rt = np.asarray(twin.recurrence_matrix())
        if Rt.shape != R_before.shape or not np.array_equal(Rt, R_before):
            ctx.violation(sig("RecurrencePlot.recurrence_matrix",
                              "copy-changed-by-setters-of-the-original",
                              ["history"]),
                          {"x": x, "ctor": ctor, "steps": steps}, cid)
        else:
            api_judge(ctx, twin, R_before, None, cid, ["history", "copy"],
                      {"x": x, "ctor": ctor, "steps": steps}, r,
                      all_mins=False)


def boundary_case(ctx, RP, K, r, cid, nmax):
    n = int(r.integers(2, 16))
    x, eps = boundary_series(r, n)
    E = ref.as2d(ref.f32(x))
    assert np.array_equal(E[:, 0], x)
    D = ref.distance_matrix(E, E, "supremum")
    R = ref.threshold_matrix(D, eps)                      # float64 rule
    with np.errstate(invalid="ignore"):
        R32 = (D.astype(np.float32) < np.float32(eps)).astype(np.int8)
    ctx.count("boundary_cases")
    if not np.array_equal(R, R32):
        ctx.count("boundary_cases_modes_disagree_in_R")
    case = {"x": x, "threshold": eps, "class": "float32-boundary"}
    api_pair(ctx, RP, x, R, None, cid, ["float32-boundary"], case, r,
             all_mins=False, threshold=eps)
    kernel_sequential(ctx, K, E, eps, cid, ["float32-boundary"], R=R)
