"""C20 — compiled kernels never touch memory outside their arrays.

Monitor: AddressSanitizer + UBSan on a clang-14 rebuild of the four extension
modules (recoverable build, halt_on_error=0, so one defect does not mask the
rest).  One entry-point family per process; after every case the sanitizer
log of the process is inspected, new report blocks are attributed to that
case and keyed (kernel symbol, error class).  A process death (SEGV/abort) is
attributed through a progress file and the shard is resumed after the case.
Python exceptions are accepted rejections."""
import faulthandler
import itertools
import os
import re
import sys
import warnings

import numpy as np

FAMILIES = ["grid", "corenet", "interacting", "spatial", "resistive", "rp",
            "rp_lines", "crp_jrp", "visibility", "surrogates", "funcnet",
            "climate", "rp_twins", "isrn", "big_layouts", "funcnet_knn",
            "resistive_large", "resized", "corenet_hub"]

META = dict(
    flavour="asanrec",
    shards={"quick": len(FAMILIES), "thorough": len(FAMILIES)},
    budget={"quick": 45, "thorough": 420},
    timeout={"quick": 900, "thorough": 3600},
    resume_on_death=True,
    asan_options=("detect_leaks=0:halt_on_error=0:abort_on_error=0:"
                  "allocator_may_return_null=1:detect_stack_use_after_return=0:"
                  "log_path={log}"),
    ubsan_options="print_stacktrace=1:halt_on_error=0:log_path={log}",
    technique="compiler sanitizers (ASan+UBSan) on an instrumented rebuild, "
              "hostile-shape workload through the public API",
    rule=("cases: every public entry point that reaches an _ext kernel "
          "(18 families, one process each; the 15th repeats the pointer-"
          "passing entry points with inputs of KiB..MiB size in Fortran, "
          "transposed, strided and negative-stride layouts, where freed "
          "temporaries are no longer hidden by NumPy's small-block cache) x shapes with every dimension in "
          "{0,1,2,3,small random}, N != T and N > T, dtypes {bool,int8,int32,"
          "int64,float32,float64}, C/Fortran/strided layouts, NaN/inf content, "
          "degenerate parameters (tau >= length, k >= N, empty node lists); "
          "thorough adds seeded random shapes until the budget is used. "
          "Oracle: no ASan/UBSan report block and no signal death while the "
          "case runs (Python exceptions are accepted rejections). "
          "non-trivial = distinct (entry point, shape/dtype/parameter "
          "pattern) cases that executed inside instrumented kernel code "
          "(returned or raised after the call was dispatched)."),
    floors={"quick": {"cases_run": 1500, "families_done": len(FAMILIES)},
            "thorough": {"cases_run": 12000,
                         "families_done": len(FAMILIES)}},
    assumptions=[
        "ASan sees heap/stack/global red-zone overflows and use-after-free; "
        "intra-object overflows and uninitialised reads are out of reach "
        "(MSan unusable with an uninstrumented interpreter)",
        "typed-buffer indexing is guarded by Cython boundscheck=True "
        "(IndexError = rejection); raw-pointer C code is what ASan watches",
        "clang -O1 build of the same sources; gcc -O3 specific UB not seen"],
    level_text=("ASan+UBSan observed no memory error / UB in any compiled "
                "kernel over the generated hostile-shape workload; held on "
                "the executions produced, not a proof of memory safety"),
)

META["rule"] += (
    " " + "Added after the second round of seeded changes: the climate methods that take the caller's own anomaly array (mutual_information, calculate_similarity_measure, rank_time_series) with shapes (0,N), (0,0), (T,0), (1,1), ... in float64 / float32 / int64.")

META["rule"] += (
    " " + "Added after the third round: surrogates of another shape than the data for the surrogate test functions (incl. the library's own shorter twin surrogates).")

META["rule"] += (
    " " + "Added after the fifth round: 17th family 'resistive_large' (networks of 130 .. 220, thorough 420 nodes); the public Rainfall helpers with the caller's own arrays of fewer / more series than the network has nodes.")

META["rule"] += (
    " " + 'Added after the sixth round: rainfall records of 1025, 1100, 2100 samples; 129, 200, 300 bins in the surrogate MI test.')

META["rule"] += (
    " " + "Added after the seventh round: ResNetwork with a resized adjacency / node index outside the network; family 'resized' (six more subclasses, every parameter-free method); cross plots of trajectories with different numbers of components; symmetrize_by_absmax with matrices that do not match the object.")

META["rule"] += (
    " " + "Added after the eighth round: family 'corenet_hub' (stars of 232 / 300 nodes, cliquishness orders 3-5); resized objects have been asked before the resize (and are asked again after it); visibility timings two samples short / three long.")

_state = {"off": 0, "path": None}


def _san_new():
    """New sanitizer output of this process since the last call."""
    if _state["path"] is None:
        pref = os.environ.get("PVM_SANLOG")
        if not pref:
            return ""
        _state["path"] = f"{pref}.{os.getpid()}"
    try:
        with open(_state["path"], "rb") as fh:
            fh.seek(_state["off"])
            data = fh.read()
    except OSError:
        return ""
    _state["off"] += len(data)
    return data.decode(errors="replace")


_FRAME = re.compile(r"#\d+ 0x[0-9a-f]+ in (\S+) (\S+)")


def parse_reports(text):
    """-> list of (symbol, error class, excerpt)."""
    out = []
    if not text:
        return out
    blocks = re.split(r"(?=^==\d+==ERROR: AddressSanitizer)|"
                      r"(?=^\S+:\d+:\d+: runtime error:)", text, flags=re.M)
    for b in blocks:
        m = re.search(r"ERROR: AddressSanitizer: (\S+)", b)
        if m:
            cls = "asan:" + m.group(1)
        else:
            m = re.search(r"runtime error: ([^\n:]*)", b)
            if not m:
                continue
            cls = "ubsan:" + re.sub(r"[-+]?\d[\d.e+-]*", "N",
                                    m.group(1)).strip()[:60]
        sym = "?"
        for fm in _FRAME.finditer(b):
            fn, loc = fm.group(1), fm.group(2)
            if "pyunicorn" in loc or "_ext" in loc or fn.startswith("__pyx"):
                sym = re.sub(r"^__pyx_(pf|pw|f)_\d*pyunicorn_\d*\w*?_ext_\d*"
                             r"numerics_\d*", "", fn)
                break
        else:
            mm = re.search(r"(\S*src_numerics\.c|\S*numerics\.(pyx|c)):(\d+)",
                           b)
            if mm:
                sym = os.path.basename(mm.group(1))
        out.append((sym, cls, b[:1500]))
    return out


def _entry(cid):
    return cid.split("|", 1)[0]


def run_cases(ctx, cases):
    ctx.ckpt_interval = 0.0
    _san_new()
    for cid, thunk in cases:
        if not ctx.start(cid):
            continue
        faulthandler.dump_traceback_later(60, exit=True)
        try:
            with warnings.catch_warnings():
                warnings.simplefilter("ignore")
                np.random.seed(12345)
                ok, val = ctx.call(thunk)
        finally:
            faulthandler.cancel_dump_traceback_later()
        ctx.evals()
        ctx.count("cases_run")
        ctx.count("returned" if ok else "rejected_with_exception")
        if not ok:
            ctx.count("exc:" + type(val).__name__)
        ctx.nontrivial(cid)
        if ok and ctx.evaluations % 97 == 0:
            ctx.sample({"case": cid, "outcome": "returned"})
        new = _san_new()
        for sym, cls, ex in parse_reports(new):
            ctx.violation(f"{_entry(cid)}:{sym}:{cls}",
                          {"case": cid, "report": ex,
                           "python_outcome": "returned" if ok else repr(val)},
                          cid)
    ctx.count("families_done")


# ---------------------------------------------------------------------------
# input material

DIMS = [0, 1, 2, 3, 5]


def arrs(rng, shape, kinds=("f64", "f32", "i64", "i32", "i8", "bool", "F",
                            "strided", "nan", "inf")):
    """The same logical array in several dtypes/layouts/contents."""
    base = rng.normal(size=shape)
    out = {}
    for k in kinds:
        if k == "f64":
            out[k] = base.copy()
        elif k == "f32":
            out[k] = base.astype(np.float32)
        elif k == "i64":
            out[k] = (base * 3).astype(np.int64)
        elif k == "i32":
            out[k] = (base * 3).astype(np.int32)
        elif k == "i8":
            out[k] = (base * 3).astype(np.int8)
        elif k == "bool":
            out[k] = base > 0
        elif k == "F":
            out[k] = np.asfortranarray(base)
        elif k == "strided":
            big = rng.normal(size=tuple(2 * s for s in shape))
            out[k] = big[tuple(slice(None, None, 2) for _ in shape)]
        elif k == "nan":
            b = base.copy()
            if b.size:
                b.flat[rng.integers(0, b.size)] = np.nan
            out[k] = b
        elif k == "inf":
            b = base.copy()
            if b.size:
                b.flat[rng.integers(0, b.size)] = np.inf
            out[k] = b
    return out


def sym_adj(rng, n, p=0.5):
    A = np.triu(rng.random((n, n)) < p, 1)
    return (A | A.T).astype(np.int8)


def sizes(ctx, extra=()):
    r = ctx.rng("sizes")
    s = list(DIMS) + list(extra)
    if ctx.thorough:
        s += [int(v) for v in r.integers(6, 40, 4)]
    return s


# ---------------------------------------------------------------------------
# families

def fam_grid(ctx):
    from pyunicorn.core import GeoGrid, Grid
    r = ctx.rng("grid")
    for n in sizes(ctx, (17,)):
        for kind, a in arrs(r, (2, n)).items():
            def t(a=a, n=n):
                g = GeoGrid(np.arange(3.), a[0] * 40, a[1] * 90,
                            silence_level=3)
                D = g.angular_distance()
                g.euclidean_distance()
                if n:
                    g.node_number(1.0, 2.0)
                return D.shape
            yield f"GeoGrid.angular_distance|n={n},{kind}", t
        for dim in (0, 1, 2, 3, 5):
            for kind, a in arrs(r, (dim, n), ("f64", "f32", "i64", "F",
                                              "strided", "nan")).items():
                def t(a=a):
                    g = Grid(np.arange(2.), a, silence_level=3)
                    return g.euclidean_distance().shape
                yield f"Grid.euclidean_distance|dim={dim},n={n},{kind}", t
    for nlat, nlon in itertools.product((0, 1, 2, 4), repeat=2):
        def t(nlat=nlat, nlon=nlon):
            g = GeoGrid.RegularGrid(
                time_seq=np.arange(2.),
                space_grid=(np.linspace(-80, 80, nlat),
                            np.linspace(0, 350, nlon)), silence_level=3)
            return g.angular_distance().shape
        yield f"GeoGrid.RegularGrid|{nlat}x{nlon}", t


def _nets(ctx, tag, directed=(False,), extra=()):
    r = ctx.rng(tag)
    for n in sizes(ctx, extra):
        for d in directed:
            for p in (0.0, 0.4, 1.0):
                A = sym_adj(r, n, p) if not d else \
                    (r.random((n, n)) < p).astype(np.int8)
                if n:
                    np.fill_diagonal(A, 0)
                yield n, d, p, A


def fam_corenet(ctx):
    from pyunicorn.core import Network
    for n, d, p, A in _nets(ctx, "corenet", (False, True), (9,)):
        for dt in (np.int8, np.int64, np.float64, bool):
            tag = f"n={n},dir={int(d)},p={p},{np.dtype(dt).name}"

            def mk(A=A, d=d, dt=dt):
                return Network(adjacency=A.astype(dt), directed=d,
                               silence_level=3)
            for order in (3, 4, 5):
                yield (f"Network.local_cliquishness|order={order},{tag}",
                       lambda mk=mk, o=order: mk().local_cliquishness(o))
            yield (f"Network.nsi_betweenness|{tag}",
                   lambda mk=mk: mk().nsi_betweenness())
            yield (f"Network.nsi_betweenness|st,{tag}",
                   lambda mk=mk, n=n: mk().nsi_betweenness(
                       sources=list(range(0, n, 2)),
                       targets=list(range(1, n, 2))))
            yield (f"Network.nsi_betweenness|empty-st,{tag}",
                   lambda mk=mk: mk().nsi_betweenness(sources=[], targets=[]))
            yield (f"Network.interregional_betweenness|{tag}",
                   lambda mk=mk, n=n: mk().interregional_betweenness(
                       sources=list(range(n // 2)),
                       targets=list(range(n // 2, n))))
            if dt is np.int8:
                yield (f"Network.newman_betweenness|{tag}",
                       lambda mk=mk: mk().newman_betweenness())
                yield (f"Network.nsi_newman_betweenness|{tag}",
                       lambda mk=mk: mk().nsi_newman_betweenness())
                yield (f"Network.nsi_newman_betweenness|ale,{tag}",
                       lambda mk=mk: mk().nsi_newman_betweenness(
                           add_local_ends=True))
                yield (f"Network.nsi_arenas_betweenness|{tag}",
                       lambda mk=mk: mk().nsi_arenas_betweenness())
                yield (f"Network.arenas_betweenness|{tag}",
                       lambda mk=mk: mk().arenas_betweenness())


def fam_corenet_hub(ctx):
    """Degrees whose products leave 32 bits (cliquishness normalisation)."""
    from pyunicorn.core import Network
    r = ctx.rng("corenet-hub")
    for n in (232, 300):
        A = np.zeros((n, n), dtype=np.int8)
        A[0, 1:] = A[1:, 0] = 1
        for _ in range(40):
            i, j = (int(v) for v in r.integers(1, n, 2))
            if i != j:
                A[i, j] = A[j, i] = 1
        for order in (3, 4, 5):
            yield (f"Network.local_cliquishness|order={order},hub,n={n}",
                   lambda A=A, o=order: Network(
                       adjacency=A, silence_level=3).local_cliquishness(o))


def fam_interacting(ctx):
    from pyunicorn.core import InteractingNetworks as IN
    r = ctx.rng("inter")
    meths = ["cross_transitivity", "nsi_cross_transitivity",
             "cross_local_clustering", "nsi_cross_local_clustering",
             "cross_global_clustering", "nsi_cross_global_clustering",
             "cross_betweenness", "nsi_cross_betweenness",
             "cross_transitivity_sparse", "cross_local_clustering_sparse"]
    for n, d, p, A in _nets(ctx, "inter", (False,), (8, 11)):
        parts = {"split": (list(range(n // 2)), list(range(n // 2, n))),
                 "empty1": ([], list(range(n))),
                 "empty2": (list(range(n)), []),
                 "single": ([0], list(range(1, n))) if n else ([], []),
                 "shuffled": (list(r.permutation(n)[: n // 2]),
                              list(r.permutation(n)[n // 2:])),
                 "overlap": (list(range(n)), list(range(n))),
                 "np-int64": (np.arange(n // 2), np.arange(n // 2, n)),
                 "np-int8": (np.arange(n // 2, dtype=np.int8),
                             np.arange(n // 2, n, dtype=np.int8))}
        for pn, (n1, n2) in parts.items():
            for m in meths:
                def t(A=A, n1=n1, n2=n2, m=m):
                    net = IN(adjacency=A, silence_level=3)
                    return getattr(net, m)(n1, n2)
                yield f"InteractingNetworks.{m}|n={n},p={p},{pn}", t
        # random cross link models
        for pn in ("split", "single", "empty1"):
            n1, n2 = parts[pn]

            def t1(A=A, n1=n1, n2=n2):
                net = IN(adjacency=A, silence_level=3)
                return IN.RandomlySetCrossLinks(
                    net, network1=n1, network2=n2, cross_link_density=0.5
                ).adjacency.shape
            yield f"IN.RandomlySetCrossLinks|n={n},p={p},{pn}", t1

            def t2(A=A, n1=n1, n2=n2):
                net = IN(adjacency=A, silence_level=3)
                return IN.RandomlySetCrossLinks(
                    net, network1=n1, network2=n2,
                    number_cross_links=len(n1) * len(n2)).adjacency.shape
            yield f"IN.RandomlySetCrossLinks|full,n={n},p={p},{pn}", t2

            def t3(A=A, n1=n1, n2=n2):
                net = IN(adjacency=A, silence_level=3)
                cl = net.number_cross_links(n1, n2)
                if cl < 2 or cl > len(n1) * len(n2) - 2:
                    raise ValueError("precondition: rewiring undefined")
                deg = net.cross_degree(n1, n2), net.cross_degree(n2, n1)
                if max(map(max, deg)) * 2 > cl:
                    raise ValueError("precondition: may not terminate")
                return IN.RandomlyRewireCrossLinks(
                    net, network1=n1, network2=n2, swaps=3).adjacency.shape
            yield f"IN.RandomlyRewireCrossLinks|n={n},p={p},{pn}", t3


def geomodel_swappable(net, D, eps, model):
    """Brute force: does an admissible swap exist (conditions of the kernel,
    float32 distances, edge orientation as the library will store it)?"""
    A = np.asarray(net.adjacency)
    D = np.asarray(D, dtype=np.float32)
    edges = net.graph.get_edgelist()
    deg = A.sum(axis=1)

    def c1(s, t, k, l):
        return ((abs(D[s, t] - D[k, t]) < eps and abs(D[k, l] - D[s, l]) < eps)
                or (abs(D[s, t] - D[s, l]) < eps and
                    abs(D[k, l] - D[k, t]) < eps))

    def c2(s, t, k, l):
        return (abs(D[s, t] - D[s, l]) < eps and abs(D[t, s] - D[t, k]) < eps
                and abs(D[k, l] - D[k, t]) < eps and
                abs(D[l, k] - D[l, s]) < eps)
    for (s, t) in edges:
        for (k, l) in edges:
            if len({s, t, k, l}) < 4 or A[s, l] or A[t, k]:
                continue
            if model == "I" and c1(s, t, k, l):
                return True
            if model == "II" and c2(s, t, k, l):
                return True
            if model == "III" and c2(s, t, k, l) and deg[s] == deg[k] \
                    and deg[t] == deg[l]:
                return True
    return False


def fam_spatial(ctx):
    from pyunicorn.core import SpatialNetwork, GeoNetwork, GeoGrid, Grid
    r = ctx.rng("spatial")
    for n, d, p, A in _nets(ctx, "spatial", (False,), (8, 12)):
        if p == 1.0 or p == 0.0 and n > 3:
            pass
        lat = r.uniform(-80, 80, n)
        lon = r.uniform(-170, 170, n)

        def mk(A=A, lat=lat, lon=lon):
            g = GeoGrid(np.arange(2.), lat, lon, silence_level=3)
            return GeoNetwork(g, adjacency=A, silence_level=3)
        for model in ("I", "II", "III"):
            for eps in (0.3, 10.0):
                def t(mk=mk, model=model, eps=eps):
                    net = mk()
                    D = net.grid.angular_distance()
                    done = 0
                    for _ in range(3):
                        # the rejection loop only terminates if an admissible
                        # swap exists for the stored edge orientation
                        if not geomodel_swappable(net, D, eps, model):
                            break
                        getattr(net, "randomly_rewire_geomodel_" + model)(
                            distance_matrix=D, iterations=1, inaccuracy=eps)
                        done += 1
                    if not done:
                        raise ValueError("precondition: no admissible swap")
                    return net.n_links
                yield (f"GeoNetwork.randomly_rewire_geomodel_{model}|"
                       f"n={n},p={p},eps={eps}", t)
        yield (f"GeoNetwork.set_random_links_by_distance|n={n},p={p}",
               lambda mk=mk: mk().set_random_links_by_distance(a=0.0, b=-1.0))
        for m in ("link_distance_distribution", "average_link_distance",
                  "max_link_distance", "area_weighted_connectivity",
                  "average_neighbor_area_weighted_connectivity"):
            def t(mk=mk, m=m):
                net = mk()
                f = getattr(net, m)
                try:
                    return f()
                except TypeError:
                    return f(3)
            yield f"GeoNetwork.{m}|n={n},p={p}", t
    _ = SpatialNetwork, Grid


def fam_resistive(ctx):
    from pyunicorn.core import ResNetwork
    r = ctx.rng("res")
    for n in [1, 2, 3, 4, 5, 7] + ([12, 20] if ctx.thorough else []):
        for p in (0.3, 1.0):
            for rep in range(2):
                A = sym_adj(r, n, p)
                # ensure connected: add a path
                for i in range(n - 1):
                    A[i, i + 1] = A[i + 1, i] = 1
                R = r.uniform(0.5, 5, (n, n))
                R = np.triu(R, 1)
                R = (R + R.T) * A
                for kind in ("f64", "f32", "int", "complex"):
                    RR = {"f64": R, "f32": R.astype(np.float32),
                          "int": np.ceil(R).astype(int) * A,
                          "complex": R * (1 + 0.5j)}[kind]

                    def mk(RR=RR):
                        return ResNetwork(RR, silence_level=3)
                    tag = f"n={n},p={p},{kind},{rep}"
                    yield (f"ResNetwork.vertex_current_flow_betweenness|{tag}",
                           lambda mk=mk, n=n: [
                               mk().vertex_current_flow_betweenness(i)
                               for i in range(min(n, 3))])
                    yield (f"ResNetwork.edge_current_flow_betweenness|{tag}",
                           lambda mk=mk: mk().edge_current_flow_betweenness())
                    yield (f"ResNetwork.effective_resistance|{tag}",
                           lambda mk=mk, n=n: [
                               mk().effective_resistance(0, j)
                               for j in range(n)])
                    yield (f"ResNetwork.diameter_effective_resistance|{tag}",
                           lambda mk=mk: (
                               mk().diameter_effective_resistance(),
                               mk().average_effective_resistance()))
        # an object whose adjacency was replaced by one of another size
        # through the (inherited) public setter, and node indices just
        # outside the network: refused or answered, never read past the
        # arrays
        if n >= 3:
            for grow in (2, -1):
                def t(R=R, n=n, grow=grow):
                    net = ResNetwork(R, silence_level=3)
                    m = n + grow
                    if grow > 1 or n % 2:
                        # (an object that has been in use before)
                        try:
                            net.vertex_current_flow_betweenness(0)
                            net.edge_current_flow_betweenness()
                            net.effective_resistance(0, 1)
                        except Exception:  # noqa
                            pass
                    net.adjacency = np.ones((m, m), dtype=int) - np.eye(
                        m, dtype=int)
                    out = []
                    for f in (lambda: net.vertex_current_flow_betweenness(1),
                              lambda: net.vertex_current_flow_betweenness(
                                  m - 1),
                              net.edge_current_flow_betweenness,
                              lambda: net.effective_resistance(0, m - 1)):
                        try:
                            out.append(np.shape(f()))
                        except Exception as e:  # noqa: a refusal is fine
                            out.append(type(e).__name__)
                    return out
                yield (f"ResNetwork.vertex_current_flow_betweenness|"
                       f"adjacency-resized{grow:+d},n={n},p={p}", t)

            def t2(R=R, n=n):
                net = ResNetwork(R, silence_level=3)
                out = []
                for i in (n, n + 3, -1, -n - 1):
                    try:
                        out.append(float(
                            net.vertex_current_flow_betweenness(i)))
                    except Exception as e:  # noqa
                        out.append(type(e).__name__)
                return out
            yield (f"ResNetwork.vertex_current_flow_betweenness|"
                   f"node-index-outside,n={n},p={p}", t2)
        # a dense symmetrised matrix as it comes (diagonal entries included:
        # the constructor accepts them)
        if n >= 2:
            Rd = r.uniform(0.5, 5, (n, n))
            Rd = Rd + Rd.T
            for kind, RR in (("f64", Rd), ("f32", Rd.astype(np.float32))):
                def mkd(RR=RR):
                    return ResNetwork(RR, silence_level=3)
                tag = f"n={n},dense-with-diagonal,{kind}"
                yield (f"ResNetwork.vertex_current_flow_betweenness|{tag}",
                       lambda mkd=mkd, n=n: [
                           mkd().vertex_current_flow_betweenness(i)
                           for i in range(min(n, 4))])
                yield (f"ResNetwork.edge_current_flow_betweenness|{tag}",
                       lambda mkd=mkd: mkd().edge_current_flow_betweenness())
                yield (f"ResNetwork.effective_resistance|{tag}",
                       lambda mkd=mkd, n=n: [mkd().effective_resistance(0, j)
                                             for j in range(n)])


def fam_resistive_large(ctx):
    """Networks of 10^2 .. 10^3 nodes (per-link scratch memory, stack use
    and index arithmetic that small networks never stress)."""
    from pyunicorn.core import ResNetwork
    r = ctx.rng("reslarge")
    for n, p in [(130, 1.0), (150, 0.3), (220, 0.05)] + (
            [(320, 0.1), (420, 0.01)] if ctx.thorough else []):
        A = sym_adj(r, n, p)
        for i in range(n - 1):
            A[i, i + 1] = A[i + 1, i] = 1
        R = r.uniform(0.5, 5, (n, n))
        R = np.triu(R, 1)
        R = (R + R.T) * A
        for kind in ("f64", "f32"):
            RR = R if kind == "f64" else R.astype(np.float32)

            def mk(RR=RR):
                return ResNetwork(RR, silence_level=3)
            tag = f"n={n},p={p},{kind}"
            yield (f"ResNetwork.edge_current_flow_betweenness|large,{tag}",
                   lambda mk=mk: np.shape(
                       mk().edge_current_flow_betweenness()))
            yield (f"ResNetwork.vertex_current_flow_betweenness|large,{tag}",
                   lambda mk=mk, n=n: [
                       mk().vertex_current_flow_betweenness(i)
                       for i in (0, n - 1)])
            yield (f"ResNetwork.effective_resistance|large,{tag}",
                   lambda mk=mk, n=n: (
                       mk().effective_resistance(0, n - 1),
                       mk().effective_resistance_closeness_centrality(1)
                       if n <= 220 else None))


def fam_resized(ctx):
    """Objects of network subclasses whose adjacency was replaced by a
    matrix of another size through the inherited public setter: every
    parameter-free public method is then asked.  Refusals (exceptions) are
    fine, reading past the arrays the subclass keeps (grid, similarity,
    distances, recurrence matrix, ...) is not."""
    import inspect
    from pyunicorn.core import (GeoNetwork, GeoGrid, SpatialNetwork, Grid,
                                InteractingNetworks)
    from pyunicorn.timeseries import RecurrenceNetwork, VisibilityGraph
    import pyunicorn.climate as C
    r = ctx.rng("resized")
    n = 7
    lat, lon = r.uniform(-70, 70, n), r.uniform(0, 300, n)
    A0 = sym_adj(r, n, 0.5)
    x = r.normal(size=40)
    S = np.abs(np.corrcoef(r.normal(size=(n, 30))))

    makers = {
        "GeoNetwork": lambda: GeoNetwork(
            GeoGrid(np.arange(2.), lat, lon, silence_level=3), adjacency=A0,
            silence_level=3),
        "SpatialNetwork": lambda: SpatialNetwork(
            Grid(np.arange(2), r.normal(size=(2, n)), silence_level=3),
            adjacency=A0, silence_level=3),
        "InteractingNetworks": lambda: InteractingNetworks(
            adjacency=A0, silence_level=3),
        "ClimateNetwork": lambda: C.ClimateNetwork(
            GeoGrid(np.arange(2.), lat, lon, silence_level=3), S,
            threshold=0.2, silence_level=3),
        "RecurrenceNetwork": lambda: RecurrenceNetwork(
            x[:n + 5], threshold=0.8, silence_level=3),
        "VisibilityGraph": lambda: VisibilityGraph(x[:n + 5],
                                                   silence_level=3),
    }
    deny = ("save", "Load", "plot", "set_", "randomly_", "clear", "copy")
    for cname, mk in makers.items():
        for grow in (3, -2):
            def t(mk=mk, grow=grow):
                with warnings.catch_warnings():
                    warnings.simplefilter("ignore")
                    o = mk()
                    m = int(o.N) + grow
                    done = 0
                    for name in ([None] + sorted(dir(type(o)))) * 2:
                        if name is None:
                            # (first round: the object as built, so that
                            #  whatever it memoises is there; then the
                            #  adjacency is replaced and all is asked again)
                            if done:
                                o.adjacency = np.ones((m, m), dtype=int) - \
                                    np.eye(m, dtype=int)
                            continue
                        if name.startswith("_") or \
                                any(name.startswith(d) for d in deny):
                            continue
                        f = getattr(o, name, None)
                        if not callable(f):
                            continue
                        try:
                            sig = inspect.signature(f)
                        except (TypeError, ValueError):
                            continue
                        if any(p_.default is p_.empty and p_.kind in (
                                p_.POSITIONAL_OR_KEYWORD, p_.POSITIONAL_ONLY)
                               for p_ in sig.parameters.values()):
                            continue
                        try:
                            f()
                        except Exception:  # noqa: a refusal is fine
                            pass
                        done += 1
                    if o.N != m:
                        raise RuntimeError("adjacency was not replaced")
                    return done
            yield f"{cname}.<all queries>|adjacency-resized{grow:+d}", t


def _series(ctx, tag, lens=None, dims=(1, 2, 3)):
    r = ctx.rng(tag)
    lens = lens or ([0, 1, 2, 3, 5, 9] + ([20, 33] if ctx.thorough else []))
    for T in lens:
        for dm in dims:
            shape = (T,) if dm == 1 else (T, dm)
            for kind, a in arrs(r, shape, ("f64", "f32", "i64", "F",
                                           "strided", "nan")).items():
                yield T, dm, kind, a


RP_MODES = [dict(threshold=0.7), dict(threshold=0.0), dict(threshold_std=0.5),
            dict(recurrence_rate=0.3), dict(recurrence_rate=1.0),
            dict(recurrence_rate=0.0), dict(local_recurrence_rate=0.4),
            dict(local_recurrence_rate=1.0),
            dict(adaptive_neighborhood_size=0.3),
            dict(adaptive_neighborhood_size=1.0),
            dict(adaptive_neighborhood_size=0.0)]
EMB = [dict(), dict(dim=1, tau=1), dict(dim=2, tau=1), dict(dim=3, tau=2),
       dict(dim=2, tau=50), dict(dim=9, tau=1)]


def fam_rp(ctx):
    from pyunicorn.timeseries import RecurrencePlot as RP
    for T, dm, kind, a in _series(ctx, "rp"):
        for metric in ("supremum", "euclidean", "manhattan"):
            for mi, mode in enumerate(RP_MODES):
                for ei, emb in enumerate(EMB if dm == 1 else [dict()]):
                    if kind not in ("f64", "nan") and (mi > 3 or ei > 2):
                        continue
                    if metric != "supremum" and mi not in (0, 3, 6, 8):
                        continue

                    def t(a=a, metric=metric, mode=mode, emb=emb, kind=kind):
                        rp = RP(a, metric=metric, silence_level=3,
                                missing_values=(kind == "nan"), **mode, **emb)
                        return rp.recurrence_matrix().shape, \
                            rp.recurrence_rate()
                    yield (f"RecurrencePlot.__init__|T={T},d={dm},{kind},"
                           f"{metric},m{mi},e{ei}", t)
        if kind in ("f64", "strided"):
            def t(a=a):
                return RP(a, normalize=True, threshold=0.5,
                          silence_level=3).recurrence_rate()
            yield f"RecurrencePlot.normalize|T={T},d={dm},{kind}", t
            for M in (0, 1, 7):
                for metric in ("supremum", "euclidean", "manhattan"):
                    def t(a=a, M=M, metric=metric):
                        emb = a.reshape(len(a), -1).astype(float)
                        return RP.bootstrap_distance_matrix(
                            emb, metric, M).shape
                    yield (f"RecurrencePlot.bootstrap_distance_matrix|T={T},"
                           f"d={dm},{kind},{metric},M={M}", t)
    r = ctx.rng("rej")
    for L in (0, 1, 2, 5):
        for M in (0, 1, 10):
            dist = r.integers(0, 4, L)
            if L and dist.sum() == 0:
                dist[0] = 1      # sampling from an all-zero histogram is
                #                  undefined (the rejection loop cannot end)
            yield (f"RecurrencePlot.rejection_sampling|L={L},M={M}",
                   lambda dist=dist, M=M: RP.rejection_sampling(dist, M))
            yield (f"RecurrencePlot.rejection_sampling|zeros,L={L},M={M}",
                   lambda L=L, M=M: RP.rejection_sampling(
                       np.zeros(L, dtype=int), 0 if L else M))


def fam_rp_lines(ctx):
    from pyunicorn.timeseries import RecurrencePlot as RP
    for T, dm, kind, a in _series(ctx, "rpl", dims=(1, 2)):
        if kind in ("i64", "F"):
            continue
        for sparse in (False, True):
            for thr in (0.0, 0.8, 100.0):
                def mk(a=a, sparse=sparse, thr=thr, kind=kind):
                    return RP(a, metric="supremum", threshold=thr,
                              sparse_rqa=sparse, silence_level=3,
                              missing_values=(kind == "nan"))
                tag = f"T={T},d={dm},{kind},sparse={int(sparse)},thr={thr}"
                for m in ("diagline_dist", "vertline_dist",
                          "white_vertline_dist", "rqa_summary",
                          "max_diaglength", "max_vertlength",
                          "max_white_vertlength", "recurrence_probability"):
                    yield (f"RecurrencePlot.{m}|{tag}",
                           lambda mk=mk, m=m: getattr(mk(), m)())
                for lm in (1, 2, 50):
                    yield (f"RecurrencePlot.determinism|l={lm},{tag}",
                           lambda mk=mk, lm=lm: (
                               mk().determinism(l_min=lm),
                               mk().laminarity(v_min=lm),
                               mk().diag_entropy(l_min=lm),
                               mk().average_white_vertlength(w_min=lm)))
                for M in (0, 3):
                    yield (f"RecurrencePlot.resample_diagline_dist|M={M},"
                           f"{tag}",
                           lambda mk=mk, M=M: (
                               mk().resample_diagline_dist(M),
                               mk().resample_vertline_dist(M)))


def fam_rp_twins(ctx):
    from pyunicorn.timeseries import RecurrencePlot as RP
    for T, dm, kind, a in _series(ctx, "rpt", dims=(1, 2)):
        if kind not in ("f64", "f32", "nan"):
            continue
        for md in (0, 1, 7):
            for thr in (0.5, 100.0):
                def mk(a=a, thr=thr):
                    return RP(a, threshold=thr, silence_level=3)
                tag = f"T={T},d={dm},{kind},md={md},thr={thr}"
                yield (f"RecurrencePlot.twins|{tag}",
                       lambda mk=mk, md=md: mk().twins(min_dist=md))
                for ns in (0, 1, 3):
                    yield (f"RecurrencePlot.twin_surrogates|ns={ns},{tag}",
                           lambda mk=mk, md=md, ns=ns: mk().twin_surrogates(
                               n_surrogates=ns, min_dist=md).shape)
        yield (f"RecurrencePlot.permutation_entropy|T={T},d={dm},{kind}",
               lambda a=a: RP(a, threshold=1.0, silence_level=3, dim=3 if
                              a.ndim == 1 else None, tau=1)
               .permutation_entropy())
        yield (f"RecurrencePlot.complexity_entropy|T={T},d={dm},{kind}",
               lambda a=a: RP(a, threshold=1.0, silence_level=3, dim=3 if
                              a.ndim == 1 else None, tau=1)
               .complexity_entropy())


def fam_crp_jrp(ctx):
    from pyunicorn.timeseries import (CrossRecurrencePlot as CRP,
                                      JointRecurrencePlot as JRP)
    r = ctx.rng("crp")
    lens = [0, 1, 2, 3, 6] + ([15, 22] if ctx.thorough else [])
    for Tx, Ty in itertools.product(lens, repeat=2):
        for dm in (1, 2):
            x = r.normal(size=(Tx,) if dm == 1 else (Tx, dm))
            y = r.normal(size=(Ty,) if dm == 1 else (Ty, dm))
            for metric in ("supremum", "euclidean", "manhattan"):
                for mode in (dict(threshold=0.8), dict(recurrence_rate=0.3)):
                    for emb in ([dict(), dict(dim=2, tau=1),
                                 dict(dim=3, tau=4)] if dm == 1 else [dict()]):
                        tag = (f"Tx={Tx},Ty={Ty},d={dm},{metric},"
                               f"{list(mode)[0]},{emb.get('dim')}")

                        def t(x=x, y=y, metric=metric, mode=mode, emb=emb):
                            c = CRP(x, y, metric=metric, silence_level=3,
                                    **mode, **emb)
                            return (c.recurrence_matrix().shape,
                                    c.cross_recurrence_rate(),
                                    c.distance_matrix(metric).shape)
                        yield f"CrossRecurrencePlot.__init__|{tag}", t
                        if mode.get("threshold") and not emb and \
                                metric == "supremum":
                            def tw(x=x, y=y, metric=metric):
                                c = CRP(x, y, metric=metric, threshold=0.8,
                                        silence_level=3)
                                a = c.twins(min_dist=1)
                                b = c.twin_surrogates(n_surrogates=2,
                                                      min_dist=1)
                                return len(a), np.shape(b)
                            yield (f"CrossRecurrencePlot.twins|{tag}", tw)
            if Tx == Ty:
                for lag in (0, 1, -1, 2, Tx, -Tx, Tx + 3):
                    for mode in (dict(threshold=(0.8, 0.9)),
                                 dict(threshold_std=(0.5, 0.5)),
                                 dict(recurrence_rate=(0.3, 0.4))):
                        def t(x=x, y=y, lag=lag, mode=mode):
                            j = JRP(x, y, lag=lag, silence_level=3, **mode)
                            R = j.recurrence_matrix()
                            return R.shape, j.recurrence_rate(), \
                                j.vertline_dist()
                        yield (f"JointRecurrencePlot.__init__|T={Tx},d={dm},"
                               f"lag={lag},{list(mode)[0]}", t)
    # trajectories with different numbers of components (no embedding)
    for (Tx, dx), (Ty, dy) in (((6, 3), (5, 2)), ((6, 2), (5, 3)),
                               ((4, 3), (7, 1)), ((300, 4), (200, 2))):
        x = r.normal(size=(Tx, dx))
        y = r.normal(size=(Ty, dy))
        for metric in ("supremum", "euclidean", "manhattan"):
            def t(x=x, y=y, metric=metric):
                c = CRP(x, y, metric=metric, threshold=0.8, silence_level=3)
                return (c.recurrence_matrix().shape,
                        c.distance_matrix(metric).shape)
            yield (f"CrossRecurrencePlot.__init__|components={dx}vs{dy},"
                   f"Tx={Tx},{metric}", t)


def fam_isrn(ctx):
    from pyunicorn.timeseries import (InterSystemRecurrenceNetwork as ISRN,
                                      RecurrenceNetwork as RN,
                                      JointRecurrenceNetwork as JRN)
    r = ctx.rng("isrn")
    lens = [1, 2, 3, 6] + ([14] if ctx.thorough else [])
    for Tx, Ty in itertools.product(lens, repeat=2):
        x = r.normal(size=(Tx, 2))
        y = r.normal(size=(Ty, 2))
        for metric in ("supremum", "euclidean", "manhattan"):
            for mode in (dict(threshold=(0.8, 0.9, 1.0)),
                         dict(recurrence_rate=(0.3, 0.3, 0.3))):
                def t(x=x, y=y, metric=metric, mode=mode):
                    n = ISRN(x, y, metric=metric, silence_level=3, **mode)
                    return (n.inter_system_recurrence_matrix().shape,
                            n.cross_recurrence_rate(),
                            n.cross_global_clustering_xy(),
                            n.cross_transitivity_xy())
                yield (f"InterSystemRecurrenceNetwork.__init__|Tx={Tx},"
                       f"Ty={Ty},{metric},{list(mode)[0]}", t)
    for T, dm, kind, a in _series(ctx, "rn", dims=(1, 2)):
        for mode in (dict(threshold=0.7), dict(recurrence_rate=0.3),
                     dict(local_recurrence_rate=0.3),
                     dict(adaptive_neighborhood_size=0.4)):
            def t(a=a, mode=mode):
                n = RN(a, silence_level=3, **mode)
                return n.adjacency.shape, n.transitivity(), \
                    n.local_cliquishness(4)
            yield (f"RecurrenceNetwork.__init__|T={T},d={dm},{kind},"
                   f"{list(mode)[0]}", t)
        if kind == "f64":
            for lag in (0, 1, -2):
                def t(a=a, lag=lag):
                    n = JRN(a, a[::-1].copy(), lag=lag,
                            threshold=(0.7, 0.7), silence_level=3)
                    return n.adjacency.shape, n.transitivity()
                yield f"JointRecurrenceNetwork.__init__|T={T},d={dm},lag={lag}", t


def fam_visibility(ctx):
    from pyunicorn.timeseries import VisibilityGraph as VG
    for T, dm, kind, a in _series(ctx, "vg", lens=[0, 1, 2, 3, 4, 7, 12] + (
            [30] if ctx.thorough else []), dims=(1,)):
        for hz in (False, True):
            for mv in (False, True):
                for tm in ("none", "arange", "float", "short", "long"):
                    def t(a=a, hz=hz, mv=mv, tm=tm):
                        n = len(a)
                        timings = {"none": None, "arange": np.arange(n),
                                   "float": np.cumsum(np.ones(n) * .5),
                                   "short": np.arange(max(n - 2, 0)),
                                   "long": np.arange(n + 3)}[tm]
                        g = VG(a, timings=timings, missing_values=mv,
                               horizontal=hz, silence_level=3)
                        return (g.retarded_local_clustering(),
                                g.advanced_local_clustering(),
                                g.retarded_degree(), g.advanced_degree())
                    yield (f"VisibilityGraph.__init__|T={T},{kind},hz={int(hz)},"
                           f"mv={int(mv)},{tm}", t)


def fam_surrogates(ctx):
    from pyunicorn.timeseries import Surrogates as S
    r = ctx.rng("sur")
    Ns = [0, 1, 2, 3, 6]
    Ts = [0, 1, 2, 3, 5, 12] + ([30] if ctx.thorough else [])
    for N, T in itertools.product(Ns, Ts):
        for kind, a in arrs(r, (N, T), ("f64", "f32", "i64", "F", "strided",
                                        "nan")).items():
            tag = f"N={N},T={T},{kind}"
            for dim, delay in ((1, 1), (2, 1), (3, 2), (2, 40), (0, 1)):
                yield (f"Surrogates.embed_time_series_array|dim={dim},"
                       f"tau={delay},{tag}",
                       lambda a=a, dim=dim, delay=delay:
                       S.embed_time_series_array(a, dim, delay,
                                                 silence_level=3).shape)
            yield (f"Surrogates.test_pearson_correlation|{tag}",
                   lambda a=a: S.test_pearson_correlation(
                       a, a[::-1].copy()).shape)
            # (also more bins than a signed / unsigned byte can number)
            for nb in (1, 2, 32, 129, 200, 300):
                yield (f"Surrogates.test_mutual_information|bins={nb},{tag}",
                       lambda a=a, nb=nb: S.test_mutual_information(
                           a, a[::-1].copy(), n_bins=nb).shape)
                # surrogates whose values leave the range of the original
                # data on either side (Fourier surrogates of skewed data do)
                for sc, sh in ((3.0, -1.0), (0.5, 4.0), (2.0, 5.0)):
                    yield (f"Surrogates.test_mutual_information|bins={nb},"
                           f"surrogate-range*{sc}{sh:+},{tag}",
                           lambda a=a, nb=nb, sc=sc, sh=sh:
                           S.test_mutual_information(
                               a, (a[::-1] * sc + sh).astype(
                                   a.dtype if a.dtype.kind == "f"
                                   else float), n_bins=nb).shape)
            # surrogates of another shape than the original data (twin
            # surrogates of an embedded series are shorter; a caller may also
            # pass fewer / more series)
            if kind == "f64" and N >= 1 and T >= 3:
                for dn, dt in ((0, -2), (0, 3), (-1, 0), (1, 0), (0, -T)):
                    b = r.normal(size=(max(N + dn, 0), max(T + dt, 0)))
                    yield (f"Surrogates.test_pearson_correlation|surrogate-"
                           f"shape{dn:+},{dt:+},{tag}",
                           lambda a=a, b=b: S.test_pearson_correlation(
                               a, b).shape)
                    yield (f"Surrogates.test_mutual_information|surrogate-"
                           f"shape{dn:+},{dt:+},{tag}",
                           lambda a=a, b=b: S.test_mutual_information(
                               a, b, n_bins=4).shape)
            if kind in ("f64", "f32", "nan"):
                for m in ("white_noise_surrogates",
                          "correlated_noise_surrogates", "AAFT_surrogates"):
                    yield (f"Surrogates.{m}|{tag}",
                           lambda a=a, m=m: getattr(
                               S(a, silence_level=3), m)().shape)
                yield (f"Surrogates.refined_AAFT_surrogates|{tag}",
                       lambda a=a: S(a, silence_level=3)
                       .refined_AAFT_surrogates(2).shape)
                for dim, delay, thr, md in ((1, 1, 0.5, 1), (2, 1, 0.3, 0),
                                            (3, 2, 2.0, 7), (2, 40, .5, 1)):
                    yield (f"Surrogates.twin_surrogates|dim={dim},tau={delay},"
                           f"thr={thr},md={md},{tag}",
                           lambda a=a, dim=dim, delay=delay, thr=thr, md=md:
                           S(a, silence_level=3).twin_surrogates(
                               dim, delay, thr, md).shape)
    # the library's own shorter surrogates handed to its own test functions
    for N, T in ((3, 300), (2, 1500)):
        x = r.normal(size=(N, T))
        for dim, delay in ((2, 1), (3, 2)):
            def t(x=x, dim=dim, delay=delay):
                so = S(x.copy(), silence_level=3)
                tw = so.twin_surrogates(dim, delay, 0.8)
                a = S.test_pearson_correlation(so.original_data, tw)
                b = S.test_mutual_information(so.original_data, tw, n_bins=8)
                return np.shape(a), np.shape(b)
            yield (f"Surrogates.test_*|twin-surrogates-of-embedded-series,"
                   f"N={N},T={T},dim={dim},tau={delay}", t)
    for N, T in ((0, 0),):
        for T2 in (0, 1, 4):
            for dim in (1, 2):
                emb = r.normal(size=(T2, dim))
                yield (f"Surrogates.recurrence_plot|T={T2},dim={dim}",
                       lambda emb=emb: S.recurrence_plot(
                           emb, 0.5, silence_level=3).shape)


def fam_funcnet(ctx, part=0):
    """part 0: cross correlation, Gaussian / binning MI;  part 1: everything
    that reaches the kNN kernel, information transfer, symmetrisation."""
    from pyunicorn.funcnet import CouplingAnalysis as CA
    r = ctx.rng("func")
    Ns = [0, 1, 2, 3, 5]
    Ts = [0, 1, 2, 3, 4, 8, 16] + ([40] if ctx.thorough else [])
    for T, N in itertools.product(Ts, Ns):
        for kind, a in arrs(r, (T, N), ("f64", "f32", "i64", "F", "strided",
                                        "nan")).items():
            tag = f"T={T},N={N},{kind}"

            def mk(a=a):
                return CA(a, silence_level=3)
            for tau in (0, 1, 3, T, T + 2):
                for lm in ("max", "all") if part == 0 else ():
                    yield (f"CouplingAnalysis.cross_correlation|tau={tau},"
                           f"{lm},{tag}",
                           lambda mk=mk, tau=tau, lm=lm:
                           mk().cross_correlation(tau_max=tau, lag_mode=lm))
                for est in ("gauss", "binning") if part == 0 else ():
                    for lm in ("max", "all"):
                        yield (f"CouplingAnalysis.mutual_information|{est},"
                               f"tau={tau},{lm},{tag}",
                               lambda mk=mk, tau=tau, est=est, lm=lm:
                               mk().mutual_information(
                                   tau_max=tau, estimator=est, lag_mode=lm,
                                   bins=3))
                if part == 0:
                    continue
                # knn: the growing-cube search cannot terminate unless
                # T - tau > knn  (generator precondition, see DESIGN C10)
                for knn in (1, 2, 5):
                    if T - tau > knn + 1 and kind != "nan":
                        yield (f"CouplingAnalysis.mutual_information|knn={knn}"
                               f",tau={tau},{tag}",
                               lambda mk=mk, tau=tau, knn=knn:
                               mk().mutual_information(
                                   tau_max=tau, estimator="knn", knn=knn))
                        if tau >= 1:
                            yield (f"CouplingAnalysis.information_transfer|"
                                   f"knn={knn},tau={tau},{tag}",
                                   lambda mk=mk, tau=tau, knn=knn:
                                   mk().information_transfer(
                                       tau_max=tau, estimator="knn",
                                       knn=knn, past=1))
                # more conditions (rows of the kNN array): longer pasts in
                # both condition modes
                if tau >= 1 and kind == "f64" and T - tau > 8 and N >= 2:
                    for cm, past in (("ity", 2), ("ity", 3), ("mit", 1),
                                     ("mit", 2), ("mit", 3)):
                        if T - tau - past > 6:
                            yield (f"CouplingAnalysis.information_transfer|"
                                   f"knn=2,{cm},past={past},tau={tau},{tag}",
                                   lambda mk=mk, tau=tau, cm=cm, past=past:
                                   mk().information_transfer(
                                       tau_max=tau, estimator="knn", knn=2,
                                       past=past, cond_mode=cm))
                if tau >= 1:
                    for cm in ("ity", "mit"):
                        yield (f"CouplingAnalysis.information_transfer|gauss,"
                               f"{cm},tau={tau},{tag}",
                               lambda mk=mk, tau=tau, cm=cm:
                               mk().information_transfer(
                                   tau_max=tau, estimator="gauss",
                                   cond_mode=cm))
    if part == 0:
        return
    # the kNN helper itself with 2 .. 9 rows (X, Y and up to seven conditions)
    for rows, Tn in itertools.product((2, 3, 4, 5, 6, 9), (12, 40)):
        arr = r.normal(size=(rows, Tn))
        for nx in (1, 2):
            if rows - nx - 1 < 0:
                continue
            xyz = np.array([0] * nx + [1] + [2] * (rows - nx - 1))
            yield (f"CouplingAnalysis.get_nearest_neighbors|rows={rows},"
                   f"T={Tn},nx={nx}",
                   lambda arr=arr, xyz=xyz: [np.shape(v) for v in
                                             CA.get_nearest_neighbors(
                                                 arr.copy(), xyz, 3)])
    for N in (0, 1, 2, 4):
        for dt in (np.float32, np.float64, np.int64):
            S = (r.normal(size=(N, N))).astype(dt)
            for ldt in (np.int8, np.int64, np.float64):
                Lg = r.integers(0, 3, (N, N)).astype(ldt)
                yield (f"CouplingAnalysis.symmetrize_by_absmax|N={N},"
                       f"{np.dtype(dt).name},{np.dtype(ldt).name}",
                       lambda S=S, Lg=Lg: CA(np.zeros((4, max(N, 1))),
                                             silence_level=3)
                       .symmetrize_by_absmax(S, Lg))
    # matrices that do not cover all N nodes of the object (a node
    # sub-selection), and a lag matrix of another size than the similarity
    for N0, (a, b), (c, d) in ((6, (4, 4), (4, 4)), (6, (6, 6), (3, 3)),
                               (5, (3, 5), (3, 5)), (5, (5, 5), (5, 2)),
                               (4, (6, 6), (6, 6))):
        S = r.normal(size=(a, b))
        Lg = r.integers(0, 3, (c, d))

        def t(N0=N0, S=S, Lg=Lg):
            out = CA(np.zeros((8, N0)), silence_level=3) \
                .symmetrize_by_absmax(S.copy(), Lg.copy())
            return [np.shape(v) for v in out]
        yield (f"CouplingAnalysis.symmetrize_by_absmax|N={N0},S={a}x{b},"
               f"lag={c}x{d}", t)


def fam_climate(ctx):
    from pyunicorn import climate as C
    from pvm.gen.objects import climate_data
    r = ctx.rng("clim")
    Ts = [1, 2, 3, 6, 12, 13, 30]
    Ns = [1, 2, 3, 6, 10] + ([25] if ctx.thorough else [])
    classes = ["TsonisClimateNetwork", "SpearmanClimateNetwork",
               "MutualInfoClimateNetwork", "RainfallClimateNetwork",
               "HavlinClimateNetwork", "HilbertClimateNetwork",
               "PartialCorrelationClimateNetwork"]
    for T, N in itertools.product(Ts, Ns):
        obs = r.gamma(2.0, 1.0, (T, N))
        lat = np.linspace(-60, 60, N)
        lon = np.linspace(0, 300, N)
        for cyc in (1, 4, 12):
            for cname in classes:
                for kw in (dict(threshold=0.3), dict(link_density=0.4)):
                    def t(obs=obs, lat=lat, lon=lon, cyc=cyc, cname=cname,
                          kw=kw):
                        cd = climate_data(obs.copy(), lat, lon, cycle=cyc)
                        cls = getattr(C, cname)
                        extra = {}
                        if cname in ("TsonisClimateNetwork",
                                     "SpearmanClimateNetwork",
                                     "MutualInfoClimateNetwork",
                                     "PartialCorrelationClimateNetwork"):
                            extra["winter_only"] = False
                        if cname == "HavlinClimateNetwork":
                            extra["max_delay"] = min(3, max(0, T - 2))
                        net = cls(cd, silence_level=3, **kw, **extra)
                        return net.n_links
                    yield (f"{cname}.__init__|T={T},N={N},cycle={cyc},"
                           f"{list(kw)[0]}", t)
    # public methods that take the caller's own anomaly array (any shape
    # and dtype a caller may pass, including no samples / no nodes)
    def net_of(cname):
        cd = climate_data(r.gamma(2.0, 1.0, (12, 4)), np.linspace(-60, 60, 4),
                          np.linspace(0, 300, 4), cycle=1)
        extra = {"winter_only": False} if cname != "HavlinClimateNetwork" \
            else {}
        return getattr(C, cname)(cd, threshold=0.3, silence_level=3, **extra)
    shapes = [(0, 3), (0, 0), (1, 3), (2, 3), (5, 0), (5, 1), (1, 1),
              (7, 5), (3, 9)]
    for (T, N), dt in itertools.product(shapes, ("f8", "f4", "i8")):
        an = (r.normal(size=(T, N)) * 3).astype(dt)
        for cname, meth, kw in (
                ("MutualInfoClimateNetwork", "mutual_information",
                 {"dump": False}),
                ("MutualInfoClimateNetwork", "calculate_similarity_measure",
                 {}),
                ("TsonisClimateNetwork", "calculate_similarity_measure", {}),
                ("SpearmanClimateNetwork", "calculate_similarity_measure",
                 {}),
                ("SpearmanClimateNetwork", "rank_time_series", {})):
            def t(cname=cname, meth=meth, kw=kw, an=an):
                net = net_of(cname)
                out = getattr(net, meth)(an.copy(), **kw)
                return np.shape(out)
            yield (f"{cname}.{meth}|caller-array,T={T},N={N},{dt}", t)
    # Rainfall helpers called with the caller's own arrays: the public
    # method takes any number of series, not only the network's
    for (N0, k, T), dt in itertools.product(
            ((6, 1, 9), (6, 3, 9), (6, 6, 9), (6, 9, 9), (11, 2, 40),
             (4, 4, 1)), ("f8", "f4")):
        def t(N0=N0, k=k, T=T, dt=dt):
            rr = np.random.default_rng([N0, k, T])
            obs = rr.gamma(1.0, 1.0, (12, N0)) * (rr.random((12, N0)) < 0.7)
            cd = climate_data(obs, np.linspace(-50, 50, N0),
                              np.linspace(0, 200, N0), cycle=1)
            net = C.RainfallClimateNetwork(
                cd, threshold=0.2, event_threshold=(0, 1), scale_fac=1.0,
                offset=0.0, silence_level=3)
            an = rr.normal(size=(k, T)).astype(dt)
            mask = rr.random((k, T)) < 0.7
            out = [np.shape(net.spearman_corr(mask, an)),
                   np.shape(net.rank_time_series(an)),
                   np.shape(net.calculate_top_events(np.abs(an), (0.5, 1))),
                   np.shape(net.calculate_rainfall(np.abs(an), 2.0, 0.5))]
            return out
        yield (f"RainfallClimateNetwork.spearman_corr|caller-array,N={N0},"
               f"k={k},T={T},{dt}", t)
    # long records (beyond 1024 / 2048 samples per node) through the
    # Spearman kernel of the rainfall network
    for T, N in ((1100, 3), (2100, 2), (1025, 4)):
        def t(T=T, N=N):
            rr = np.random.default_rng([T, N])
            obs = rr.gamma(1.0, 1.0, (T, N)) * (rr.random((T, N)) < 0.7)
            cd = climate_data(obs, np.linspace(-50, 50, N),
                              np.linspace(0, 200, N), cycle=1)
            net = C.RainfallClimateNetwork(
                cd, threshold=0.2, event_threshold=(0, 1), scale_fac=1.0,
                offset=0.0, silence_level=3)
            return net.similarity_measure().shape
        yield f"RainfallClimateNetwork.__init__|long-record,T={T},N={N}", t
    # Rainfall helpers with masks
    for T, N in itertools.product((1, 2, 5, 10, 17), (1, 2, 6, 11)):
        obs = r.gamma(1.0, 1.0, (T, N)) * (r.random((T, N)) < 0.7)
        for et in ((0, 1), (0.5, 1), (0.9, 0.95)):
            def t(obs=obs, et=et, N=N):
                cd = climate_data(obs.copy(), np.linspace(-50, 50, N),
                                  np.linspace(0, 200, N), cycle=1)
                net = C.RainfallClimateNetwork(
                    cd, threshold=0.2, event_threshold=et, scale_fac=1.0,
                    offset=0.0, silence_level=3)
                return net.similarity_measure().shape
            yield f"RainfallClimateNetwork.__init__|mask,T={T},N={N},et={et}", t


def fam_big_layouts(ctx):
    """Inputs of a few KiB to MiB in non-contiguous layouts through the entry
    points that hand raw pointers to C code.  NumPy serves blocks below
    1 KiB from its own free list, where a freed temporary stays readable and
    ASan sees no use-after-free; at these sizes the allocator is ASan's."""
    from pyunicorn.timeseries import (Surrogates as S, RecurrencePlot as RP,
                                      CrossRecurrencePlot as CRP,
                                      JointRecurrencePlot as JRP,
                                      VisibilityGraph as VG)
    from pyunicorn.funcnet import CouplingAnalysis as CA
    from pyunicorn.core import Grid, GeoGrid, Network
    from pyunicorn.eventseries import EventSeries as ES
    from pyunicorn import climate as C
    from pvm.gen.objects import climate_data
    r = ctx.rng("big")

    def layouts(a):
        """-> {name: view/array with the values of a}"""
        out = {"C": a.copy()}
        if a.ndim == 2:
            out["F"] = np.asfortranarray(a)
            out["T-view"] = np.ascontiguousarray(a.T).T
            big = np.zeros((2 * a.shape[0], 2 * a.shape[1]), dtype=a.dtype)
            big[::2, ::2] = a
            out["strided"] = big[::2, ::2]
            out["reversed"] = a[:, ::-1][:, ::-1]
            out["neg-stride"] = np.ascontiguousarray(a[:, ::-1])[:, ::-1]
        else:
            big = np.zeros(2 * a.shape[0], dtype=a.dtype)
            big[::2] = a
            out["strided"] = big[::2]
            out["neg-stride"] = np.ascontiguousarray(a[::-1])[::-1]
        return out

    for N, T in ((4, 300), (2, 3000), (3, 20000)):
        base = r.normal(size=(N, T))
        other = r.normal(size=(N, T))
        for la, a in layouts(base).items():
            for lb, b in layouts(other).items():
                if la == "C" and lb == "C" and T > 300:
                    continue
                tag = f"N={N},T={T},{la},{lb}"
                yield (f"Surrogates.test_pearson_correlation|big,{tag}",
                       lambda a=a, b=b: S.test_pearson_correlation(a, b)
                       .shape)
                if T <= 3000:
                    yield (f"Surrogates.test_mutual_information|big,{tag}",
                           lambda a=a, b=b: S.test_mutual_information(
                               a, b, n_bins=16).shape)
            if T <= 3000:
                for m in ("correlated_noise_surrogates", "AAFT_surrogates",
                          "white_noise_surrogates"):
                    yield (f"Surrogates.{m}|big,N={N},T={T},{la}",
                           lambda a=a, m=m: getattr(S(a, silence_level=3),
                                                    m)().shape)
                yield (f"Surrogates.refined_AAFT_surrogates|big,N={N},T={T},"
                       f"{la}", lambda a=a: S(a, silence_level=3)
                       .refined_AAFT_surrogates(2).shape)
            if T == 300:
                yield (f"Surrogates.twin_surrogates|big,N={N},T={T},{la}",
                       lambda a=a: S(a, silence_level=3)
                       .twin_surrogates(2, 1, 0.5).shape)
    # [time, index] data sets
    for T, N in ((400, 4), (3000, 3)):
        base = r.normal(size=(T, N))
        for la, a in layouts(base).items():
            tag = f"T={T},N={N},{la}"
            for mode in ("all", "max"):
                yield (f"CouplingAnalysis.cross_correlation|big,{mode},{tag}",
                       lambda a=a, mode=mode: np.shape(CA(
                           a, silence_level=3).cross_correlation(
                               tau_max=3, lag_mode=mode)))
            yield (f"CouplingAnalysis.mutual_information|big,gauss,{tag}",
                   lambda a=a: np.shape(CA(a, silence_level=3)
                                        .mutual_information(
                                            tau_max=2, estimator="gauss",
                                            lag_mode="all")))
            if T == 400:
                yield (f"CouplingAnalysis.mutual_information|big,knn,{tag}",
                       lambda a=a: np.shape(CA(a, silence_level=3)
                                            .mutual_information(
                                                tau_max=1, estimator="knn",
                                                knn=5, lag_mode="all")))
                for cname in ("TsonisClimateNetwork",
                              "SpearmanClimateNetwork",
                              "MutualInfoClimateNetwork",
                              "HavlinClimateNetwork",
                              "HilbertClimateNetwork",
                              "RainfallClimateNetwork"):
                    def t(a=a, cname=cname, N=N):
                        cd = climate_data(a, np.linspace(-60, 60, N),
                                          np.linspace(0, 300, N), cycle=12)
                        kw = {"winter_only": False} if cname in (
                            "TsonisClimateNetwork", "SpearmanClimateNetwork",
                            "MutualInfoClimateNetwork") else {}
                        return getattr(C, cname)(cd, threshold=0.3,
                                                 silence_level=3,
                                                 **kw).n_links
                    yield f"{cname}.__init__|big,{tag}", t
            M = (np.abs(a) > 1.2).astype(int)
            Ml = layouts(M)[la]
            yield (f"EventSeries.event_series_analysis|big,ES,{tag}",
                   lambda Ml=Ml: np.shape(ES(Ml, taumax=3)
                                          .event_series_analysis(method="ES")))
            yield (f"EventSeries.event_series_analysis|big,ECA,{tag}",
                   lambda Ml=Ml: np.shape(ES(Ml, taumax=3)
                                          .event_series_analysis(
                                              method="ECA")))
    # recurrence plots and visibility graphs of long series
    for n, d in ((300, 1), (300, 3), (1200, 2)):
        x = r.normal(size=(n, d))
        y = r.normal(size=(n - 37, d))
        for la, a in layouts(x).items():
            b = layouts(y)[la]
            for metric in ("supremum", "euclidean", "manhattan"):
                tag = f"n={n},d={d},{metric},{la}"
                yield (f"RecurrencePlot.__init__|big,{tag}",
                       lambda a=a, metric=metric: RP(
                           a, metric=metric, recurrence_rate=0.1,
                           silence_level=3).recurrence_rate())
                if n == 300:
                    yield (f"CrossRecurrencePlot.__init__|big,{tag}",
                           lambda a=a, b=b, metric=metric: CRP(
                               a, b, metric=metric, threshold=1.0,
                               silence_level=3).cross_recurrence_rate())
                    yield (f"JointRecurrencePlot.__init__|big,{tag}",
                           lambda a=a, metric=metric: JRP(
                               a, a[::-1], metric=metric, threshold=(1., 1.),
                               silence_level=3).recurrence_rate())
            if d == 1:
                yield (f"RecurrencePlot.rqa|big,n={n},{la}",
                       lambda a=a: RP(a[:, 0], dim=3, tau=2, threshold=1.0,
                                      silence_level=3).rqa_summary())
                for hz in (False, True):
                    yield (f"VisibilityGraph.__init__|big,n={n},hz={hz},{la}",
                           lambda a=a, hz=hz: VG(a[:, 0], horizontal=hz,
                                                 silence_level=3).n_links)
    # coordinates
    for N, d in ((300, 3), (1000, 2)):
        X = r.normal(size=(d, N))
        for la, a in layouts(X).items():
            yield (f"Grid.euclidean_distance|big,N={N},d={d},{la}",
                   lambda a=a, N=N: Grid(np.arange(3.), a, silence_level=3)
                   .euclidean_distance().shape)
        lat = r.uniform(-90, 90, N)
        lon = r.uniform(-180, 180, N)
        for la in ("strided", "neg-stride"):
            yield (f"GeoGrid.angular_distance|big,N={N},{la}",
                   lambda lat=lat, lon=lon, la=la: GeoGrid(
                       np.arange(3.), layouts(lat)[la], layouts(lon)[la],
                       silence_level=3).angular_distance().shape)
    # adjacency matrices
    for N in (80, 300):
        A = np.triu(r.random((N, N)) < (0.1 if N > 100 else 0.3), 1)
        A = (A | A.T).astype(np.int8)
        w = r.uniform(0.5, 2.0, N)
        for la, a in layouts(A).items():
            for m in ("nsi_betweenness", "local_clustering",
                      "nsi_local_clustering", "nsi_average_path_length",
                      "nsi_max_neighbors_degree", "matching_index"):
                yield (f"Network.{m}|big,N={N},{la}",
                       lambda a=a, m=m, w=w: np.shape(getattr(Network(
                           adjacency=a, node_weights=layouts(w)["strided"],
                           silence_level=3), m)()))


FAM_FUNCS = dict(big_layouts=fam_big_layouts,
                 resized=fam_resized, corenet_hub=fam_corenet_hub,
                 resistive_large=fam_resistive_large,
                 funcnet_knn=lambda ctx: fam_funcnet(ctx, part=1),
                 grid=fam_grid, corenet=fam_corenet,
                 interacting=fam_interacting, spatial=fam_spatial,
                 resistive=fam_resistive, rp=fam_rp, rp_lines=fam_rp_lines,
                 crp_jrp=fam_crp_jrp, visibility=fam_visibility,
                 surrogates=fam_surrogates, funcnet=fam_funcnet,
                 climate=fam_climate, rp_twins=fam_rp_twins, isrn=fam_isrn)


def run(ctx):
    fam = FAMILIES[ctx.shard % len(FAMILIES)]
    ctx.note(f"family_of_shard_{ctx.shard}", fam)
    import pyunicorn.core._ext.numerics as k
    ctx.note("kernel_file", k.__file__)
    base_rng = ctx.rng
    passes = 4 if ctx.thorough else 1

    def limited():
        # thorough: the same entry-point table is walked several times with
        # different random contents / random sizes (the pass number salts
        # every generator and is part of the case id)
        for pno in range(passes):
            ctx.rng = (lambda *k, _p=pno: base_rng(*k, "pass", _p)) \
                if pno else base_rng
            for cid, thunk in FAM_FUNCS[fam](ctx):
                if ctx.time_left() <= 0:
                    ctx.count("budget_truncated_families")
                    ctx.note("budget_truncated_family", fam)
                    return
                yield (cid if not pno else f"{cid}#p{pno}"), thunk
    run_cases(ctx, limited())
    ctx.rng = base_rng


def post(m, results, san_logs):
    """Driver side: deaths and sanitizer output that no case claimed."""
    for R in results:
        for d in R.get("deaths", []):
            cid = d["case_id"]
            if "Timeout (" in d["log"]:
                m["counters"]["hangs"] = m["counters"].get("hangs", 0) + 1
                m["notes"].setdefault("hang_cases", []).append(cid)
                continue
            # sanitizer report of the dying process, if any
            rep = None
            for name, txt in san_logs.items():
                if name.startswith(f"asan{R['shard']}."):
                    pr = parse_reports(txt)
                    if pr:
                        rep = pr[-1]
            sym, cls = (rep[0], rep[1]) if rep else ("?", f"rc={d['rc']}")
            sig = f"{_entry(cid)}:{sym}:{cls}:process-died"
            e = m["events"].setdefault(sig, {"count": 0, "details": []})
            e["count"] += 1
            if len(e["details"]) < 3:
                e["details"].append({
                    "case_id": cid, "shard": R["shard"],
                    "nshards": len(results), "tier": m["notes"]["_run"]["tier"],
                    "seed": m["notes"]["_run"]["seed"],
                    "detail": {"case": cid, "rc": d["rc"],
                               "log": d["log"][-1500:],
                               "report": rep[2] if rep else None}})
    m["notes"]["sanitizer_log_files"] = len(san_logs)
