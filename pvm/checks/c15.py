"""C15 — surrogates preserve exactly what each method promises.

Every library call in a random history of 1..20 calls on ONE object is
checked (the FFT and the twin lists are memoised, so the guarantee has to
survive interleaved repeated calls).  Signatures:
    <Class>.<method>:<guarantee broken | raises:<Exc>>[:repeated-call]
`:repeated-call` is appended iff the same call with the same seed on a freshly
constructed object keeps the guarantee (history dependent failure).
"""
import random as pyrandom
import warnings

import numpy as np

from pvm.ref import surrogates as ref

RTOL = 1e-9                 # amplitude spectrum, relative to max amplitude
DELTA = 2.0 ** -12          # tie breaker of the "levels" class (n <= 1000)

META = dict(
    shards={"quick": 8, "thorough": 16},
    budget={"quick": 45, "thorough": 480},
    timeout={"quick": 600, "thorough": 3000},
    rule=("cases: a deterministic grid (every length 4..13, N in {1,2,5}, "
          "every data class) plus seeded random cases: N=1..5 series of "
          "length 4..200 (quick) / ..1000 (thorough), odd and even; classes: "
          "gaussian floats, smooth (sines+noise), integer valued with ties "
          "(float64 and int64 storage), 'levels' (few integer levels + "
          "t*2^-12, pairwise distinct, many twins), constant / partly "
          "constant rows.  On ONE Surrogates object a random history of 1..20 "
          "calls over {white_noise, correlated_noise, AAFT, refined_AAFT("
          "1..4 iterations; true_amplitudes|true_spectrum|both), "
          "embedding=...;twins(threshold,min_dist), twins again (memo hit / "
          "new arguments), twin_surrogates(dimension,delay,threshold,"
          "min_dist), normalize_original_data (at most once)}; numpy.random "
          "and random are seeded before every call and the guarantee of that "
          "method is checked after every call against the harness's own copy "
          "of the data: exact sorted-row equality (shuffle, AAFT, "
          "true_amplitudes); |rfft| at k=1..ceil(n/2)-1 within 1e-9*max|rfft| "
          "(Fourier, true_spectrum; rows whose output is non-finite because "
          "the row is constant are skipped as phase-undefined); twins == "
          "reference sets from the harness's recurrence matrix (delay "
          "embedding, supremum norm, neighbours iff distance <= threshold "
          "for Surrogates / < threshold for RecurrencePlot, identical "
          "columns, |j-k|>min_dist); twin walk on pairwise distinct data: "
          "every sample is a state 0..n_emb-1 and every transition k->k' "
          "is k+1, twin+1, or a restart allowed only if k or one of its twins "
          "is the last state.  RecurrencePlot histories: twins(min_dist), "
          "twin_surrogates(n,min_dist), set_fixed_threshold interleaved.  "
          "Thresholds are float32-exact (the kernel takes a C float) or "
          "screened so that no distance lies between the threshold and its "
          "float32 rounding.  non-trivial = distinct (data, history prefix, "
          "call) where the checked rows are non-constant with n>=4 "
          "(permutation / spectrum checks can fail), or the reference has at "
          "least one twin pair and one separated non-twin pair (twins), or "
          "the data are pairwise distinct and some state has a twin (walk)."),
    floors={
        "quick": {"shuffle_checked": 1000, "fourier_checked": 2000,
                  "aaft_checked": 1000, "raaft_amp_checked": 1200,
                  "raaft_spec_checked": 1200, "twins_compared": 2000,
                  "twins_with_pairs": 1200, "walk_checked": 1200,
                  "walk_jumps": 50000, "walk_restarts": 3000,
                  "repeated_call_checks": 9000, "memo_fft_reuse": 3000,
                  "normalize_calls": 200, "rp_calls": 400,
                  "odd_n_cases": 400, "even_n_cases": 400},
        "thorough": {"shuffle_checked": 3500, "fourier_checked": 7000,
                     "aaft_checked": 3500, "raaft_amp_checked": 4500,
                     "raaft_spec_checked": 4500, "twins_compared": 7000,
                     "twins_with_pairs": 4800, "walk_checked": 4800,
                     "walk_jumps": 400000, "walk_restarts": 14000,
                     "repeated_call_checks": 33000, "memo_fft_reuse": 10000,
                     "normalize_calls": 900, "rp_calls": 1900,
                     "odd_n_cases": 1600, "even_n_cases": 1600}},
    exhaustive_subspaces={
        "quick": ["lengths 4..13 x N in {1,2,5} x 6 data classes: every "
                  "method called at least once (grid, not all inputs)"],
        "thorough": ["lengths 4..13 x N in {1,2,5} x 6 data classes: every "
                     "method called at least once (grid, not all inputs)"]},
    assumptions=[
        "numpy.fft.rfft and numpy.sort of the harness are correct",
        "thresholds are float32-exact or no distance lies between threshold "
        "and float32(threshold); differences are formed in float64 exactly "
        "as the documented definition does, so the recurrence oracle is exact",
        "the restart rule of the twin walk is the one written in the kernel "
        "comments: redraw uniformly when the successor index >= n",
        "a sample value identifies its time index because walk cases use "
        "pairwise distinct data (checked per case)"],
    technique="per-call runtime oracles over seeded call histories on one "
              "object + reference twin sets from an independent recurrence "
              "matrix + fresh-object replay to classify history dependence",
    level_text="exploration: sampled inputs/histories, exact oracles",
    level_note="trusted: numpy fft/sort, pvm/ref/surrogates.py",
)


META["rule"] += (
    " " + 'Added after the second round of seeded changes: Surrogates receives the data Fortran-ordered, as a strided view, or as float32 / int64 when exact.')

META["rule"] += (
    " " + 'Added after the third round: records of 32769 / 40001 (thorough also 65537, 70001) samples through the shuffle, Fourier, AAFT and refined AAFT methods.')

META["rule"] += (
    " " + "Added after the fifth round: after a twin-surrogate walk, twins(threshold, min_dist) is asked again both positionally (the method's own cache key) and as the caller wrote it; a twin listed twice is a finding of its own.")

META["rule"] += (
    " " + 'Added after the sixth round: family of recurrence plots by local recurrence rate / adaptive neighbourhood size (twins = identical rows); in half of the repeated twins queries the caller has refilled the array it handed to the embedding setter.')

META["rule"] += (
    " " + 'Added after the eighth round: records in units of 2^+-25 / 2^+-40; the caller appends to and truncates the lists returned by RecurrencePlot.twins.')

# --------------------------------------------------------------------------
# data
# --------------------------------------------------------------------------
CLASSES = ("normal", "smooth", "int_ties", "int_dtype", "levels", "constant")


def gen_levels_row(r, n):
    style = int(r.integers(0, 4))
    if style == 0:
        p = int(r.integers(2, 9))
        q = np.resize(r.integers(0, 5, p), n)
    elif style == 1:
        w = r.uniform(0.05, 0.7)
        a = int(r.integers(1, 6))
        q = np.round(a * np.sin(w * np.arange(n) + r.uniform(0, 6.28))) + a
    elif style == 2:
        q = np.clip(np.cumsum(r.choice([-1, 0, 0, 1], size=n)), -3, 3) + 3
    else:
        q = r.integers(0, 3, n)
    return q.astype(float) + np.arange(n) * DELTA


def gen_data(r, cls, N, n):
    if cls == "normal":
        x = r.normal(size=(N, n)) * r.uniform(0.1, 10) + r.uniform(-3, 3)
    elif cls == "smooth":
        t = np.arange(n)
        x = np.array([np.sin(t * r.uniform(0.05, 0.5) + r.uniform(0, 6)) +
                      np.sin(t * r.uniform(0.02, 0.2)) for _ in range(N)])
        x = x + r.normal(size=(N, n)) * r.choice([0.0, 1e-3, 0.05])
    elif cls in ("int_ties", "int_dtype"):
        q = int(r.choice([2, 3, 5, 10]))
        x = r.integers(0, q, (N, n)).astype(float)
        if cls == "int_dtype":
            x = x.astype(np.int64)
    elif cls == "levels":
        x = np.array([gen_levels_row(r, n) for _ in range(N)])
    elif cls == "constant":
        x = np.repeat(r.integers(-3, 4, (N, 1)).astype(float), n, axis=1)
        if N > 1 and r.random() < 0.5:       # partly constant
            x[0] = r.normal(size=n)
    else:
        raise ValueError(cls)
    if cls in ("normal", "smooth") and r.random() < 0.25:
        # the unit of the record is the caller's choice (exact rescaling)
        x = x * 2.0 ** int(r.choice([-40, -25, 25, 40]))
    return np.ascontiguousarray(x)


def rows_distinct(x):
    return all(len(np.unique(row)) == len(row) for row in x)


def emb_params(r, n):
    for _ in range(20):
        dim = int(r.integers(1, 5))
        delay = int(r.integers(1, 6))
        if n - (dim - 1) * delay >= 2:
            return dim, delay
    return 1, 1


def pick_threshold(r, cls, emb0):
    """float32-exact threshold (or, sometimes, an inexact one which is then
    screened by the caller)."""
    if cls in ("int_ties", "int_dtype", "levels", "constant"):
        return float(r.choice([0.5, 1.5, 2.5, 3.5, 0.0, 1.0, 2.0, 3.0,
                               2.0 ** -10, 0.25]))
    D = ref.sup_dist(emb0)
    iu = np.triu_indices(D.shape[0], 1)
    d = D[iu]
    if d.size == 0:
        return 1.0
    v = float(np.quantile(d, r.uniform(0.03, 0.7)))
    if r.random() < 0.25:
        return v if r.random() < 0.5 else float(np.round(v, 1))
    return float(np.float32(v))


MIN_DISTS = (0, 1, 2, 3, 5, 7, 10, None)     # None: library default (7)


class Model:
    def __init__(self, data):
        self.data = data.copy()
        self.emb = None          # (N, n_emb, dim) as last set on the object
        self.normalized = False
        self.twargs = None
        self.fft_used = False

    def clone(self):
        m = Model(self.data)
        m.emb = None if self.emb is None else self.emb.copy()
        m.normalized = self.normalized
        m.twargs = self.twargs
        m.fft_used = self.fft_used
        return m


def gen_history(r, cls, N, n, L):
    ops = []
    distinct_ok = cls in ("normal", "smooth", "levels")
    names = ["white", "corr", "aaft", "raaft", "raaft", "twins", "twins2",
             "twsur", "twsur" if distinct_ok else "corr", "norm"]
    normed = False
    for _ in range(L):
        k = names[int(r.integers(0, len(names)))]
        if k == "norm":
            if normed or cls == "int_dtype" or r.random() < 0.6:
                k = "corr"
            else:
                normed = True
        if k == "raaft":
            ops.append(("raaft", int(r.integers(1, 5)),
                        str(r.choice(["true_amplitudes", "true_spectrum",
                                      "both"]))))
        elif k in ("twins", "twsur", "twins2"):
            dim, delay = emb_params(r, n)
            md = MIN_DISTS[int(r.integers(0, len(MIN_DISTS)))]
            ops.append((k, dim, delay, int(r.integers(0, 1 << 30)), md))
        else:
            ops.append((k,))
    return ops


# --------------------------------------------------------------------------
# per-call oracles (return a list of (what, detail); empty == guarantee kept)
# --------------------------------------------------------------------------
def _perm_problem(out, data, label):
    if not isinstance(out, np.ndarray) or out.shape != data.shape:
        return [(f"{label}wrong-shape", {"shape": getattr(out, "shape", None),
                                         "expected": data.shape})]
    so = np.sort(out, axis=1)
    sd = np.sort(data, axis=1)
    bad = [i for i in range(data.shape[0]) if not np.array_equal(so[i], sd[i])]
    if bad:
        i = bad[0]
        return [(f"{label}not-a-row-permutation",
                 {"rows": bad[:5], "sorted_out": so[i][:12],
                  "sorted_data": sd[i][:12]})]
    return []


def _spec_problem(ctx, out, data, label, rec, skip_nonfinite_constant=False):
    if not isinstance(out, np.ndarray) or out.shape != data.shape:
        return [(f"{label}wrong-shape", {"shape": getattr(out, "shape", None),
                                         "expected": data.shape})], 0
    n = data.shape[1]
    kk = ref.band(n)
    A0 = ref.amp_spectrum(data)
    probs = []
    checked = 0
    for i in range(data.shape[0]):
        row = out[i]
        if not np.all(np.isfinite(row)):
            const = bool(np.all(data[i] == data[i, 0]))
            if skip_nonfinite_constant and const:
                if rec:
                    ctx.count("phase_undefined_rows")
                continue
            probs.append((f"{label}non-finite-output",
                          {"row": i, "constant_row": const}))
            continue
        A = np.abs(np.fft.rfft(row))
        scale = A0[i].max()
        err = np.abs(A[kk] - A0[i][kk]).max() if kk.size else 0.0
        if rec and scale > 0:
            ctx.maxstat(f"{label}max_rel_amp_err", err / scale)
        checked += 1
        if err > RTOL * scale + 1e-300:
            k = int(kk[np.argmax(np.abs(A[kk] - A0[i][kk]))])
            probs.append((f"{label}amplitude-spectrum-differs",
                          {"row": i, "k": k, "n": n, "amp": A[k],
                           "amp_data": A0[i][k], "rel_err": err / scale}))
    # one defect -> one signature
    seen, uniq = set(), []
    for w, d in probs:
        if w not in seen:
            seen.add(w)
            uniq.append((w, d))
    return uniq, checked


def _twins_problem(lib, refsets, label):
    """lib: list[N] of list[n] of list; refsets: list[N] of list[n] of set."""
    if not isinstance(lib, list) or len(lib) != len(refsets):
        return [(f"{label}wrong-shape", {"len": len(lib) if isinstance(
            lib, list) else None, "expected": len(refsets)})]
    for i, (li, ri) in enumerate(zip(lib, refsets)):
        if len(li) < len(ri):
            return [(f"{label}wrong-shape", {"series": i, "len": len(li),
                                             "expected": len(ri)})]
        for j, rs in enumerate(ri):
            ls = set(int(v) for v in li[j])
            if ls == rs and len(li[j]) != len(rs):
                return [(f"{label}twin-listed-more-than-once",
                         {"series": i, "state": j,
                          "lib": [int(v) for v in li[j]][:20]})]
            if ls != rs:
                kind = ("spurious" if ls - rs else "missing")
                if ls - rs and rs - ls:
                    kind = "spurious+missing"
                return [(f"{label}twin-sets-differ",
                         {"series": i, "state": j, "kind": kind,
                          "lib": sorted(ls)[:20], "ref": sorted(rs)[:20]})]
    return []


def _walk_problem(ctx, out, states, twsets, n_emb, label, rec):
    """out: (n_emb,) scalar walk; states: dict value->index over the first
    n_emb samples; twsets: list of sets."""
    idx = []
    for v in out:
        k = states.get(float(v))
        if k is None:
            return [(f"{label}sample-not-an-original-state",
                     {"value": float(v)})]
        idx.append(k)
    nj = nr = 0
    for a, b in zip(idx[:-1], idx[1:]):
        kind = ref.transition_kind(a, b, twsets[a], n_emb)
        if kind is None:
            return [(f"{label}illegal-transition",
                     {"k": a, "k_next": b, "twins_of_k": sorted(twsets[a])[:20],
                      "n_states": n_emb})]
        nj += kind == "jump"
        nr += kind == "restart"
    if rec:
        ctx.count("walk_transitions", max(0, len(idx) - 1))
        ctx.count("walk_jumps", nj)
        ctx.count("walk_restarts", nr)
    return []


def _ref_twins(ctx, emb, thr, md, strict, rec):
    """reference twin sets for every series or None if borderline."""
    out = []
    pairs = far_nontwin = 0
    t32 = float(np.float32(thr))
    for i in range(emb.shape[0]):
        D = ref.sup_dist(emb[i])
        R = ref.recurrence(D, thr, strict)
        if t32 != thr and not np.array_equal(R, ref.recurrence(D, t32, strict)):
            return None, 0, 0
        tw = ref.twins_from_R(R, md)
        n = R.shape[0]
        if n <= 12:
            if tw != ref.twins_bruteforce(R, md):
                raise AssertionError("reference twin finder inconsistent")
            if rec:
                ctx.count("ref_selfcheck")
        p = sum(len(s) for s in tw) // 2
        pairs += p
        far = max(0, n - md - 1)
        far_nontwin += far * (far + 1) // 2 - p
        out.append(tw)
    return out, pairs, far_nontwin


# --------------------------------------------------------------------------
# Surrogates: one call
# --------------------------------------------------------------------------
def sur_op(ctx, S, s, m, cls, op, seed, rec, key=None):
    """Run one call on object s (model m, updated in place); return
    (method-label, problems)."""
    np.random.seed(seed)
    pyrandom.seed(seed)
    kind = op[0]
    data = m.data
    N, n = data.shape
    nonconst = bool(np.any(data != data[:, :1])) and n >= 4
    P = []

    def nontriv(flag=True):
        if rec and flag and key is not None:
            ctx.nontrivial(key)

    def exc(meth, e):
        return meth, [(f"raises:{type(e).__name__}", {"exc": repr(e)[:300]})]

    if kind == "white":
        meth = "white_noise_surrogates"
        ok, out = ctx.call(s.white_noise_surrogates)
        if not ok:
            return exc(meth, out)
        P = _perm_problem(out, data, "")
        if rec:
            ctx.evals()
            ctx.count("shuffle_checked")
            nontriv(nonconst)
    elif kind == "corr":
        meth = "correlated_noise_surrogates"
        ok, out = ctx.call(s.correlated_noise_surrogates)
        if not ok:
            return exc(meth, out)
        P, c = _spec_problem(ctx, out, data, "", rec)
        if rec:
            ctx.evals()
            ctx.count("fourier_checked")
            ctx.count("fourier_rows", c)
            if m.fft_used:
                ctx.count("memo_fft_reuse")
            nontriv(nonconst)
        m.fft_used = True
    elif kind == "aaft":
        meth = "AAFT_surrogates"
        ok, out = ctx.call(s.AAFT_surrogates)
        if not ok:
            return exc(meth, out)
        P = _perm_problem(out, data, "")
        if rec:
            ctx.evals()
            ctx.count("aaft_checked")
            nontriv(nonconst)
    elif kind == "raaft":
        meth = "refined_AAFT_surrogates"
        _, it, output = op
        ok, out = ctx.call(s.refined_AAFT_surrogates, it, output=output)
        if not ok:
            return exc(meth, out)
        if output == "both":
            if not (isinstance(out, tuple) and len(out) == 2):
                return meth, [("both:not-a-pair", {"type": str(type(out))})]
            R_, s_ = out
        else:
            R_, s_ = (out, None) if output == "true_amplitudes" else (None, out)
        if R_ is not None:
            P += _perm_problem(R_, data, "true_amplitudes:")
            if rec:
                ctx.count("raaft_amp_checked")
        if s_ is not None:
            p2, c = _spec_problem(ctx, s_, data, "true_spectrum:", rec,
                                  skip_nonfinite_constant=True)
            P += p2
            if rec:
                ctx.count("raaft_spec_checked")
                ctx.count("raaft_spec_rows", c)
        if rec:
            ctx.evals()
            if m.fft_used:
                ctx.count("memo_fft_reuse")
            nontriv(nonconst)
        m.fft_used = True
    elif kind == "norm":
        meth = "normalize_original_data"
        ok, out = ctx.call(s.normalize_original_data)
        if not ok:
            return exc(meth, out)
        # documented in-place mutator: the data *are* now the normalised ones
        new = np.array(s.original_data, copy=True)
        mu = data.mean(axis=1, keepdims=True)
        sd = data.std(axis=1, keepdims=True)
        sd[sd == 0] = 1.0
        if not np.allclose(new, (data - mu) / sd, rtol=1e-9, atol=1e-9):
            P.append(("not-zero-mean-unit-variance", {}))
        m.data = new
        m.normalized = True
        m.fft_used = False
        if rec:
            ctx.count("normalize_calls")
        return meth, P
    elif kind in ("twins", "twins2", "twsur"):
        _, dim, delay, tseed, md = op
        r = np.random.default_rng([tseed, 15])
        mdv = 7 if md is None else md
        kw = {} if md is None else {"min_dist": md}
        if kind == "twins2" and m.emb is not None:
            # reuse the embedding that is on the object (memo hit when the
            # arguments repeat, new entry otherwise)
            meth = "twins"
            given = getattr(m, "emb_given", None)
            if given is not None and r.random() < 0.5 and \
                    isinstance(given, np.ndarray) and given.flags.writeable:
                # the caller goes on using the array it handed to the
                # setter (fills it with other numbers): the object's
                # embedding is the object's
                given[...] = given[..., ::-1].copy() * 0.5 + 1.0
                if rec:
                    ctx.count("embedding_array_reused_by_caller")
            if m.twargs is not None and r.random() < 0.5:
                thr, md, mdv, kw = m.twargs
            else:
                thr = pick_threshold(r, cls, m.emb[0])
            emb = m.emb
        else:
            emb = ref.embed(np.asarray(data, dtype=float), dim, delay)
            thr = pick_threshold(r, cls, emb[0])
            if kind != "twsur":
                meth = "twins"
                ok, le = ctx.call(S.embed_time_series_array, data, dim, delay,
                                  silence_level=3)
                if not ok:
                    return "embed_time_series_array", \
                        [(f"raises:{type(le).__name__}", {"exc": repr(le)})]
                if rec:
                    ctx.evals()
                    ctx.count("embedding_compared")
                if not (isinstance(le, np.ndarray) and le.shape == emb.shape
                        and np.array_equal(le, emb)):
                    return "embed_time_series_array", \
                        [("differs-from-delay-embedding",
                          {"dim": dim, "delay": delay})]
                s.embedding = le
                m.emb = emb
                m.emb_given = le        # (the caller's array)
        refsets, pairs, far_nt = _ref_twins(ctx, emb, thr, mdv, False, rec)
        if refsets is None:
            if rec:
                ctx.count("borderline_threshold_skipped")
            return "twins", []      # (twin_surrogates not called: no change)
        n_emb = emb.shape[1]
        if kind != "twsur":
            ok, tw = ctx.call(s.twins, thr, **kw)
            if not ok:
                return exc(meth, tw)
            m.twargs = (thr, md, mdv, kw)
            P = _twins_problem(tw, refsets, "")
            # the static recurrence plot on series 0
            ok, Rl = ctx.call(S.recurrence_plot, emb[0], thr, silence_level=3)
            if not ok:
                P.append((f"recurrence_plot:raises:{type(Rl).__name__}",
                          {"exc": repr(Rl)}))
            else:
                R0 = ref.recurrence(ref.sup_dist(emb[0]), thr, False)
                if not np.array_equal(np.asarray(Rl), R0):
                    P.append(("recurrence_plot:differs-from-definition",
                              {"threshold": thr,
                               "diff_at": np.argwhere(Rl != R0)[:3]}))
            if rec:
                ctx.evals(2)
                ctx.count("twins_compared")
                ctx.count("twin_pairs_ref", pairs)
                if pairs:
                    ctx.count("twins_with_pairs")
                nontriv(pairs > 0 and far_nt > 0)
        else:
            meth = "twin_surrogates"
            ok, out = ctx.call(s.twin_surrogates, dim, delay, thr, **kw)
            m.emb = emb
            if not ok:
                return exc(meth, out)
            if rec:
                ctx.evals()
            if not (isinstance(out, np.ndarray) and out.shape == (N, n_emb)):
                return meth, [("wrong-shape", {
                    "shape": getattr(out, "shape", None),
                    "expected": (N, n_emb)})]
            # the memoised twin list the walk used must be the reference one
            # (asked the way the method itself asks - both arguments
            #  positional, so that the memoised entry is the one returned -
            #  and the way the caller wrote it)
            ok, tw = ctx.call(s.twins, thr, mdv)
            if ok:
                P += _twins_problem(tw, refsets, "twins-used:")
                if rec:
                    ctx.count("twins_asked_again_after_the_walk")
            ok, tw = ctx.call(s.twins, thr, **kw)
            if ok and not P:
                P += _twins_problem(tw, refsets, "twins-used:")
            distinct = rows_distinct(np.asarray(data, dtype=float))
            for i in range(N):
                row = np.asarray(data[i], dtype=float)
                if distinct:
                    states = {float(v): k for k, v in enumerate(row[:n_emb])}
                    p = _walk_problem(ctx, out[i], states, refsets[i], n_emb,
                                      "", rec)
                else:
                    vals = set(row[:n_emb].tolist())
                    p = [] if all(float(v) in vals for v in out[i]) else \
                        [("sample-not-an-original-state", {"row": i})]
                if p:
                    P += p
                    break
            if rec:
                ctx.count("walk_checked" if distinct else "walk_membership")
                nontriv(distinct and pairs > 0)
    else:
        raise ValueError(kind)
    # the data handed to the constructor must still be the data
    if not np.array_equal(np.asarray(s.original_data), m.data):
        P.append(("original-data-modified", {}))
    return meth, P


def sur_case(ctx, S, cid, r, cls, N, n, ops):
    data = gen_data(r, cls, N, n)
    m = Model(data)
    from pvm.gen.held import as_held
    hd, htag = as_held(ctx.rng("held", cid), data,
                       forms=("c", "c", "c", "f", "view", "f4", "int"))
    ctx.count("input_held_as:" + htag)
    ok, s = ctx.call(S, hd, silence_level=3)
    if not ok:
        ctx.violation(f"Surrogates.__init__:raises:{type(s).__name__}",
                      {"exc": repr(s)}, cid)
        return
    ctx.count("odd_n_cases" if n % 2 else "even_n_cases")
    ctx.count(f"class_{cls}")
    dkey = (cls, data.shape, data.tobytes().hex()[:4000])
    done = []
    for c, op in enumerate(ops):
        seed = int(r.integers(0, 2 ** 31 - 1))
        before = m.clone()
        with warnings.catch_warnings(), np.errstate(all="ignore"):
            warnings.simplefilter("ignore")
            meth, P = sur_op(ctx, S, s, m, cls, op, seed, True,
                             key=(dkey, tuple(map(str, done)), str(op)))
        done.append(op)
        if c > 0:
            ctx.count("repeated_call_checks")
        ctx.maxstat("history_length", c + 1)
        if not P:
            continue
        fresh_whats = None
        if c > 0:
            # history dependent?  same call, same seed, fresh object
            ok, f = ctx.call(S, before.data.copy(), silence_level=3)
            if ok:
                if before.emb is not None:
                    f.embedding = before.emb.copy()
                with warnings.catch_warnings(), np.errstate(all="ignore"):
                    warnings.simplefilter("ignore")
                    _, Pf = sur_op(ctx, S, f, before.clone(), cls, op, seed,
                                   False)
                fresh_whats = {w for w, _ in Pf}
        for what, det in P:
            # history dependent iff a fresh object keeps this guarantee
            suffix = ":repeated-call" if (fresh_whats is not None and
                                          what not in fresh_whats) else ""
            if what.endswith("non-finite-output") and op[0] == "raaft":
                # diagnostic only: which Fourier coefficient of the iterate
                # that fed the last refinement step was exactly zero?
                np.random.seed(seed)
                pyrandom.seed(seed)
                with warnings.catch_warnings(), np.errstate(all="ignore"):
                    warnings.simplefilter("ignore")
                    okp, Rp = ctx.call(s.refined_AAFT_surrogates, op[1] - 1,
                                       output="true_amplitudes")
                if okp:
                    det = {**det, "zero_coefficients_of_previous_iterate_at":
                           np.flatnonzero(np.fft.rfft(Rp[det["row"]]) == 0)}
            ctx.violation(
                f"Surrogates.{meth}:{what}{suffix}",
                {"class": cls, "N": N, "n": n, "call_index": c,
                 "history": [list(map(str, o)) for o in done], "seed": seed,
                 "data": data, **det}, cid)
        if any(w.startswith("raises") or "wrong-shape" in w or
               w == "original-data-modified" for w, _ in P):
            return          # object/model no longer in a defined state
    ctx.sample({"class": cls, "N": N, "n": n,
                "history": [o[0] for o in ops]})


# --------------------------------------------------------------------------
# RecurrencePlot with a recurrence matrix that is not symmetric
# --------------------------------------------------------------------------
def rp_asymmetric_case(ctx, RP, cid, r, n):
    """Fixed local recurrence rate / adaptive neighbourhood size: row j of
    the matrix is the neighbourhood of state j (its own threshold), and the
    matrix is in general not symmetric.  Twins = sufficiently separated
    states whose neighbourhoods (rows) are identical - the comparison the
    library's kernel makes; the matrix itself is the library's (C07 judges
    it).  The walk of the surrogates is judged against the same twin sets."""
    n = min(n, 60)
    ts = r.normal(size=n)
    if r.random() < 0.4:
        ts = np.round(ts * 2) / 2          # ties: many identical rows
    if r.random() < 0.5:
        kw = {"local_recurrence_rate": float(r.choice([0.2, 0.3, 0.5]))}
    else:
        kw = {"adaptive_neighborhood_size": int(r.integers(2, max(3, n // 3)))}
    ok, rp = ctx.call(RP, ts.copy(), silence_level=3, **kw)
    if not ok:
        ctx.count("rp_asymmetric_ctor_raises")
        return
    R = np.asarray(rp.recurrence_matrix())
    md = int(r.choice([0, 1, 2, 7]))
    rows = {}
    for j in range(n):
        rows.setdefault(R[j].tobytes(), []).append(j)
    tw = [set() for _ in range(n)]
    for g in rows.values():
        for j in g:
            # (a state whose only neighbour is itself has no twins: the
            #  library's documented pre-selection)
            if R[j].sum() != 1:
                tw[j] = {k for k in g if abs(j - k) > md}
    ok, lt = ctx.call(rp.twins, min_dist=md)
    ctx.evals()
    ctx.count("rp_asymmetric_twins_compared")
    sym = bool(np.array_equal(R, R.T))
    if not sym:
        ctx.count("rp_asymmetric_matrices")
    pairs = sum(len(x) for x in tw) // 2
    if pairs and not sym:
        ctx.nontrivial(("rp-asym", ts.tobytes().hex()[:400], str(kw), md))
    det = {"time_series": ts, "kw": kw, "min_dist": md, "R": R,
           "symmetric": sym}
    if not ok:
        ctx.violation(f"RecurrencePlot.twins:raises:{type(lt).__name__}"
                      ":asymmetric-matrix", {**det, "exc": repr(lt)[:300]},
                      cid)
        return
    for what, d2 in _twins_problem([lt], [tw], ""):
        ctx.violation(f"RecurrencePlot.twins:{what}" +
                      ("" if sym else ":asymmetric-matrix"),
                      {**det, **d2}, cid)


# --------------------------------------------------------------------------
# RecurrencePlot histories
# --------------------------------------------------------------------------
def rp_case(ctx, RP, cid, r, n):
    from pyunicorn.timeseries._ext import numerics as K
    multi = r.random() < 0.25
    metric = "supremum" if r.random() < 0.7 else "manhattan"
    if multi:
        d = int(r.integers(2, 4))
        ts = np.array([gen_levels_row(r, n) for _ in range(d)]).T.copy()
        kw = {}
        emb = ts.copy()
    else:
        ts = gen_levels_row(r, n)
        dim, tau = emb_params(r, n)
        if r.random() < 0.3:
            kw = {}
            emb = ts[:, None].copy()
        else:
            kw = {"dim": dim, "tau": tau}
            emb = ref.embed(ts[None, :], dim, tau)[0]
    assert np.array_equal(emb.astype(np.float32), emb)   # float32 exact
    dist = ref.sup_dist if metric == "supremum" else ref.manhattan_dist
    D = dist(emb)
    thr = float(r.choice([0.5, 1.5, 2.5, 3.5]))
    ok, rp = ctx.call(RP, ts.copy(), metric=metric, threshold=thr,
                      silence_level=3, **kw)
    if not ok:
        ctx.violation(f"RecurrencePlot.__init__:raises:{type(rp).__name__}",
                      {"exc": repr(rp), "metric": metric, **kw}, cid)
        return
    ctx.evals()
    n_emb = emb.shape[0]
    if not np.array_equal(np.asarray(rp.embedding), emb):
        ctx.violation("RecurrencePlot.embedding:differs-from-delay-embedding",
                      {"kw": kw, "n": n}, cid)
        return
    states = {float(v): k for k, v in enumerate(emb[:, 0])}
    L = int(r.integers(1, 9))
    done = []
    probed = False
    for c in range(L):
        seed = int(r.integers(0, 2 ** 31 - 1))
        np.random.seed(seed)
        pyrandom.seed(seed)
        kind = str(r.choice(["twins", "twsur", "twsur", "set_thr"]))
        md = MIN_DISTS[int(r.integers(0, len(MIN_DISTS)))]
        mdv = 7 if md is None else md
        mkw = {} if md is None else {"min_dist": md}
        if kind == "set_thr":
            thr = float(r.choice([0.5, 1.5, 2.5, 3.5]))
            ok, e = ctx.call(rp.set_fixed_threshold, thr)
            done.append(("set_fixed_threshold", thr))
            if not ok:
                ctx.violation("RecurrencePlot.set_fixed_threshold:raises:"
                              f"{type(e).__name__}", {"exc": repr(e)}, cid)
                return
            continue
        R = ref.recurrence(D, thr, True)
        Rl = np.asarray(rp.recurrence_matrix())
        tw = ref.twins_from_R(R, mdv)
        pairs = sum(len(x) for x in tw) // 2
        det = {"n": n, "metric": metric, "kw": kw, "threshold": thr,
               "min_dist": md, "call_index": c, "seed": seed,
               "history": [list(map(str, o)) for o in done],
               "time_series": ts,
               "lib_R_equals_ref_R": bool(np.array_equal(Rl, R))}
        ctx.count("rp_calls")
        ctx.evals()
        if c > 0:
            ctx.count("repeated_call_checks")
        key = ("rp", ts.tobytes().hex()[:4000], metric, str(kw), thr, md,
               tuple(map(str, done)), kind)
        if kind == "twins":
            done.append(("twins", md))
            ok, lt = ctx.call(rp.twins, **mkw)
            if not ok:
                ctx.violation(f"RecurrencePlot.twins:raises:"
                              f"{type(lt).__name__}",
                              {**det, "exc": repr(lt)[:300]}, cid)
            else:
                if isinstance(lt, list) and len(lt) != n_emb:
                    ctx.count("rp_twins_list_length_not_N")
                    ctx.note("rp_twins_list_length",
                             {"len": len(lt), "N": n_emb})
                P = _twins_problem([lt], [tw], "")
                for what, d2 in P:
                    ctx.violation(f"RecurrencePlot.twins:{what}",
                                  {**det, **d2}, cid)
                ctx.count("rp_twins_compared")
                if pairs:
                    ctx.nontrivial(key)
                # the lists now belong to the caller, who keeps working
                # with them (the next answer is compared like this one)
                if isinstance(lt, list) and c % 2 == 0:
                    for q_ in lt:
                        if isinstance(q_, list):
                            q_.append(0)
                    del lt[len(lt) // 2:]
                    ctx.count("rp_twins_lists_edited_by_caller")
        else:
            nsur = int(r.integers(1, 4))
            done.append(("twin_surrogates", nsur, md))
            ok, out = ctx.call(rp.twin_surrogates, n_surrogates=nsur, **mkw)
            if not ok:
                ctx.violation(f"RecurrencePlot.twin_surrogates:raises:"
                              f"{type(out).__name__}",
                              {**det, "exc": repr(out)[:300]}, cid)
            else:
                dimE = emb.shape[1]
                if not (isinstance(out, np.ndarray) and
                        out.shape == (nsur, n_emb, dimE)):
                    ctx.violation("RecurrencePlot.twin_surrogates:wrong-shape",
                                  {**det, "shape": getattr(out, "shape", None),
                                   "expected": (nsur, n_emb, dimE)}, cid)
                    continue
                bad = None
                for q in range(nsur):
                    p = _walk_problem(ctx, out[q, :, 0], states, tw, n_emb,
                                      "", True)
                    if not p:
                        idx = [states[float(v)] for v in out[q, :, 0]]
                        if not np.array_equal(out[q], emb[idx]):
                            p = [("sample-not-an-original-state",
                                  {"why": "state vector differs from the "
                                          "embedded state with that first "
                                          "component"})]
                    if p:
                        bad = p
                        break
                for what, d2 in (bad or []):
                    ctx.violation(f"RecurrencePlot.twin_surrogates:{what}",
                                  {**det, **d2}, cid)
                ctx.count("rp_walk_checked")
                if pairs:
                    ctx.nontrivial(key)
        if not ok and not probed:
            # localise: probe the two kernels directly with well-typed input
            probed = True
            lt2 = []
            okk, e = ctx.call(K._twins_r, mdv, n_emb, R.astype(np.int8),
                              R.sum(axis=0).astype(np.int32), lt2)
            ctx.evals()
            if not okk:
                ctx.violation(f"kernel._twins_r:raises:{type(e).__name__}",
                              {**det, "exc": repr(e)[:300]}, cid)
            else:
                for what, d2 in _twins_problem([lt2], [tw], ""):
                    ctx.violation(f"kernel._twins_r:{what}", {**det, **d2},
                                  cid)
                ctx.count("rp_kernel_twins_compared")
                if len(lt2) != n_emb:
                    ctx.note("kernel_twins_r_list_length",
                             {"len": len(lt2), "N": n_emb})
            okk, e = ctx.call(K._twin_surrogates_r, 1, n_emb, emb.shape[1],
                              [sorted(x) for x in tw], emb.copy())
            ctx.evals()
            if not okk:
                ctx.violation("kernel._twin_surrogates_r:raises:"
                              f"{type(e).__name__}",
                              {**det, "exc": repr(e)[:300]}, cid)
            else:
                ctx.count("rp_kernel_walk_ok")


# --------------------------------------------------------------------------
def run(ctx):
    from pyunicorn.timeseries import Surrogates as S, RecurrencePlot as RP
    idx = 0
    # 1. grid: every small length (odd and even), N in {1,2,5}, every class,
    #    every method at least once
    base = [("white",), ("corr",), ("aaft",), ("raaft", 1, "true_spectrum"),
            ("corr",), ("raaft", 2, "both"), ("raaft", 3, "true_amplitudes"),
            ("white",), ("aaft",), ("corr",), ("raaft", 1, "true_spectrum")]
    for n in range(4, 14):
        for N in (1, 2, 5):
            for cls in CLASSES:
                idx += 1
                if not ctx.mine(idx):
                    continue
                cid = f"grid:{n}:{N}:{cls}"
                if not ctx.want(cid):
                    continue
                r = ctx.rng("grid", idx)
                ops = list(base)
                for pos in (2, 5, 9):
                    dim, delay = emb_params(r, n)
                    md = int(r.integers(0, 4))
                    ops.insert(pos, ("twins", dim, delay,
                                     int(r.integers(0, 1 << 30)), md))
                    ops.insert(pos + 1, ("twsur", dim, delay,
                                         int(r.integers(0, 1 << 30)), md))
                with ctx.guard(60):
                    sur_case(ctx, S, cid, r, cls, N, n, ops)
    # 1b. long records (more samples than a 16 bit rank / index can count):
    #     the non-twin methods (twins need an n x n matrix)
    longs = [32769, 40000, 70001, 65537] if ctx.thorough else [32769, 40001]
    for j, n in enumerate(longs):
        if not ctx.mine(j):
            continue
        cid = f"long:{n}"
        if not ctx.want(cid):
            continue
        r = ctx.rng("long", n)
        ops = [("white",), ("corr",), ("aaft",),
               ("raaft", 1, "true_amplitudes"), ("raaft", 2, "both"),
               ("corr",)]
        ctx.count("long_records")
        with ctx.guard(300):
            sur_case(ctx, S, cid, r, "normal" if "normal" in CLASSES
                     else CLASSES[0], 2, n, ops)
    # 2. random histories
    cap = 12000 if ctx.thorough else 3200
    nmax = 1000 if ctx.thorough else 200
    k = 0
    while k < cap and ctx.time_left() > 0:
        k += 1
        if not ctx.mine(k):
            continue
        r = ctx.rng("rnd", k)
        u = r.random()
        if u < 0.3:
            n = int(r.integers(4, 13))
        elif u < 0.7:
            n = int(r.integers(13, 61))
        elif u < 0.9 or nmax <= 200:
            n = int(r.integers(61, 201))
        else:
            n = int(r.integers(201, nmax + 1))
        if k % 7 == 3 and k % 2:
            cid = f"rpasym:{k}"
            if ctx.want(cid):
                with ctx.guard(120):
                    rp_asymmetric_case(ctx, RP, cid, r, n)
            continue
        if k % 7 == 0:
            cid = f"rp:{k}"
            if ctx.want(cid):
                with ctx.guard(120):
                    rp_case(ctx, RP, cid, r, min(n, 300))
            continue
        N = int(r.integers(1, 6))
        cls = CLASSES[int(r.integers(0, len(CLASSES)))]
        if r.random() < 0.35:
            cls = "levels"
        L = int(r.integers(1, 21))
        if n > 200:
            L = min(L, 8)
        ops = gen_history(r, cls, N, n, L)
        cid = f"rnd:{k}"
        if ctx.want(cid):
            with ctx.guard(180):
                sur_case(ctx, S, cid, r, cls, N, n, ops)
