"""C17 — random models and rewirings keep their documented invariants.

Per-seed structural monitors (DESIGN.md section 4, C17):  I_net (M1) on every
returned / modified network plus operation specific pre/post invariants; the
geographical rewirings are driven one iteration at a time and the single swap
is recovered from the adjacency difference; the Cython kernels are also called
directly and their edge lists compared with the matrix they maintain."""
import faulthandler
import itertools
import os
import random as pyrandom
import warnings

import numpy as np

from pvm.gen import graphs as gg
from pvm.mon.invariants import net_invariant

META = dict(
    shards={"quick": 8, "thorough": 16},
    budget={"quick": 50, "thorough": 420},
    timeout={"quick": 300, "thorough": 3000},
    resume_on_death=True,
    rule=(
        "cases = (operation, generated input, parameters, library seed); the "
        "library's numpy.random and random are seeded per case and the seed is "
        "logged.  Operations: Network.ErdosRenyi(n_links / link_probability), "
        "BarabasiAlbert, BarabasiAlbert_igraph, Configuration, WattsStrogatz; "
        "Network.randomly_rewire (undirected + directed G(n,p) n<=20, "
        "structured families, graphs with isolated / trailing isolated nodes, "
        "edgeless graphs); SpatialNetwork.randomly_rewire_geomodel_I/II/III "
        "(undirected, symmetric distance matrices: dyadic distance classes, "
        "integer 1-d lattice distances, float32 Euclidean distances; "
        "tolerances equal to / above / below the class spacing) driven ONE "
        "iteration per call (the two removed and two added links recovered "
        "from the adjacency difference and compared with the stated length / "
        "degree-pair condition in float32 arithmetic, strict '<') and in "
        "bulk; set_random_links_by_distance on Grid and GeoGrid; "
        "InteractingNetworks.RandomlySetCrossLinks(_sparse) with explicit "
        "number / dyadic density / null model and RandomlyRewireCrossLinks on "
        "disjoint unsorted node lists that may leave nodes uninvolved; the "
        "Cython kernels _randomly_rewire_geomodel_I/II/III, "
        "_randomlySetCrossLinks, _randomlyRewireCrossLinks called directly "
        "step by step (edge list <-> matrix bijection).  Inputs on which a "
        "rejection loop could not terminate are excluded by brute force: at "
        "least two admissible ordered link pairs must exist (checked before "
        "EVERY single-step call; swaps are reversible, so bulk calls need it "
        "only initially).  non-trivial = distinct (operation, input, "
        "parameters, seed) whose outcome could have shown a violation: the "
        "operation changed the adjacency (rewirings), produced a graph that "
        "is neither empty nor complete (models / distance model), or set a "
        "cross-link number strictly between 0 and N1*N2."),
    floors={
        "quick": {"model_cases": 600, "rewire_cases": 600,
                  "rewire_changed": 250, "geo_steps": 2500,
                  "geo_steps:3": 300, "geo_step_strict_eps": 700,
                  "geo_bulk": 80, "geo_bulk_exact_classes": 25,
                  "cross_set": 400,
                  "cross_set:RandomlySetCrossLinks_sparse": 120,
                  "cross_rewire": 250, "cross_rewire_changed": 130,
                  "dist_links": 120, "kernel_geo_steps": 1300,
                  "kernel_cross": 300, "inet_evals": 4500,
                  "runs_without_hard_kill": 1},
        "thorough": {"model_cases": 30000, "rewire_cases": 20000,
                     "rewire_changed": 9000, "geo_steps": 100000,
                     "geo_steps:3": 15000, "geo_step_strict_eps": 40000,
                     "geo_bulk": 4000, "geo_bulk_exact_classes": 1300,
                     "cross_set": 20000,
                     "cross_set:RandomlySetCrossLinks_sparse": 6000,
                     "cross_rewire": 8000, "cross_rewire_changed": 4500,
                     "dist_links": 6000, "kernel_geo_steps": 100000,
                     "kernel_cross": 12000, "inet_evals": 180000,
                     "runs_without_hard_kill": 1}},
    exhaustive_subspaces={
        t: ["randomly_rewire on every labelled undirected graph with 2..5 "
            "nodes (1098 graphs, one seed and iteration count each)",
            "randomly_rewire_geomodel_I/II/III step by step on every "
            "labelled undirected graph with 5 nodes (1024 x 3, one dyadic "
            "distance-class matrix and seed each)",
            "RandomlyRewireCrossLinks on every 3x3 cross adjacency block "
            "(512) between two unsorted 3-node groups of a 7-node network"]
        for t in ("quick", "thorough")},
    assumptions=[
        "distance matrices are symmetric with zero diagonal; dyadic / integer "
        "distance classes make |D_old-D_new| < eps exact in float32, float "
        "Euclidean cases are judged with an absolute slack of 1e-5",
        "geographical and cross-link rewirings are exercised on undirected "
        "networks only (their kernels write links symmetrically); node lists "
        "of the two groups are disjoint",
        "cross_link_density*N1*N2 is an exact dyadic product; a non-integer "
        "product may be rounded down or up",
        "WattsStrogatz: the ring lattice may use either reading of 'k nearest "
        "neighbours'; only simplicity, conservation of the lattice's link "
        "count and the p=0 lattice shape are demanded",
        "a stuck compiled rejection loop cannot be interrupted by the soft "
        "watchdog; it would surface as a shard timeout (INCONCLUSIVE)"],
    technique="runtime monitoring: class invariant + per-step swap monitor "
              "+ kernel-boundary bijection",
    level_text="every seeded execution produced satisfied the documented "
               "invariants (or is reported); no statement beyond the "
               "executions run",
    level_note="trusts numpy, the brute-force admissibility count and the "
               "float32 re-evaluation of the length condition",
)

META["rule"] += (
    " " + 'Added later: the generators also through the dispatcher `Network.Model(name, **kw)` with the same seed (same graph, as a Network object).')

META["rule"] += (
    " " + 'Added after the sixth round: the null model of RandomlySetCrossLinks(_sparse) over all group sizes 1..12 x 1..12 with six cross link counts each.')

META["rule"] += (
    " " + 'Added after the seventh round: the caller rescales its distance array (and the tolerance) in place between two geographical rewiring calls on one network.')

META["rule"] += (
    " " + 'Added after the eighth round: node weights before and after set_random_links_by_distance; one case in eight of every generator has 129 .. 300 nodes.')

EPS_FLOAT_SLACK = 1e-5
HARD_KILL_S = 25


# --------------------------------------------------------------------------
# helpers
# --------------------------------------------------------------------------

def seed_lib(r):
    s = int(r.integers(0, 2 ** 31 - 1))
    np.random.seed(s)
    pyrandom.seed(s)
    return s


def edges_of(A):
    A = np.asarray(A)
    i, j = np.nonzero(np.triu(A | A.T, 1)) if A.shape[0] else ((), ())
    return [[int(a), int(b)] for a, b in zip(i, j)]


def dense(A):
    if hasattr(A, "toarray"):
        A = A.toarray()
    return np.asarray(A)


def simple_undirected(A, n=None):
    """Broken clauses of 'A is the adjacency matrix of a simple undirected
    graph (on n nodes)'."""
    out = []
    if A.ndim != 2 or A.shape[0] != A.shape[1]:
        return ["not-square"]
    if n is not None and A.shape[0] != n:
        out.append("wrong-number-of-nodes")
    if not np.all((A == 0) | (A == 1)):
        out.append("entries-not-0/1")
    if not np.array_equal(A, A.T):
        out.append("asymmetric")
    if np.diagonal(A).any():
        out.append("self-loop")
    return out


def inet(ctx, op, net, detail, cid, pre=()):
    """Evaluate I_net on `net`; one event (first broken clause) if a clause
    is broken that was not already broken before the operation (`pre`)."""
    br = [c for c in net_invariant(net) if c not in pre]
    ctx.evals()
    ctx.count("inet_evals")
    if br:
        ctx.violation(f"{op}:I_net:{br[0]}", {**detail, "broken": br}, cid)
        return False
    return True


def raises(ctx, op, e, detail, cid, qual=""):
    ctx.violation(f"{op}:raises:{type(e).__name__}{qual}",
                  {**detail, "exc": repr(e)[:300]}, cid)


# --------------------------------------------------------------------------
# 1. model generators
# --------------------------------------------------------------------------

def case_model(ctx, k, cid):
    from pyunicorn.core.network import Network
    r = ctx.rng("model", k)
    kind = ("ErdosRenyi:n_links", "BarabasiAlbert", "Configuration",
            "WattsStrogatz", "BarabasiAlbert_igraph",
            "ErdosRenyi:link_probability")[k % 6]
    seed = seed_lib(r)
    det = {"seed": seed}
    extra = []        # (signature suffix) of model specific invariants broken
    nontriv = False
    # (one case in eight is a larger network: node counts whose squares and
    #  link counts leave the 8 and 16 bit ranges)
    big = int(r.choice([129, 183, 200, 257, 300])) if (k // 6) % 8 == 5 \
        else 0
    if big:
        ctx.count("model_large_cases")
    if kind == "ErdosRenyi:n_links":
        n = big or int(r.integers(2, 31))
        M = n * (n - 1) // 2
        m = int(r.choice([0, 1, M, M - 1, int(r.integers(0, M + 1)),
                          int(r.integers(0, M + 1))]))
        m = max(0, m)
        det.update(n_nodes=n, n_links=m)
        ok, A = ctx.call(Network.ErdosRenyi, n_nodes=n, n_links=m,
                         silence_level=3)
        if ok:
            A = dense(A)
            if A.ndim == 2 and int(A.sum()) != 2 * m:
                extra.append("link-count!=n_links")
            nontriv = 0 < m < M
    elif kind == "ErdosRenyi:link_probability":
        n = big or int(r.integers(2, 31))
        p = float(r.choice([0.0, 1.0, 0.1, 0.3, 0.5, 0.9]))
        det.update(n_nodes=n, link_probability=p)
        ok, A = ctx.call(Network.ErdosRenyi, n_nodes=n, link_probability=p,
                         silence_level=3)
        if ok:
            A = dense(A)
            M = n * (n - 1)
            if A.ndim == 2 and p == 0.0 and A.sum() != 0:
                extra.append("p=0-not-empty")
            if A.ndim == 2 and p == 1.0 and A.sum() != M:
                extra.append("p=1-not-complete")
            nontriv = 0 < A.sum() < M
    elif kind == "BarabasiAlbert":
        n = big or int(r.integers(2, 41))
        m = int(r.integers(1, min(n - 1, 8) + 1))
        det.update(n_nodes=n, n_links_each=m)
        ok, A = ctx.call(Network.BarabasiAlbert, n_nodes=n, n_links_each=m)
        if ok:
            A = dense(A)
            if A.ndim == 2 and A.shape == (n, n):
                if int(A.sum()) != 2 * m * (n - m):
                    extra.append("link-count!=m(N-m)")
                back = np.array([A[j, :j].sum() for j in range(m + 1, n)])
                if np.any(back != m):
                    extra.append("new-node-links!=n_links_each")
            nontriv = n > m + 1
    elif kind == "BarabasiAlbert_igraph":
        n = big or int(r.integers(2, 41))
        m = int(r.integers(1, 7))
        det.update(n_nodes=n, n_links_each=m)
        ok, A = ctx.call(Network.BarabasiAlbert_igraph, n_nodes=n,
                         n_links_each=m)
        if ok:
            A = dense(A)
            if A.ndim == 2 and A.shape == (n, n):
                back = np.array([A[j, :j].sum() for j in range(n)])
                if np.any(back > m):
                    extra.append("new-node-links>n_links_each")
            nontriv = n > 2
    elif kind == "Configuration":
        n = big or int(r.integers(2, 31))
        hi = int(r.integers(1, min(n - 1, 7) + 1))
        deg = r.integers(0, hi + 1, n)
        if deg.sum() % 2:
            i = int(r.integers(0, n))
            deg[i] += 1 if deg[i] == 0 else -1
        deg = [int(v) for v in deg]
        det.update(degree=deg)
        ok, A = ctx.call(Network.Configuration, deg)
        if ok:
            A = dense(A)
            if A.ndim == 2 and A.shape == (n, n):
                if np.any(A.sum(axis=1) > np.array(deg)):
                    extra.append("degree>requested")
            nontriv = sum(deg) > 0
    else:
        n = big or int(r.integers(3, 31))
        kk = int(r.integers(1, min((n - 1) // 2, 12) + 1))
        p = float(r.choice([0.0, 0.05, 0.3, 1.0]))
        det.update(N=n, k=kk, p=p)
        ok, A = ctx.call(Network.WattsStrogatz, n, kk, p)
        if ok:
            A = dense(A)
            seed_lib(r)
            ok0, A0 = ctx.call(Network.WattsStrogatz, n, kk, 0.0)
            if ok0 and A.ndim == 2 and A.shape == (n, n):
                A0 = dense(A0)
                ctx.evals()
                d0 = A0.sum(axis=1)
                ring = np.abs(np.subtract.outer(np.arange(n), np.arange(n)))
                ring = np.minimum(ring, n - ring)
                lat = ((ring > 0) & (2 * ring <= d0[0])).astype(A0.dtype)
                if d0[0] % 2 or not np.array_equal(A0, lat):
                    extra.append("p=0-not-a-ring-lattice")
                if A.sum() != A0.sum():
                    extra.append("link-count-differs-from-lattice")
                if p == 0.0 and not np.array_equal(A, A0):
                    extra.append("p=0-not-deterministic")
            nontriv = 0 < p and n > 2 * kk + 1
    ctx.evals()
    ctx.count("model_cases")
    ctx.count("model:" + kind)
    if not ok:
        raises(ctx, kind, A, det, cid)
        return
    br = simple_undirected(A, det.get("n_nodes", det.get("N", None))
                           if kind != "Configuration" else len(det["degree"]))
    det["edges"] = edges_of(A != 0) if A.ndim == 2 and \
        A.shape[0] == A.shape[1] else repr(A.shape)
    if br:
        ctx.violation(f"{kind}:not-simple:{br[0]}", {**det, "broken": br},
                      cid)
        return
    for x in extra:
        ctx.violation(f"{kind}:{x}", det, cid)
    if nontriv:
        ctx.nontrivial(("model", kind, cid, ctx.seed))
    okn, net = ctx.call(Network, adjacency=A, silence_level=3)
    if not okn:
        raises(ctx, kind + ":Network(A)", net, det, cid)
        return
    inet(ctx, kind, net, det, cid)
    # the same generator through the dispatcher Network.Model(name, **kw):
    # same seed, same graph, as a Network object
    mk = {"ErdosRenyi:n_links": ("ErdosRenyi", dict(
              n_nodes=det.get("n_nodes"), n_links=det.get("n_links"),
              silence_level=3)),
          "ErdosRenyi:link_probability": ("ErdosRenyi", dict(
              n_nodes=det.get("n_nodes"),
              link_probability=det.get("link_probability"),
              silence_level=3)),
          "BarabasiAlbert": ("BarabasiAlbert", dict(
              n_nodes=det.get("n_nodes"),
              n_links_each=det.get("n_links_each"))),
          "Configuration": ("Configuration", dict(
              degree=det.get("degree")))}.get(kind)
    if mk is not None:
        np.random.seed(seed)
        pyrandom.seed(seed)
        okm, nm = ctx.call(Network.Model, mk[0], **mk[1])
        ctx.evals()
        ctx.count("model_dispatch_cases")
        if not okm:
            if not (isinstance(nm, TypeError) and "degrees" in str(nm)):
                raises(ctx, kind + ":Network.Model", nm, det, cid)
        elif not isinstance(nm, Network) or not np.array_equal(
                np.asarray(nm.adjacency), A):
            ctx.violation(f"{kind}:Network.Model:differs-from-generator",
                          det, cid)
    if k < 12:
        ctx.sample({"op": kind, **{a: b for a, b in det.items()
                                   if a != "edges"},
                    "links": int(A.sum() // 2)})


# --------------------------------------------------------------------------
# 2. Network.randomly_rewire
# --------------------------------------------------------------------------

def rewire_inputs(r, k):
    fam = gg.families()
    names = sorted(fam)
    style = k % 5
    if style == 0 and (k // 5) < len(names):
        return names[k // 5], fam[names[k // 5]], False
    directed = style == 3
    n = int(r.integers(2, 21))
    p = float(r.choice([0.05, 0.15, 0.3, 0.5, 0.8]))
    A = gg.gnp(r, n, p, directed)
    tag = "gnp"
    if style == 4:
        # isolated nodes, in particular trailing ones
        iso = r.choice(n, size=int(r.integers(1, max(2, n // 3) + 1)),
                       replace=False)
        if r.random() < 0.5:
            iso = np.append(iso, n - 1)
        A[iso, :] = 0
        A[:, iso] = 0
        tag = "gnp+isolated"
    return tag, A, directed


def case_rewire(ctx, k, cid):
    r = ctx.rng("rewire", k)
    tag, A, directed = rewire_inputs(r, k)
    do_rewire(ctx, r, tag, A, directed, cid)


SMALL = [(n, b) for n in range(2, 6) for b in range(gg.count_undirected(n))]


def case_rewire_small(ctx, k, cid):
    """every labelled undirected graph on 2..5 nodes"""
    n, bits = SMALL[k]
    do_rewire(ctx, ctx.rng("rewire-small", k), "all-graphs<=5",
              gg.nth_undirected(n, bits), False, cid)


def do_rewire(ctx, r, tag, A, directed, cid):
    from pyunicorn.core.network import Network
    n = len(A)
    w = gg.pos_weights(r, n)
    iters = int(r.choice([1, 3, 10, 100]))
    ok, net = ctx.call(Network, adjacency=A.copy(), directed=directed,
                       node_weights=w, silence_level=3)
    if not ok:
        ctx.count("rejected")
        return
    seed = seed_lib(r)
    det = {"seed": seed, "input": tag, "n": n, "directed": directed,
           "edges": (edges_of(A) if not directed else
                     np.argwhere(A).tolist()), "iterations": iters}
    op = "randomly_rewire"
    dq = ":directed" if directed else ""
    pre = net_invariant(net)
    ok, res = ctx.call(net.randomly_rewire, iters)
    ctx.evals()
    ctx.count("rewire_cases")
    B = (A != 0)
    deg_any = B.sum(axis=0) + B.sum(axis=1)
    if not ok:
        raises(ctx, op, res, det, cid,
               ":edgeless-input" if not B.any() else "")
        return
    if net.N != n:
        qual = ":trailing-isolated-nodes" if deg_any[-1] == 0 else ""
        ctx.violation(f"{op}:N-changed{qual}",
                      {**det, "N_after": int(net.N),
                       "len_node_weights": len(net.node_weights)}, cid)
        return
    if not inet(ctx, op, net, det, cid, pre):
        return
    A1 = np.asarray(net.adjacency)
    B1 = (A1 != 0)
    if not (np.array_equal(B1.sum(axis=1), B.sum(axis=1)) and
            np.array_equal(B1.sum(axis=0), B.sum(axis=0))):
        ctx.violation(f"{op}:degree-changed{dq}",
                      {**det, "deg_before": B.sum(axis=1),
                       "deg_after": B1.sum(axis=1)}, cid)
    if bool(net.directed) != directed:
        ctx.violation(f"{op}:directedness-changed", det, cid)
    if not np.array_equal(np.asarray(net.node_weights), w):
        ctx.violation(f"{op}:node-weights-changed", det, cid)
    if not np.array_equal(B1, B):
        ctx.nontrivial(("rewire", cid, ctx.seed))
        ctx.count("rewire_changed")
    if tag != "all-graphs<=5":
        ctx.sample({"op": op, "input": tag, "n": n, "directed": directed,
                    "iterations": iters, "seed": seed, "links": int(B.sum()),
                    "changed": not np.array_equal(B1, B)})


# --------------------------------------------------------------------------
# 3. geographical models
# --------------------------------------------------------------------------

def geo_input(r, k, regular=False):
    """(A, D float64 holding float32-exact values, eps, style, spacing)"""
    n = int(r.integers(5, 15))
    p = float(r.choice([0.2, 0.3, 0.45, 0.6]))
    if regular:
        # relabelled circulant: all degrees equal, so that the degree
        # condition of model III is satisfiable
        n = int(r.integers(6, 15))
        h = int(r.integers(1, max(1, (n - 2) // 2) + 1))
        ring = np.abs(np.subtract.outer(np.arange(n), np.arange(n)))
        ring = np.minimum(ring, n - ring)
        A = ((ring > 0) & (ring <= h)).astype(np.int8)
        pm = r.permutation(n)
        A = A[np.ix_(pm, pm)]
    else:
        A = gg.gnp(r, n, p)
    style = ("classes", "lattice1d", "euclid", "classes")[k % 4]
    if style == "classes":
        c = int(r.integers(1, 4))
        C = np.triu(r.integers(1, c + 1, (n, n)), 1)
        D = 0.25 * (C + C.T)
        spacing = 0.25
        eps = float(r.choice([0.25, 0.25, 0.5, 0.125, 100.0]))
    elif style == "lattice1d":
        x = r.permutation(n) if r.random() < 0.5 else r.integers(0, 6, n)
        D = np.abs(np.subtract.outer(x, x)).astype(float)
        spacing = 1.0
        eps = float(r.choice([1.0, 1.0, 2.0, 0.5, 1.5]))
    else:
        xy = np.float32(r.random((2, n)))
        D = np.sqrt(((xy[:, :, None] - xy[:, None, :]) ** 2).sum(axis=0))
        D = np.float32(0.5 * (D + D.T)).astype(float)
        np.fill_diagonal(D, 0)
        spacing = None
        eps = float(r.choice([0.1, 0.25, 0.5]))
    return A, D, eps, style, spacing


def admissible(B, D32, eps32, edges, model, deg):
    """Brute force over all ordered pairs of (oriented) links: which pairs
    does the documented rewiring step accept?  Mirrors the precondition of
    the kernel's rejection loop; used only to guarantee termination."""
    if len(edges) == 0:
        return np.zeros((0, 0), bool)
    s = edges[:, 0][:, None]
    t = edges[:, 1][:, None]
    k = edges[:, 0][None, :]
    el = edges[:, 1][None, :]
    disj = (s != k) & (s != el) & (t != k) & (t != el)
    free = (~B[s, el]) & (~B[t, k])

    def near(a, b):
        return np.abs(a - b) < eps32
    if model == 1:
        ln = ((near(D32[s, t], D32[k, t]) & near(D32[k, el], D32[s, el])) |
              (near(D32[s, t], D32[s, el]) & near(D32[k, el], D32[k, t])))
    else:
        ln = (near(D32[s, t], D32[s, el]) & near(D32[t, s], D32[t, k]) &
              near(D32[k, el], D32[k, t]) & near(D32[el, k], D32[el, s]))
    if model == 3:
        ln = ln & (deg[s] == deg[k]) & (deg[t] == deg[el])
    return disj & free & ln


def swap_from_diff(B0, B1):
    """Recover (removed, added) undirected links from two symmetric boolean
    matrices."""
    rem = [(int(a), int(b)) for a, b in np.argwhere(np.triu(B0 & ~B1, 1))]
    add = [(int(a), int(b)) for a, b in np.argwhere(np.triu(B1 & ~B0, 1))]
    return rem, add


def judge_swap(model, rem, add, D32, eps32, deg, slack):
    """Broken clause (str) of the documented single-step condition, or None.
    rem/add: two removed / two added links (already known to be a degree
    preserving 2-swap on four distinct nodes)."""
    lim = np.float32(eps32 + np.float32(slack))

    def near(p, q):
        return np.abs(D32[p] - D32[q]) < lim
    if model == 1:
        (r1, r2), (a1, a2) = rem, add
        if not ((near(r1, a1) and near(r2, a2)) or
                (near(r1, a2) and near(r2, a1))):
            return "link-length-pairing>=eps"
    else:
        # every involved node keeps the length of its rewired link
        for v in set(itertools.chain(*rem)):
            old = [e for e in rem if v in e][0]
            new = [e for e in add if v in e][0]
            o = old[0] if old[1] == v else old[1]
            nw = new[0] if new[1] == v else new[1]
            if not near((v, o), (v, nw)):
                return "node-link-length-change>=eps"
    if model == 3:
        dp = sorted(tuple(sorted((int(deg[a]), int(deg[b])))) for a, b in rem)
        dq = sorted(tuple(sorted((int(deg[a]), int(deg[b])))) for a, b in add)
        if dp != dq:
            return "degree-pairs-changed"
    return None


def check_step(op, model, B0, B1, D32, eps32, slack):
    """Signature suffix of what a single iteration broke, or None."""
    if not np.array_equal(B1, B1.T):
        return "step:asymmetric"
    if np.diagonal(B1).any():
        return "step:self-loop"
    rem, add = swap_from_diff(B0, B1)
    if not np.array_equal(B0.sum(axis=0), B1.sum(axis=0)):
        return "step:degree-changed"
    if len(rem) != 2 or len(add) != 2:
        return "step:not-a-2-swap"
    nodes = set(itertools.chain(*rem))
    if len(nodes) != 4 or set(itertools.chain(*add)) != nodes:
        return "step:not-a-2-swap"
    deg = B0.sum(axis=0)
    j = judge_swap(model, rem, add, D32, eps32, deg, slack)
    return None if j is None else "step:" + j


def length_classes_preserved(B0, B1, D32, per_node):
    iu = np.triu_indices(len(B0), 1)
    if not np.array_equal(np.sort(D32[iu][B0[iu]]), np.sort(D32[iu][B1[iu]])):
        return "link-length-classes-changed"
    if per_node:
        for v in range(len(B0)):
            if not np.array_equal(np.sort(D32[v][B0[v]]),
                                  np.sort(D32[v][B1[v]])):
                return "node-link-length-classes-changed"
    return None


def degree_pairs(B):
    d = B.sum(axis=0)
    return sorted(tuple(sorted((int(d[a]), int(d[b]))))
                  for a, b in np.argwhere(np.triu(B, 1)))


def case_geo(ctx, k, cid):
    r = ctx.rng("geo", k)
    model = 1 + (k // 4) % 3
    A, D, eps, style, spacing = geo_input(
        r, k, model == 3 and (k // 12) % 2 == 0)
    do_geo(ctx, r, model, A, D, eps, style, spacing, k % 3 == 2, cid,
           k < 40)


GRAPHS5 = gg.count_undirected(5)


def case_geo_small(ctx, k, cid):
    """every labelled undirected graph on 5 nodes x the three models, one
    distance-class matrix and seed each, driven step by step"""
    r = ctx.rng("geo-small", k)
    model = 1 + k // GRAPHS5
    A = gg.nth_undirected(5, k % GRAPHS5)
    C = np.triu(r.integers(1, 3, (5, 5)), 1)
    D = 0.25 * (C + C.T)
    eps = float(r.choice([0.25, 0.5]))
    do_geo(ctx, r, model, A, D, eps, "classes", 0.25, False, cid, False)


def do_geo(ctx, r, model, A, D, eps, style, spacing, bulk, cid, sample):
    from pyunicorn.core.spatial_network import SpatialNetwork
    from pyunicorn.core.grid import Grid
    n = len(A)
    name = "randomly_rewire_geomodel_" + "I" * model
    D32 = np.float32(D)
    eps32 = np.float32(eps)
    slack = EPS_FLOAT_SLACK if style == "euclid" else 0.0
    grid = Grid(np.arange(2.0), np.float32(r.random((2, n))), silence_level=3)
    ok, net = ctx.call(SpatialNetwork, grid, adjacency=A.copy(),
                       silence_level=3)
    if not ok:
        ctx.count("rejected")
        return
    pre = net_invariant(net)
    seed = seed_lib(r)
    det = {"seed": seed, "n": n, "edges": edges_of(A), "eps": eps,
           "style": style, "D": D}
    meth = getattr(net, name)
    B0 = (A != 0)
    deg0 = B0.sum(axis=0)
    if bulk:
        edges = np.array(net.graph.get_edgelist(), dtype=int).reshape(-1, 2)
        adm = int(admissible(B0, D32, eps32, edges, model, deg0).sum())
        if adm < 2:
            ctx.count("geo_no_admissible_swap")
            return
        iters = int(r.choice([2, 5, 20, 60]))
        det["iterations"] = iters
        ok, res = ctx.call(meth, D, iters, eps)
        ctx.evals()
        ctx.count("geo_bulk")
        if not ok:
            raises(ctx, name, res, det, cid)
            return
        if not inet(ctx, name, net, det, cid, pre):
            return
        B1 = np.asarray(net.adjacency) != 0
        if B1.shape != B0.shape or \
                not np.array_equal(B1.sum(axis=0), deg0):
            ctx.violation(f"{name}:degree-changed",
                          {**det, "deg_before": deg0,
                           "deg_after": B1.sum(axis=0)}, cid)
            return
        if model == 3 and degree_pairs(B0) != degree_pairs(B1):
            ctx.violation(f"{name}:degree-pairs-changed", det, cid)
        if spacing is not None and eps <= spacing:
            ctx.count("geo_bulk_exact_classes")
            x = length_classes_preserved(B0, B1, D32, model >= 2)
            if x:
                ctx.violation(f"{name}:{x}", det, cid)
        if not np.array_equal(B0, B1):
            ctx.nontrivial(("geo-bulk", name, cid, ctx.seed))
        return
    # ---- one iteration at a time ----------------------------------------
    nsteps = 12 if ctx.thorough else 8
    hist = []
    D = np.array(D, dtype=float)          # the caller's own distance array
    for step in range(nsteps):
        if step and r.random() < 0.3:
            # the caller changes the unit of its distance array in place
            # (and of the tolerance) between two calls on the same network
            D *= 4.0
            eps = eps * 4.0
            D32 = np.float32(D)
            eps32 = np.float32(eps)
            slack = slack * 4.0
            if spacing is not None:
                spacing = spacing * 4.0
            ctx.count("geo_distance_array_rescaled_in_place")
        Bc = np.asarray(net.adjacency) != 0
        edges = np.array(net.graph.get_edgelist(), dtype=int).reshape(-1, 2)
        degc = Bc.sum(axis=0)
        adm = int(admissible(Bc, D32, eps32, edges, model, degc).sum())
        if adm < 2:
            ctx.count("geo_no_admissible_swap")
            break
        ok, res = ctx.call(meth, D, 1, eps)
        ctx.evals()
        ctx.count("geo_steps")
        ctx.count(f"geo_steps:{model}")
        if spacing is not None and eps <= spacing:
            ctx.count("geo_step_strict_eps")
        if not ok:
            raises(ctx, name, res, {**det, "history": hist}, cid)
            return
        if not inet(ctx, name, net, {**det, "history": hist}, cid,
                    pre):
            return
        Bn = np.asarray(net.adjacency) != 0
        x = check_step(name, model, Bc, Bn, D32, eps32, slack) \
            if Bn.shape == Bc.shape else "step:N-changed"
        rem, add = swap_from_diff(Bc, Bn) if Bn.shape == Bc.shape \
            else ([], [])
        if x:
            ctx.violation(f"{name}:{x}",
                          {**det, "history": hist, "removed": rem,
                           "added": add, "deg": degc,
                           "edges_before_step": edges_of(Bc)}, cid)
            return
        hist.append([rem, add])
        ctx.nontrivial(("geo-step", name, cid, step, ctx.seed))
    if not np.array_equal(np.asarray(net.adjacency).sum(axis=0), deg0):
        ctx.violation(f"{name}:degree-changed", {**det, "history": hist}, cid)
    if hist and sample:
        ctx.sample({"op": name, "n": n, "eps": eps, "style": style,
                    "seed": seed, "swaps(removed,added)": hist[:3]})


# --------------------------------------------------------------------------
# 4. set_random_links_by_distance
# --------------------------------------------------------------------------

def case_dist(ctx, k, cid):
    from pyunicorn.core.spatial_network import SpatialNetwork
    from pyunicorn.core.geo_network import GeoNetwork
    from pyunicorn.core.grid import Grid
    from pyunicorn.core.geo_grid import GeoGrid
    r = ctx.rng("dist", k)
    n = int(r.integers(2, 25))
    # (the network that is re-linked may itself be directed: the result is
    #  documented as an undirected network all the same)
    was_directed = bool(r.random() < 0.3)
    A = gg.gnp(r, n, float(r.choice([0.0, 0.2, 0.6])), was_directed)
    geo = bool(k % 2)
    if geo:
        lat = r.uniform(-90, 90, n)
        lon = r.uniform(-180, 180, n)
        grid = GeoGrid(np.arange(2.0), lat, lon, silence_level=3)
        ok, net = ctx.call(GeoNetwork, grid, adjacency=A.copy(),
                           directed=was_directed, silence_level=3)
        a = float(r.choice([0.0, -0.5, -1.0, 1.0, -60.0]))
        b = float(r.choice([0.0, -1.0, -4.0]))
    else:
        grid = Grid(np.arange(2.0), r.random((2, n)), silence_level=3)
        ok, net = ctx.call(SpatialNetwork, grid, adjacency=A.copy(),
                           directed=was_directed, silence_level=3)
        a = float(r.choice([0.0, -0.5, -1.0, 1.0, -60.0]))
        b = float(r.choice([0.0, -2.0, -8.0]))
    if not ok:
        ctx.count("rejected")
        return
    # (the nodes carry weights -- area weights on a sphere, the owner's own
    #  ones otherwise: no business of the link model)
    if not geo and r.random() < 0.6:
        net.node_weights = r.integers(1, 9, n) / 4.0
    w_before = np.array(net.node_weights, dtype=float)
    op = "set_random_links_by_distance"
    seed = seed_lib(r)
    det = {"seed": seed, "n": n, "geo": geo, "a": a, "b": b,
           "input_directed": was_directed}
    pre = net_invariant(net)
    if pre:
        ctx.count("input_already_breaks_I_net:" + type(net).__name__)
    ok, res = ctx.call(net.set_random_links_by_distance, a, b)
    ctx.evals()
    ctx.count("dist_links")
    if not ok:
        raises(ctx, op, res, det, cid)
        return
    if net.N != n:
        ctx.violation(f"{op}:N-changed", det, cid)
        return
    if not inet(ctx, op, net, det, cid, pre):
        return
    A1 = np.asarray(net.adjacency)
    br = simple_undirected(A1, n)
    if br:
        ctx.violation(f"{op}:not-simple:{br[0]}", {**det, "broken": br}, cid)
        return
    if net.directed and not was_directed:
        ctx.violation(f"{op}:result-directed", det, cid)
    if not np.array_equal(np.asarray(net.node_weights, dtype=float),
                          w_before):
        ctx.violation(f"{op}:node-weights-changed", det, cid)
    if was_directed:
        ctx.count("dist_links_from_directed_input")
    s = int(A1.sum())
    if a + b * 0 >= 0 and b == 0.0 and s != n * (n - 1):
        ctx.violation(f"{op}:probability-1-not-complete", det, cid)
    if a <= -60.0 and s != 0:
        ctx.violation(f"{op}:probability-0-not-empty", det, cid)
    if 0 < s < n * (n - 1):
        ctx.nontrivial(("dist", cid, ctx.seed))


# --------------------------------------------------------------------------
# 5. cross links
# --------------------------------------------------------------------------

def inter_input(r, nmax=16):
    n = int(r.integers(3, nmax + 1))
    A = gg.gnp(r, n, float(r.choice([0.1, 0.3, 0.5, 0.8])))
    perm = r.permutation(n)
    n1 = int(r.integers(1, n - 1))
    rest = n - n1
    n2 = rest if r.random() < 0.4 else int(r.integers(1, rest + 1))
    nodes1 = [int(v) for v in perm[:n1]]
    nodes2 = [int(v) for v in perm[n1:n1 + n2]]
    if r.random() < 0.3:
        nodes1.sort()
        nodes2.sort()
    w = gg.pos_weights(r, n)
    return A, nodes1, nodes2, w


def untouched_parts(B0, B1, nodes1, nodes2):
    """Which part outside the cross block changed?  None if nothing."""
    n = len(B0)
    if B1.shape != B0.shape:
        return "N-changed"
    diff = B0 != B1
    cross = np.zeros((n, n), bool)
    cross[np.ix_(nodes1, nodes2)] = True
    cross |= cross.T
    if not (diff & ~cross).any():
        return None
    if diff[np.ix_(nodes1, nodes1)].any() or diff[np.ix_(nodes2, nodes2)].any():
        return "internal-links-changed"
    return "uninvolved-node-links-changed"


def case_cross_set(ctx, k, cid):
    from pyunicorn.core.interacting_networks import InteractingNetworks as IN
    r = ctx.rng("xset", k)
    sparse = (k % 3 == 2)
    A, nodes1, nodes2, w = inter_input(r, 10 if sparse else 16)
    n1, n2 = len(nodes1), len(nodes2)
    ok, net = ctx.call(IN, adjacency=A.copy(), node_weights=w,
                       silence_level=3)
    if not ok:
        ctx.count("rejected")
        return
    B0 = A != 0
    c0 = int(B0[np.ix_(nodes1, nodes2)].sum())
    mode = ("number", "density", "null", "number")[(k // 3) % 4]
    kw = {}
    if mode == "number":
        m = int(r.choice([0, 1, n1 * n2, n1 * n2 - 1,
                          int(r.integers(0, n1 * n2 + 1))]))
        m = max(0, m)
        kw["number_cross_links"] = m
        lo = hi = m
    elif mode == "density":
        q = int(r.choice([4, 8, 16]))
        d = int(r.integers(0, q + 1)) / q
        kw["cross_link_density"] = d
        prod = d * n1 * n2            # exact: dyadic times small integer
        lo, hi = int(np.floor(prod)), int(np.ceil(prod))
    else:
        lo = hi = c0
    name = "RandomlySetCrossLinks" + ("_sparse" if sparse else "")
    op = f"{name}:{mode}"
    seed = seed_lib(r)
    det = {"seed": seed, "n": len(A), "edges": edges_of(A),
           "nodes1": nodes1, "nodes2": nodes2, **kw}
    with warnings.catch_warnings():
        warnings.simplefilter("ignore")
        ok, res = ctx.call(getattr(IN, name), net, nodes1, nodes2, **kw)
    ctx.evals()
    ctx.count("cross_set")
    ctx.count("cross_set:" + name)
    if not ok:
        raises(ctx, op, res, det, cid)
        return
    if not inet(ctx, op, res, det, cid, net_invariant(net)):
        return
    if not np.array_equal(np.asarray(net.adjacency) != 0, B0):
        ctx.violation(f"{op}:input-network-modified", det, cid)
    B1 = np.asarray(res.adjacency) != 0
    if res.directed or not np.array_equal(B1, B1.T) or \
            np.diagonal(B1).any():
        ctx.violation(f"{op}:not-undirected-loop-free", det, cid)
        return
    x = untouched_parts(B0, B1, nodes1, nodes2)
    if x:
        ctx.violation(f"{op}:{x}", {**det, "edges_after": edges_of(B1)}, cid)
        return
    c1 = int(B1[np.ix_(nodes1, nodes2)].sum())
    if not lo <= c1 <= hi:
        ctx.violation(f"{op}:cross-link-count-differs",
                      {**det, "expected": [lo, hi], "got": c1}, cid)
    if not np.array_equal(np.asarray(res.node_weights), w):
        ctx.violation(f"{op}:node-weights-changed", det, cid)
    if 0 < hi and lo < n1 * n2:
        ctx.nontrivial(("xset", cid, ctx.seed))
    if k < 30:
        ctx.sample({"op": op, "n": len(A), "nodes1": nodes1,
                    "nodes2": nodes2, **kw, "seed": seed,
                    "cross_links_before": c0, "after": c1})


def case_cross_null(ctx, k, cid):
    """The null model (no count, no density given: 'as many cross links as
    the input network has') over group sizes 1..12 x 1..12 and six cross
    link counts each, dense and sparse variant: whatever arithmetic derives
    the count, it is the input's."""
    from pyunicorn.core.interacting_networks import InteractingNetworks as IN
    n1, n2 = 1 + k % 12, 1 + (k // 12) % 12
    r = ctx.rng("xnull", k)
    nodes1 = list(range(n1))
    nodes2 = list(range(n1, n1 + n2))
    n = n1 + n2
    for c0 in sorted(set(int(v) for v in r.integers(0, n1 * n2 + 1, 6))):
        A = np.zeros((n, n), dtype=np.int8)
        for q in r.permutation(n1 * n2)[:c0]:
            i, j = nodes1[q // n2], nodes2[q % n2]
            A[i, j] = A[j, i] = 1
        ok, net = ctx.call(IN, adjacency=A.copy(), silence_level=3)
        if not ok:
            ctx.count("rejected")
            return
        for name in ("RandomlySetCrossLinks",
                     "RandomlySetCrossLinks_sparse"):
            seed_lib(r)
            with warnings.catch_warnings():
                warnings.simplefilter("ignore")
                ok, res = ctx.call(getattr(IN, name), net, nodes1, nodes2)
            ctx.evals()
            ctx.count("cross_null_model")
            det = {"n1": n1, "n2": n2, "cross_links": c0}
            if not ok:
                raises(ctx, f"{name}:null", res, det, cid)
                continue
            B1 = np.asarray(res.adjacency) != 0
            c1 = int(B1[np.ix_(nodes1, nodes2)].sum())
            if 0 < c0 < n1 * n2:
                ctx.nontrivial(("xnull", n1, n2, c0, name))
            if c1 != c0:
                ctx.violation(f"{name}:null:cross-link-count-differs",
                              {**det, "got": c1}, cid)


def cross_admissible(CA):
    """Number of ordered pairs of cross links (a,b),(c,d) with neither (a,d)
    nor (c,b) linked (brute force)."""
    links = np.argwhere(CA)
    if len(links) == 0:
        return 0
    a = links[:, 0][:, None]
    b = links[:, 1][:, None]
    c = links[:, 0][None, :]
    d = links[:, 1][None, :]
    return int((~CA[a, d] & ~CA[c, b]).sum())


def case_cross_rewire(ctx, k, cid):
    r = ctx.rng("xrew", k)
    A, nodes1, nodes2, w = inter_input(r)
    do_cross_rewire(ctx, r, A, nodes1, nodes2, w, cid)


def case_cross_rewire_small(ctx, k, cid):
    """every 3x3 cross adjacency block (512) between the groups [4,0,2] and
    [5,1,3] of a 7-node network with fixed internal links and node 6
    uninvolved (linked to one node of each group)"""
    r = ctx.rng("xrew-small", k)
    nodes1, nodes2 = [4, 0, 2], [5, 1, 3]
    A = np.zeros((7, 7), dtype=np.int8)
    for i, j in ((4, 0), (0, 2), (5, 1), (6, 4), (6, 3)):
        A[i, j] = A[j, i] = 1
    for b in range(9):
        if k >> b & 1:
            i, j = nodes1[b // 3], nodes2[b % 3]
            A[i, j] = A[j, i] = 1
    do_cross_rewire(ctx, r, A, nodes1, nodes2, np.ones(7), cid)


def do_cross_rewire(ctx, r, A, nodes1, nodes2, w, cid):
    from pyunicorn.core.interacting_networks import InteractingNetworks as IN
    ok, net = ctx.call(IN, adjacency=A.copy(), node_weights=w,
                       silence_level=3)
    if not ok:
        ctx.count("rejected")
        return
    B0 = A != 0
    CA = B0[np.ix_(nodes1, nodes2)]
    ncl = int(CA.sum())
    if ncl > 0 and cross_admissible(CA) < 2:
        ctx.count("cross_no_admissible_swap")
        return
    swaps = float(r.choice([0.5, 1.0, 3.0, 10.0]))
    op = "RandomlyRewireCrossLinks"
    seed = seed_lib(r)
    det = {"seed": seed, "n": len(A), "edges": edges_of(A),
           "nodes1": nodes1, "nodes2": nodes2, "swaps": swaps}
    ok, res = ctx.call(IN.RandomlyRewireCrossLinks, net, nodes1, nodes2,
                       swaps)
    ctx.evals()
    ctx.count("cross_rewire")
    if not ok:
        raises(ctx, op, res, det, cid, ":no-cross-links" if ncl == 0 else "")
        return
    if not inet(ctx, op, res, det, cid, net_invariant(net)):
        return
    B1 = np.asarray(res.adjacency) != 0
    if res.directed or not np.array_equal(B1, B1.T) or \
            np.diagonal(B1).any():
        ctx.violation(f"{op}:not-undirected-loop-free", det, cid)
        return
    x = untouched_parts(B0, B1, nodes1, nodes2)
    if x:
        ctx.violation(f"{op}:{x}", {**det, "edges_after": edges_of(B1)}, cid)
        return
    CB = B1[np.ix_(nodes1, nodes2)]
    if not (np.array_equal(CA.sum(axis=1), CB.sum(axis=1)) and
            np.array_equal(CA.sum(axis=0), CB.sum(axis=0))):
        ctx.violation(f"{op}:cross-degree-changed",
                      {**det, "before": [CA.sum(axis=1), CA.sum(axis=0)],
                       "after": [CB.sum(axis=1), CB.sum(axis=0)]}, cid)
    elif not np.array_equal(B0.sum(axis=0), B1.sum(axis=0)):
        ctx.violation(f"{op}:degree-changed", det, cid)
    if not np.array_equal(np.asarray(net.adjacency) != 0, B0):
        ctx.violation(f"{op}:input-network-modified", det, cid)
    if not np.array_equal(np.asarray(res.node_weights), w):
        ctx.violation(f"{op}:node-weights-changed", det, cid)
    if not np.array_equal(CA, CB):
        ctx.nontrivial(("xrew", cid, ctx.seed))
        ctx.count("cross_rewire_changed")


# --------------------------------------------------------------------------
# 6. kernel boundary
# --------------------------------------------------------------------------

def edges_match_matrix(edges, B):
    """Edge list (any orientation) in bijection with the links of the
    symmetric boolean matrix B?"""
    es = [(min(int(a), int(b)), max(int(a), int(b))) for a, b in edges]
    nz = set((int(a), int(b)) for a, b in np.argwhere(np.triu(B, 1)))
    return len(es) == len(set(es)) and set(es) == nz


def case_kernel_geo(ctx, k, cid):
    from pyunicorn.core._ext import numerics as nx
    from pyunicorn.core._ext.types import ADJ, FIELD, NODE, DEGREE
    r = ctx.rng("kgeo", k)
    model = 1 + k % 3
    A, D, eps, style, spacing = geo_input(
        r, k // 3, model == 3 and (k // 3) % 2 == 0)
    name = "_randomly_rewire_geomodel_" + "I" * model
    fn = getattr(nx, name)
    Ac = np.ascontiguousarray(A, dtype=ADJ)
    Dc = np.ascontiguousarray(D, dtype=FIELD)
    D32 = np.float32(D)
    eps32 = np.float32(eps)
    slack = EPS_FLOAT_SLACK if style == "euclid" else 0.0
    el = np.argwhere(np.triu(A, 1))
    # random orientation of the stored links (the API hands over igraph's)
    flip = r.random(len(el)) < 0.5
    el[flip] = el[flip][:, ::-1]
    edges = np.ascontiguousarray(el, dtype=NODE).reshape(-1, 2)
    E = len(edges)
    deg = np.ascontiguousarray((A != 0).sum(axis=0), dtype=DEGREE)
    seed = seed_lib(r)
    det = {"seed": seed, "n": len(A), "edges": edges.tolist(), "eps": eps,
           "style": style, "D": D}
    nsteps = 16 if ctx.thorough else 10
    hist = []
    for step in range(nsteps):
        Bc = Ac != 0
        adm = int(admissible(Bc, D32, eps32, edges.astype(int), model,
                             Bc.sum(axis=0)).sum())
        if adm < 2:
            ctx.count("kernel_no_admissible_swap")
            break
        # single iterations, and (last call) a burst on the same state
        iters = 1 if step < nsteps - 1 else 7
        args = (iters, eps, Ac, Dc, E, edges) + ((deg,) if model == 3 else ())
        ok, res = ctx.call(fn, *args)
        ctx.evals()
        ctx.count("kernel_geo_steps")
        if not ok:
            raises(ctx, name, res, {**det, "history": hist}, cid)
            return
        Bn = Ac != 0
        if not np.all((Ac == 0) | (Ac == 1)):
            ctx.violation(f"{name}:entries-not-0/1", det, cid)
            return
        if not np.array_equal(Bn, Bn.T):
            ctx.violation(f"{name}:A-asymmetric", {**det, "history": hist},
                          cid)
            return
        if not edges_match_matrix(edges, Bn):
            ctx.violation(f"{name}:edge-list-not-in-bijection-with-A",
                          {**det, "history": hist,
                           "edge_list_after": edges.tolist(),
                           "A_after": edges_of(Bn)}, cid)
            return
        if iters == 1:
            x = check_step(name, model, Bc, Bn, D32, eps32, slack)
            if x:
                rem, add = swap_from_diff(Bc, Bn)
                ctx.violation(f"{name}:{x}",
                              {**det, "history": hist, "removed": rem,
                               "added": add}, cid)
                return
            hist.append(swap_from_diff(Bc, Bn))
        elif not np.array_equal(Bc.sum(axis=0), Bn.sum(axis=0)):
            ctx.violation(f"{name}:degree-changed", det, cid)
            return
        ctx.nontrivial(("kgeo", cid, step, ctx.seed))


def case_kernel_cross1(ctx, k, cid):
    """kernel calls that perform exactly one accepted draw sequence"""
    case_kernel_cross(ctx, k, cid, single=True)


def case_kernel_cross(ctx, k, cid, single=False):
    from pyunicorn.core._ext import numerics as nx
    from pyunicorn.core._ext.types import ADJ, NODE
    r = ctx.rng("kx1" if single else "kx", k)
    A, nodes1, nodes2, _ = inter_input(r)
    n1, n2 = len(nodes1), len(nodes2)
    B0 = A != 0
    Ac = np.ascontiguousarray(A, dtype=ADJ)
    a1 = np.array(nodes1, dtype=NODE)
    a2 = np.array(nodes2, dtype=NODE)
    seed = seed_lib(r)
    det = {"seed": seed, "n": len(A), "edges": edges_of(A),
           "nodes1": nodes1, "nodes2": nodes2}
    if k % 2 == 0:
        name = "_randomlySetCrossLinks"
        m = int(r.integers(0, n1 * n2 + 1))
        det["number_cross_links"] = m
        CA = np.zeros((n1, n2), dtype=ADJ)
        ok, res = ctx.call(nx._randomlySetCrossLinks, Ac, CA, m, a1, a2,
                           n1, n2)
        ctx.evals()
        ctx.count("kernel_cross")
        if not ok:
            raises(ctx, name, res, det, cid)
            return
        if int((CA != 0).sum()) != m or not np.all((CA == 0) | (CA == 1)):
            ctx.violation(f"{name}:cross-link-count-differs",
                          {**det, "got": int((CA != 0).sum())}, cid)
            return
        nontriv = 0 < m < n1 * n2
    else:
        name = "_randomlyRewireCrossLinks"
        CA = np.ascontiguousarray(A[np.ix_(nodes1, nodes2)], dtype=ADJ)
        CA0 = CA.copy()
        ncl = int(CA.sum())
        if ncl == 0 or cross_admissible(CA != 0) < 2:
            ctx.count("kernel_no_admissible_swap")
            return
        links = np.ascontiguousarray(np.argwhere(CA), dtype=NODE)
        nsw = 1 if single else int(r.choice([2, 5, 30]))
        det["number_swaps"] = nsw
        ok, res = ctx.call(nx._randomlyRewireCrossLinks, Ac, CA, links, a1,
                           a2, ncl, nsw)
        ctx.evals()
        ctx.count("kernel_cross")
        if not ok:
            raises(ctx, name, res, det, cid)
            return
        ls = [(int(a), int(b)) for a, b in links]
        nz = set((int(a), int(b)) for a, b in np.argwhere(CA))
        if len(ls) != len(set(ls)) or set(ls) != nz or \
                not np.all((CA == 0) | (CA == 1)):
            ctx.violation(f"{name}:link-list-not-in-bijection-with-cross_A",
                          {**det, "links_after": ls,
                           "cross_A_after": sorted(nz)}, cid)
            return
        if not (np.array_equal(CA.sum(axis=0), CA0.sum(axis=0)) and
                np.array_equal(CA.sum(axis=1), CA0.sum(axis=1))):
            ctx.violation(f"{name}:cross-degree-changed", det, cid)
            return
        if nsw == 1:
            d = int((CA != CA0).sum())
            if d != 4:
                ctx.violation(f"{name}:single-swap-changes-{d}-entries!=4",
                              det, cid)
        nontriv = not np.array_equal(CA, CA0)
    B1 = Ac != 0
    if not np.array_equal(B1[np.ix_(nodes1, nodes2)], CA != 0) or \
            not np.array_equal(B1, B1.T):
        ctx.violation(f"{name}:A-cross-block!=cross_A-or-asymmetric", det,
                      cid)
        return
    x = untouched_parts(B0, B1, nodes1, nodes2)
    if x:
        ctx.violation(f"{name}:{x}", det, cid)
        return
    if nontriv:
        ctx.nontrivial(("kx", cid, ctx.seed))


# --------------------------------------------------------------------------

def run(ctx):
    T = ctx.thorough
    # phase A: single-step kernel calls and loop-free operations first (the
    # finest monitors, least able to hang); phase B: multi-iteration calls
    phases = [[
        # (tag, function, number of cases, soft guard seconds)
        ("kx1", case_kernel_cross1, 24000 if T else 800, 10),
        ("kgeo", case_kernel_geo, 30000 if T else 800, 10),
        ("model", case_model, 90000 if T else 2400, 10),
        ("xset", case_cross_set, 60000 if T else 1500, 10),
        ("xnull", case_cross_null, 1440 if T else 144, 10),
        ("dist", case_dist, 18000 if T else 480, 10),
    ], [
        ("rewire-small", case_rewire_small, len(SMALL), 10),
        ("xrew-small", case_cross_rewire_small, 512, 10),
        ("geo-small", case_geo_small, 3 * GRAPHS5, 10),
        ("rewire", case_rewire, 60000 if T else 1500, 10),
        ("geo", case_geo, 60000 if T else 1500, 10),
        ("xrew", case_cross_rewire, 45000 if T else 1200, 10),
        ("kx", case_kernel_cross, 30000 if T else 800, 10),
    ]]
    # A compiled rejection loop that cannot terminate is not interruptible by
    # the soft watchdog.  Cases are therefore gated by ctx.start (progress
    # file + checkpoints, META["resume_on_death"]) and run under a hard
    # watchdog that kills the process; the driver restarts the shard after
    # the killing case and the rest of that case family is skipped (its floor
    # is then missed => INCONCLUSIVE, never "held"), while everything the
    # other monitors saw is kept.
    mark = "c17_hung_families"
    poisoned = set()
    if ctx.resume_after is not None:
        if os.path.exists(mark):
            with open(mark) as fh:
                poisoned = set(fh.read().split())
        fam = str(ctx.resume_after).split(":")[0]
        if fam not in poisoned:
            poisoned.add(fam)
            with open(mark, "a") as fh:
                fh.write(fam + "\n")
    elif os.path.exists(mark):
        os.remove(mark)
    # phase A may use at most 45 % of the soft budget
    run_plan(ctx, phases[0], poisoned, 0.55 * ctx.time_left())
    run_plan(ctx, phases[1], poisoned, 0.0)


def run_plan(ctx, plan, poisoned, reserve):
    # interleave the families so that a time budget cuts all of them evenly
    chunk = 64
    pos = {p[0]: 0 for p in plan}
    active = True
    while active:
        active = False
        for tag, fn, total, gs in plan:
            lo = pos[tag]
            if lo >= total:
                continue
            active = True
            hi = min(total, lo + chunk)
            pos[tag] = hi
            if ctx.time_left() <= reserve:
                ctx.count("cases_cut_by_budget",
                          sum(1 for k in range(lo, hi) if ctx.mine(k)))
                continue
            for k in range(lo, hi):
                if not ctx.mine(k):
                    continue
                cid = f"{tag}:{k}"
                if not ctx.start(cid):
                    continue
                if tag in poisoned:
                    ctx.count("skipped_after_hard_kill:" + tag)
                    continue
                faulthandler.dump_traceback_later(HARD_KILL_S, exit=True)
                try:
                    with ctx.guard(gs):
                        fn(ctx, k, cid)
                finally:
                    faulthandler.cancel_dump_traceback_later()


def post(m, results, san_logs):
    """Driver side: cases killed by the hard watchdog make the run
    inconclusive (floor `runs_without_hard_kill`)."""
    deaths = [d for R in results for d in R.get("deaths", [])]
    m["counters"]["cases_killed_by_hard_watchdog"] = len(deaths)
    m["counters"]["runs_without_hard_kill"] = 0 if deaths else 1
    if deaths:
        m["notes"]["killed_cases"] = [d["case_id"] for d in deaths][:20]
