"""C19 — distributed computation returns the serial result."""
import itertools
import os
import subprocess
import sys

import numpy as np

from pvm.gen import graphs as G

META = dict(
    shards={"quick": 16, "thorough": 16},
    budget={"quick": 40, "thorough": 540},
    timeout={"quick": 900, "thorough": 3600},
    technique="scheduler-controlled MPI stand-in with protocol checker "
              "(exactly-once, FIFO per worker, range tiling) + serial-vs-"
              "distributed comparison + chunk-kernel partition monitor",
    rule=("cases: networks with several components (sizes 1,2 and 11..45, "
          "thorough also 101..130 so that the worker count limits the number "
          "of chunks) x measure in {newman, nsi_newman (+-local ends), "
          "nsi_arenas (2x2 options)} x worker count W in {2,3,5,N+2} x "
          "assignment policy {least-loaded (real rule), round-robin, random} "
          "x completion order {eager, lazy, reverse, random} x silence_level "
          "0..3; the library's mpi module global is replaced in-process by "
          "the stand-in, arguments/results are pickled. Oracle: result equals "
          "the serial result (rtol 1e-10, atol 1e-12), and the protocol "
          "checker is silent (every submitted id collected exactly once, "
          "per-worker FIFO respected, [start,end) ranges tile [0,N)). Chunk "
          "kernels are additionally called on ALL contiguous partitions of "
          "[0,N) for N<=7 (quick) / 9 (thorough) and random partitions "
          "beyond, pieces reassembled and compared with the full-range call; "
          "the n.s.i. betweenness kernel on random partitions of the target "
          "list (what the multiprocessing pool does), and the real spawn "
          "pool in a time-boxed subprocess. non-trivial = distinct "
          "(network, measure, W, policy, order, verbosity) runs in which >= 2 "
          "chunks were submitted for some component, plus distinct "
          "(kernel, network, partition) with >= 2 parts."),
    floors={"quick": {"multi_chunk_runs": 60, "partitions_checked": 300,
                      "protocol_checked": 100, "spawn_pool_runs": 3},
            "thorough": {"multi_chunk_runs": 600, "partitions_checked": 3000,
                         "protocol_checked": 1000}},
    exhaustive_subspaces={
        "quick": ["all contiguous partitions of [0,N) for N<=7 for the 3 "
                  "chunk kernels"],
        "thorough": ["all contiguous partitions of [0,N) for N<=9 for the 3 "
                     "chunk kernels"]},
    assumptions=[
        "mpi4py is not installed: transport is emulated (pickle round trip, "
        "names resolved by eval in sys.modules[module].__dict__ as the real "
        "slave does); the stand-in enforces the documented per-worker FIFO "
        "collection rule of pyunicorn.utils.mpi",
        "serial result = the library with its real mpi module "
        "(available=False)"],
)

META["rule"] += (
    " " + 'Added after the third round: spawn-pool variants with nsi=False, with and without source / target sets.')

META["rule"] += (
    " " + "Added after the fifth round: the Arenas measure runs on components up to 95 nodes, the sizes with a short last chunk (64, 73, 82, 91) taken in turn; a fifth of the master-loop runs use the library's own submit_call / get_result in their mode without slaves.")

META["rule"] += (
    " " + 'Added after the sixth round: every fifth network of the master-loop family is directed (a third of the links keep one direction).')

META["rule"] += (
    " " + 'Added after the seventh round: hub-and-spoke components of 21 .. 40 nodes, every third network.')

META["rule"] += (
    " " + 'Added after the eighth round: core-periphery networks (the all-neighbour core numbered first, one or two chunks long); pool calls with three targets and with none.')

META["rule"] += (
    " " + 'Added after the ninth round: pool call with a target list that names a node twice.')

MEASURES = [
    ("newman_betweenness", {}),
    ("nsi_newman_betweenness", {}),
    ("nsi_newman_betweenness", {"add_local_ends": True}),
    ("nsi_arenas_betweenness", {}),
    ("nsi_arenas_betweenness", {"exclude_neighbors": False}),
    ("nsi_arenas_betweenness", {"stopping_mode": "twinness"}),
    ("nsi_arenas_betweenness", {"exclude_neighbors": False,
                                "stopping_mode": "twinness"}),
]


def multi_component(rng, big_sizes, small=(1, 2)):
    """Disjoint union of connected blocks, node order shuffled."""
    blocks = [G.random_connected(rng, s, s, extra_p=float(
        rng.choice([0.05, 0.15, 0.4]))) for s in big_sizes]
    for s in small:
        if s == 1:
            blocks.append(np.zeros((1, 1), dtype=np.int8))
        else:
            blocks.append(G.random_connected(rng, s, s))
    n = sum(len(b) for b in blocks)
    A = np.zeros((n, n), dtype=np.int8)
    o = 0
    for b in blocks:
        A[o:o + len(b), o:o + len(b)] = b
        o += len(b)
    p = rng.permutation(n)
    return A[np.ix_(p, p)]


def close(a, b):
    a = np.asarray(a, dtype=float)
    b = np.asarray(b, dtype=float)
    return a.shape == b.shape and bool(np.all(
        np.abs(a - b) <= 1e-10 * np.maximum(np.abs(a), np.abs(b)) + 1e-12))


def mname(m, kw):
    return m + ("" if not kw else "[" + ",".join(
        f"{k}={v}" for k, v in sorted(kw.items())) + "]")


def _roles(ctx):
    kern = [s for s in range(ctx.nshards) if s % 4 == 1]
    mast = [s for s in range(ctx.nshards) if s % 4 != 1] or [0]
    if not kern:
        kern = [0]
    return kern, mast


def mine_in(ctx, i, group):
    return ctx.shard in group and group.index(ctx.shard) == i % len(group)


class _OwnProtocol:
    """pyunicorn.utils.mpi itself, announcing `size` processes."""

    def __init__(self, real, size):
        self._real = real
        self.available = True
        self.size = size

    def __getattr__(self, k):
        return getattr(self._real, k)


def master_loop_cases(ctx):
    MAST = _roles(ctx)[1]
    import pyunicorn.core.network as netmod
    from pyunicorn.core import Network
    from pvm.mon.fake_mpi import FakeMPI
    real_mpi = netmod.mpi
    assert real_mpi.available is False
    k = 0
    cap = 24000 if ctx.thorough else 400
    nets = 0
    while ctx.time_left() > 0 and k < cap:
        nets += 1
        r = ctx.rng("net", nets)
        if ctx.thorough and nets % 9 == 0:
            sizes = [int(r.integers(101, 131))]
        elif nets % 4 == 3:
            # component sizes at which the chunk bookkeeping rounds: a last
            # chunk shorter than half a step, a chunk of a single node
            # (taken in turn, so that every run sees each of them)
            sizes = [[64, 91, 74, 73, 101, 82, 111][(nets // 4) % 7]]
            ctx.count("chunk_rounding_sizes")
        else:
            sizes = [int(v) for v in r.integers(11, 46, int(r.integers(1, 3)))]
            if nets % 5 == 0:
                sizes.append(int(r.integers(3, 11)))
        A = multi_component(r, sizes, small=(1, 2) if nets % 2 else ())
        if nets % 3 == 2:
            # a hub-and-spoke component (one node carries most of the
            # links: chunks cut by link shares would be very uneven), the hub
            # somewhere in the middle of the numbering, a path and a few
            # extra links among the nodes behind it
            nh = int(r.integers(21, 41))
            A = np.zeros((nh, nh), dtype=np.int8)
            h = int(r.integers(2, nh - 4))
            A[h, :] = A[:, h] = 1
            A[h, h] = 0
            for i in range(h + 1, nh - 1):
                A[i, i + 1] = A[i + 1, i] = 1
            if r.random() < 0.5:
                for i in range(0, h - 1):
                    A[i, i + 1] = A[i + 1, i] = 1
            for _ in range(4):
                i, j = (int(v) for v in r.integers(0, nh, 2))
                if i != j:
                    A[i, j] = A[j, i] = 1
            sizes = [nh]
            ctx.count("hub_and_spoke_networks")
        if nets % 6 == 1:
            # a core whose nodes are linked to every node, numbered first
            # (the periphery only has a few links of its own): the leading
            # chunks of the node range then consist of such nodes only
            nh = int(r.choice([12, 14, 16, 18, 20, 24, 30]))
            c = -(-nh // (-(-nh // 10)))          # one chunk of the range
            if nh == 30 and r.random() < 0.5:
                c *= 2
            A = np.zeros((nh, nh), dtype=np.int8)
            A[:c, :] = 1
            A[:, :c] = 1
            np.fill_diagonal(A, 0)
            for _ in range(int(r.integers(0, 4))):
                i, j = (int(v) for v in r.integers(c, nh, 2))
                if i != j:
                    A[i, j] = A[j, i] = 1
            sizes = [nh]
            ctx.count("core_periphery_networks")
        n = len(A)
        directed = (nets % 5 == 2)
        if directed:
            # a directed network: a third of the links keep one direction
            # only (the rows of A+ are then not its columns)
            drop = np.triu(r.random((n, n)) < 0.33, 1) & (A != 0)
            if r.random() < 0.5:
                drop = drop.T
            A = A.copy()
            A[drop] = 0
            ctx.count("directed_networks")
        w = G.pos_weights(r, n)
        serial = {}
        for m, kw in MEASURES:
            if max(sizes) > 95 and m == "nsi_arenas_betweenness":
                continue     # O(N^4): out of budget at this size
            for rep in range(3 if ctx.thorough else 2):
                k += 1
                if not mine_in(ctx, k, MAST):
                    continue
                cid = f"ml:{nets}:{mname(m, kw)}:{rep}"
                if not ctx.want(cid):
                    continue
                rr = ctx.rng("sched", k)
                W = int(rr.choice([2, 3, 5, n + 2]))
                policy = str(rr.choice(["least", "rr", "random"]))
                order = str(rr.choice(["eager", "lazy", "reverse", "random"]))
                sl = int(rr.integers(0, 4))
                key = mname(m, kw)
                if key not in serial:
                    netmod.mpi = real_mpi
                    net = Network(adjacency=A, directed=directed, node_weights=w,
                                  silence_level=3)
                    ok, val = ctx.call(getattr(net, m), **kw)
                    serial[key] = (ok, val)
                ok0, ref = serial[key]
                if not ok0:
                    ctx.count("serial_raises")
                    continue
                if rr.random() < 0.2:
                    # the master loops on the library's own protocol code in
                    # its documented mode without slaves (the master does
                    # every call itself at submission): a module object that
                    # differs from pyunicorn.utils.mpi only in announcing W
                    # processes
                    own = _OwnProtocol(real_mpi, W)
                    netmod.mpi = own
                    try:
                        net = Network(adjacency=A, directed=directed, node_weights=w,
                                      silence_level=sl)
                        with ctx.guard(300):
                            ok, val = ctx.call(getattr(net, m), **kw)
                    finally:
                        netmod.mpi = real_mpi
                    ctx.evals()
                    ctx.count("own_protocol_code_runs")
                    if len([x for x in sizes if x >= 2]) + \
                            (2 in ((1, 2) if nets % 2 else ())) >= 2:
                        ctx.count("own_protocol_ids_reused")
                    if not ok:
                        ctx.violation(
                            f"{key}:own-protocol-raises:{type(val).__name__}",
                            {"sizes": sizes, "N": n, "W": W,
                             "exc": repr(val)}, cid)
                    elif not close(val, ref):
                        ctx.violation(
                            f"{key}:own-protocol!=serial",
                            {"sizes": sizes, "N": n, "W": W, "serial": ref,
                             "distributed": val}, cid)
                    continue
                fake = FakeMPI(W, policy, order, rng=rr)
                netmod.mpi = fake
                try:
                    net = Network(adjacency=A, directed=directed, node_weights=w,
                                  silence_level=sl)
                    with ctx.guard(300):
                        ok, val = ctx.call(getattr(net, m), **kw)
                finally:
                    netmod.mpi = real_mpi
                ctx.evals()
                case = {"sizes": sizes, "N": n, "measure": key, "W": W,
                        "policy": policy, "order": order, "silence_level": sl,
                        "edges": np.argwhere(np.triu(A)).tolist()
                        if n <= 40 else "large", "weights": w}
                chunks = fake.max_chunks()
                if m == "nsi_arenas_betweenness" and max(sizes) in (
                        64, 73, 82, 91):
                    ctx.count("arenas_with_a_short_last_chunk")
                if chunks >= 2:
                    ctx.count("multi_chunk_runs")
                    ctx.nontrivial((nets, key, W, policy, order, sl))
                ctx.count(f"chunks={min(chunks, 6)}")
                ctx.count(f"verbosity={sl}")
                ctx.count(f"order={order}")
                vsig = "" if sl == 0 else ":verbosity>=1"
                if not ok:
                    ctx.violation(
                        f"{key}:distributed-raises:{type(val).__name__}{vsig}",
                        {**case, "exc": repr(val),
                         "protocol": fake.check()[:3]}, cid)
                    continue
                perr = fake.check()
                terr = fake.tiling_errors()
                ctx.count("protocol_checked")
                if perr:
                    ctx.violation(f"{key}:protocol-breach{vsig}",
                                  {**case, "errors": perr[:3]}, cid)
                if terr:
                    ctx.violation(f"{key}:chunk-ranges-do-not-tile{vsig}",
                                  {**case, "errors": terr[:3]}, cid)
                if not fake.submitted:
                    ctx.violation(f"{key}:nothing-distributed{vsig}", case,
                                  cid)
                if not close(val, ref):
                    ctx.violation(f"{key}:distributed!=serial{vsig}",
                                  {**case, "serial": ref, "distributed": val,
                                   "chunks": chunks}, cid)
                elif chunks >= 2:
                    ctx.sample({"N": n, "components": sizes, "measure": key,
                                "W": W, "policy": policy, "order": order,
                                "silence_level": sl, "chunks": chunks,
                                "exec_order": fake.exec_order[:8]})


def compositions(n):
    """All ways to cut [0,n) into contiguous non-empty parts."""
    for bits in range(1 << (n - 1)):
        cuts = [0] + [i + 1 for i in range(n - 1) if bits >> i & 1] + [n]
        yield list(zip(cuts[:-1], cuts[1:]))


def kernel_partition_cases(ctx):
    from pyunicorn.core import Network
    from pyunicorn.core._ext.numerics import (
        _mpi_newman_betweenness, _mpi_nsi_newman_betweenness,
        _nsi_betweenness)
    from pyunicorn.core._ext.types import (to_cy, ADJ, DFIELD, MASK, NODE,
                                           DEGREE, DWEIGHT)
    import scipy.sparse as sp
    from scipy.sparse.linalg import inv
    Nex = 9 if ctx.thorough else 7
    idx = 0
    KERN = _roles(ctx)[0]

    def prep(A, w):
        """The master's per-component preparation, re-stated here from the
        published formulas (Kirchhoff matrix without last row/col)."""
        N = len(A)
        net = Network(adjacency=A, node_weights=w, silence_level=3)
        sp_A = net.sp_A
        sp_M = sp.diags([net.indegree()], [0], shape=(N, N),
                        format='csc') - sp_A
        V = sp.lil_matrix((N, N))
        V[:-1, :-1] = inv(sp_M[:-1, :-1].tocsc())
        V = V.toarray()
        Ap = net.sp_Aplus()
        Dw, DwI = net.sp_diag_w(), net.sp_diag_w_inv()
        Dk, DkI = net.sp_nsi_diag_k(), net.sp_nsi_diag_k_inv()
        sp_M2 = Dw * (Dk - Ap * Dw) * DwI
        Mi = sp.lil_matrix((N, N))
        Mi[:-1, :-1] = inv(sp_M2[:-1, :-1].tocsc())
        V2 = ((DkI * Ap) * Mi).T.astype(DFIELD).toarray()
        nae = (1 - A - np.identity(N)).astype(MASK)
        return net, V, V2, nae

    def run_parts(kern, A, V, N, w, nae, parts):
        out = np.full(N, np.nan)
        for (a, b) in parts:
            if kern == "newman":
                res, s, e = _mpi_newman_betweenness(
                    to_cy(A[a:b, :], ADJ), to_cy(V, DFIELD), N, a, b)
            else:
                res, s, e = _mpi_nsi_newman_betweenness(
                    to_cy(A[a:b, :], ADJ), to_cy(V, DFIELD), N,
                    to_cy(w, DWEIGHT), nae[a:b, :], a, b)
            if (s, e) != (a, b) or len(res) != b - a:
                return None
            out[s:e] = res
        return out

    def arenas_parts(net, A, w, parts, excl, mode):
        N = len(A)
        net.nsi_degree()
        Aplus = (A + np.identity(N)).astype(int)
        sp_P = (net.sp_nsi_diag_k_inv() * net.sp_Aplus()
                * net.sp_diag_w()).todok()
        tw = net.nsi_twinness() if mode == "twinness" else None
        tot = np.zeros(N)
        for (a, b) in parts:
            err, res = Network._mpi_nsi_arenas_betweenness(
                N, sp_P, Aplus[a:b, :], w, w[a:b], a, b, excl, mode,
                None if tw is None else tw[a:b, :])
            if err != '':
                return None
            tot += res[0]
        return tot

    def one_graph(A, w, cid, part_iter, exhaustive):
        N = len(A)
        with ctx.quiet():
            net, V, V2, nae = prep(A, w)
        full = {}
        for parts in part_iter:
            for kern in ("newman", "nsi_newman", "arenas"):
                if kern == "arenas" and (N > 14 or
                                         (exhaustive and len(parts) > 3
                                          and N > 6)):
                    continue
                with ctx.quiet():
                    if kern == "arenas":
                        f = lambda p: arenas_parts(  # noqa
                            net, A, w, p, True, "neighbors")
                    else:
                        f = lambda p: run_parts(  # noqa
                            kern, A, V if kern == "newman" else V2, N, w,
                            nae, p)
                    if kern not in full:
                        full[kern] = f([(0, N)])
                    ok, got = ctx.call(f, parts)
                ctx.evals()
                ctx.count("partitions_checked")
                if len(parts) >= 2:
                    ctx.nontrivial((kern, G.canon_key(A), tuple(parts)))
                case = {"kernel": kern, "edges": np.argwhere(
                    np.triu(A)).tolist(), "N": N, "weights": w,
                    "parts": parts}
                if not ok:
                    ctx.violation(f"chunk-kernel:{kern}:raises:"
                                  f"{type(got).__name__}",
                                  {**case, "exc": repr(got)}, cid)
                elif got is None or full[kern] is None or \
                        not close(got, full[kern]):
                    ctx.violation(f"chunk-kernel:{kern}:pieces!=full-range",
                                  {**case, "pieces": got,
                                   "full": full[kern]}, cid)

    # exhaustive partitions on small connected graphs
    for N in range(2, Nex + 1):
        for rep in range(3 if N <= 7 else 1):
            idx += 1
            if not mine_in(ctx, idx, KERN):
                continue
            cid = f"kp:ex:{N}:{rep}"
            if not ctx.want(cid):
                continue
            r = ctx.rng("kp", N, rep)
            A = G.random_connected(r, N, N)
            w = G.pos_weights(r, N)
            one_graph(A, w, cid, compositions(N), True)
    # random partitions on larger graphs
    k = 0
    while ctx.time_left() > 5 and k < (2400 if ctx.thorough else 40):
        k += 1
        if not mine_in(ctx, k, KERN):
            continue
        cid = f"kp:rnd:{k}"
        if not ctx.want(cid):
            continue
        r = ctx.rng("kpr", k)
        N = int(r.integers(10, 40))
        A = G.random_connected(r, N, N)
        w = G.pos_weights(r, N)
        plist = []
        for _ in range(4):
            ncut = int(r.integers(1, min(N, 8)))
            cuts = sorted(set(int(c) for c in r.integers(1, N, ncut)))
            cuts = [0] + cuts + [N]
            plist.append(list(zip(cuts[:-1], cuts[1:])))
        one_graph(A, w, cid, plist, False)
    # target partitions of the n.s.i. betweenness kernel
    k = 0
    while ctx.time_left() > 2 and k < (4000 if ctx.thorough else 60):
        k += 1
        if not mine_in(ctx, k, KERN):
            continue
        cid = f"tb:{k}"
        if not ctx.want(cid):
            continue
        r = ctx.rng("tb", k)
        A = G.random_graph(r, 3, 30)
        N = len(A)
        w = G.pos_weights(r, N)
        with ctx.quiet():
            net = Network(adjacency=A, node_weights=w, silence_level=3)
            kdeg = to_cy(net.outdegree(), DEGREE)
            links = np.array(net.sp_A.nonzero()).T
            links = links[np.lexsort((links[:, 1], links[:, 0]))]
            flat = to_cy(links[:, 1], NODE) if len(links) else \
                np.zeros(0, dtype=NODE)
            src = np.ones(N, dtype=MASK)
            ww = to_cy(w, DWEIGHT)
            targets = np.arange(N, dtype=NODE)
            full = _nsi_betweenness(N, ww, kdeg, flat, src, targets)
            nb = int(r.integers(2, 17))
            perm = r.permutation(N).astype(NODE) if k % 2 else targets
            batches = np.array_split(perm, nb)
            tot = np.sum([_nsi_betweenness(N, ww, kdeg, flat, src, b)
                          for b in batches], axis=0)
            lib = net.nsi_betweenness()
        ctx.evals(2)
        ctx.count("target_partitions_checked")
        ctx.nontrivial(("tb", G.canon_key(A), nb, k % 2))
        if not close(tot, full):
            ctx.violation("chunk-kernel:nsi_betweenness:batches!=all-targets",
                          {"edges": np.argwhere(np.triu(A)).tolist(),
                           "weights": w, "batches": [b.tolist()
                                                     for b in batches],
                           "sum": tot, "full": full}, cid)
        if not close(full / w, lib):
            ctx.violation("nsi_betweenness:kernel-call!=public-method",
                          {"edges": np.argwhere(np.triu(A)).tolist()}, cid)


POOL_SCRIPT = r"""
import sys, json, numpy as np
from pyunicorn.core import Network
A = np.array(json.loads(sys.argv[1]), dtype=np.int8)
w = np.array(json.loads(sys.argv[2]))
variants = json.loads(sys.argv[3])
if __name__ == "__main__":
    out = []
    for kw in variants:
        a = Network(adjacency=A, node_weights=w, silence_level=3).nsi_betweenness(parallelize=True, **kw)
        b = Network(adjacency=A, node_weights=w, silence_level=3).nsi_betweenness(parallelize=False, **kw)
        out.append([a.tolist(), b.tolist()])
    print("RESULT", json.dumps(out))
"""


def pool_cases(ctx):
    import json
    import tempfile
    n_cases = 8 if ctx.thorough else 1
    for i in range(n_cases):
        cid = f"pool:{i}"
        if not ctx.want(cid):
            continue
        r = ctx.rng("pool", i)
        A = G.random_graph(r, 8, 40)
        n = len(A)
        w = G.pos_weights(r, n)
        perm = r.permutation(n)
        src = sorted(perm[: n // 2].tolist())
        tgt = sorted(perm[n // 3:].tolist())
        # the pool splits the *targets* into batches: restricted target
        # sets (the interregional use) must be honoured as in serial mode
        variants = [{}, {"targets": tgt}, {"sources": src, "targets": tgt},
                    {"sources": src},
                    # every option of the public method, distributed or not
                    {"nsi": False}, {"nsi": False, "sources": src,
                                     "targets": tgt},
                    # fewer targets than workers; none at all
                    {"targets": tgt[:3]}, {"targets": []},
                    # a list that names a node more than once, in any order
                    {"targets": [tgt[-1], tgt[0], tgt[1], tgt[0]]}]
        d = tempfile.mkdtemp(dir=os.environ.get("PVM_TMP", "."))
        script = os.path.join(d, "pool_case.py")
        with open(script, "w") as fh:
            fh.write(POOL_SCRIPT)
        try:
            p = subprocess.run(
                [sys.executable, script, json.dumps(A.tolist()),
                 json.dumps(w.tolist()), json.dumps(variants)], timeout=400,
                stdout=subprocess.PIPE, stderr=subprocess.PIPE, text=True)
        except subprocess.TimeoutExpired:
            ctx.count("pool_timeouts_inconclusive")
            continue
        line = [ln for ln in p.stdout.splitlines() if ln.startswith("RESULT")]
        ctx.evals()
        if p.returncode != 0 or not line:
            ctx.violation("nsi_betweenness:parallelize=True:raises",
                          {"stderr": p.stderr[-800:]}, cid)
            continue
        for kw, (a, b) in zip(variants, json.loads(line[0][7:])):
            pat = "+".join(sorted(kw)) or "all-nodes"
            ctx.count("spawn_pool_runs")
            ctx.nontrivial(("pool", i, pat, G.canon_key(A)))
            if not close(a, b):
                ctx.violation(f"nsi_betweenness:parallelize=True!=serial:"
                              f"{pat}",
                              {"edges": np.argwhere(np.triu(A)).tolist(),
                               "weights": w, **kw, "parallel": a,
                               "serial": b}, cid)


def run(ctx):
    if ctx.shard == 0:
        pool_cases(ctx)
    kern, mast = _roles(ctx)
    if ctx.shard in kern:
        kernel_partition_cases(ctx)
    if ctx.shard in mast:
        master_loop_cases(ctx)


_ = itertools
