"""C11 -- cross / internal measures of interacting networks match sub-blocks.

Signatures: "<method>:<relation>[:<input class>]" -- mechanism only.
  relation    ne-definition | ne-sparse-twin | asymmetric-under-swap |
              ne-single-network | ne-generic-call | raises:<Exc>
  input class array-nodes     (fails for numpy-array node lists, holds for the
                               same lists given as Python lists)
              unsorted-nodes  (fails for the node lists as given, holds for
                               the same lists sorted increasingly)
              first-group-weight-squared (nsi_cross_average_path_length only:
                               the value is the defining sum normalised with
                               W_1*W_1 instead of W_1*W_2)
              otherwise '+'-joined subset of directed / weighted /
              disconnected, computed from the case (weighted only if the
              unweighted call of the same method passed).
A failing method whose documented building block failed in the same case
(cross_link_density <- number_cross_links <- cross_adjacency, internal_degree
<- internal_outdegree <- internal_adjacency, ...) is listed under
"consequences" of the building block's event instead of raising its own."""
import itertools
import math

import numpy as np

from pvm.ref import interacting as ref
from pvm.gen import graphs as gg

META = dict(
    shards={"quick": 16, "thorough": 16},
    budget={"quick": 32, "thorough": 450},
    timeout={"quick": 600, "thorough": 3000},
    rule=("cases: a network (adjacency, node weights log-uniform 1e-2..1e2 / "
          "small integers / unit, one positive link attribute, with ties on "
          "every third network) x an ordered pair of disjoint non-empty node "
          "lists.  (1) exhaustive: every undirected network on 2..4 nodes, a "
          "seeded spread of the 5-node ones (all of them and a spread of "
          "6-node ones in the thorough tier), every directed network on 2..3 "
          "nodes and a spread on 4 (5 thorough) nodes, each with ALL ordered "
          "pairs of disjoint non-empty groups; (2) structured families and "
          "seeded random networks up to 20 nodes (G(n,p), connected, two "
          "components, isolated nodes) with random disjoint groups, incl. "
          "groups in different components.  Node lists are sorted on even "
          "and shuffled on odd cases, numpy arrays instead of lists on every "
          "third case.  Per case every cross_*/internal_*/nsi_* method of "
          "InteractingNetworks (internal ones for the first group) is "
          "compared with the docstring definition evaluated by loops on the "
          "sub-blocks in the given order (integers exact; floats rtol 1e-10, "
          "float64 on both sides; betweenness additionally atol 1e-12 x total "
          "weight of the targets, because the kernel adds each source's own "
          "weight to its dependency and subtracts it again), '_sparse' twins with the compiled "
          "variants, symmetric measures with the swapped call; per network "
          "the whole-node-set limits are compared with the single-network "
          "methods; CoupledClimateNetwork wrappers with the generic calls on "
          "nodes_1/nodes_2 (exact) and the definitions.  non-trivial = "
          "distinct (network, node list pair) with at least one cross link "
          "and one missing cross link (both outcomes of the block entries "
          "occur) on which the whole battery ran."),
    floors={"quick": {"pairs_exhaustive": 12000, "pairs_random": 800,
                      "pairs_unsorted": 4500, "pairs_array": 4000,
                      "pairs_disconnected": 3500, "pairs_directed": 2000,
                      "weighted_compared": 120000, "nsi_compared": 100000,
                      "betweenness_compared": 25000, "twin_compared": 35000,
                      "swap_compared": 50000, "whole_set_compared": 8000,
                      "ccn_wrappers_compared": 1500,
                      "internal_unsorted_compared": 25000,
                      "dense_compared": 30},
            "thorough": {"pairs_exhaustive": 150000, "pairs_random": 9000,
                         "pairs_unsorted": 70000, "pairs_array": 55000,
                         "pairs_disconnected": 35000,
                         "pairs_directed": 28000,
                         "weighted_compared": 1500000,
                         "nsi_compared": 1200000,
                         "betweenness_compared": 300000,
                         "twin_compared": 450000, "swap_compared": 650000,
                         "whole_set_compared": 90000,
                         "ccn_wrappers_compared": 12000,
                         "internal_unsorted_compared": 250000}},
    exhaustive_subspaces={
        "quick": ["all ordered pairs of disjoint non-empty node groups of "
                  "every undirected network on 2..4 nodes and of a seeded "
                  "spread of 5-node networks",
                  "the same for every directed network on 2..3 nodes and a "
                  "spread of 4-node ones"],
        "thorough": ["all ordered pairs of disjoint non-empty node groups of "
                     "every undirected network on 2..5 nodes and of a seeded "
                     "spread of 6-node networks",
                     "the same for every directed network on 2..3 nodes and "
                     "a spread of 4- and 5-node ones"]},
    assumptions=[
        "node lists are used in the order given (position a of a result "
        "belongs to node_list[a])",
        "conventions C1-C8 at the head of pvm/ref/interacting.py (unreachable "
        "targets in the closeness variants count with N-1, averages run over "
        "joined pairs, 0 for empty clustering denominators, n.s.i. = A+I / "
        "D+I, betweenness over ordered source-target pairs with inner nodes "
        "only) -- each reproduces the library's doctest values "
        "(ref.interacting.selftest, run at start-up)",
        "measures that are undefined on a case are not compared: averages "
        "without any joined pair, densities of one-node groups, "
        "nsi_cross_transitivity without a cross link (0/0; the library raises "
        "ZeroDivisionError there), global_efficiency with zero mean",
        "nsi_cross_average_path_length on groups with some unreachable cross "
        "pairs (docstring silent): any of 'leave them out', 'count them with "
        "N-1' or inf is accepted; with no joined cross pair it is not "
        "compared",
        "directed networks: only the methods whose docstrings cover them "
        "(adjacency / attribute / path-length blocks, in/out/total degrees "
        "and strengths, internal link numbers and densities, path-length "
        "averages and closeness); number_cross_links / cross_link_density "
        "document NetworkError there",
        "link attributes are positive; weighted path lengths compared to "
        "rtol 1e-10 (different summation order)",
    ],
    technique="runtime monitoring: definitional oracle on sub-blocks, "
              "twin / swap / whole-set / wrapper relations",
    level_text="every sampled (network, group pair) satisfied the sub-block "
               "definitions and relations to float64 accuracy; all group "
               "pairs of the small networks listed were enumerated",
    level_note="trusted: pvm/ref/interacting.py (loops over the docstring "
               "definitions, self-tested against every doctest value of the "
               "class and closed forms), Floyd-Warshall path lengths of "
               "pvm/ref/netmeasures.py",
)

META["rule"] += (
    " " + "Added after the second round of seeded changes: family 'large dense' (a group of 135/160/270 nodes at density >= 0.97): count-valued cross / internal measures and the '_sparse' twins against int64 definitions.")

META["rule"] += (
    " " + 'Added after the third round: every fifth graph has zero-length links; a third of the objects have a past (other node weights and link attribute first, group measures queried); CoupledClimateNetwork sub-block accessors of the similarity, layer networks, cross link distances.')

META["rule"] += (
    " " + 'Added after the fifth round: the whole-node-set limits also with all nodes listed in another order; internal_global_clustering on directed networks (mean over the group of local_clustering()) and against global_clustering() on the whole set.')

META["rule"] += (
    " " + 'Added after the sixth round: every evaluation compares the node lists handed over with what was meant (a measure reads them).')

META["rule"] += (
    " " + 'Added after the seventh round: compiled / sparse clustering twins on directed networks; blocks returned by the layer accessors are edited by the caller and asked again.')

META["rule"] += (
    " " + 'Added after the eighth round: sparse adjacency with explicitly stored zeros in a third of the cases.')

RT = 1e-10
LW = "lw"


# --------------------------------------------------------------------------
# comparison helpers
# --------------------------------------------------------------------------
def same(lib, want, exact=False, atol=0.0):
    try:
        a = np.asarray(lib, dtype=float)
    except (TypeError, ValueError):
        return False
    b = np.asarray(want, dtype=float)
    if a.shape != b.shape:
        return False
    if exact:
        return bool(np.array_equal(a, b))
    fin = np.isfinite(b)
    if not np.array_equal(fin, np.isfinite(a)):
        return False
    if not np.array_equal(a[~fin], b[~fin]):
        return False                      # inf / nan pattern must coincide
    return bool(np.all(np.abs(a[fin] - b[fin]) <=
                       RT * np.abs(b[fin]) + atol + 1e-300))


class Graph:
    """one network: library object + the reference's primary matrices."""

    def __init__(self, IN, A, directed, w, W):
        self.A = np.asarray(A).astype(np.int64)
        self.N = len(self.A)
        self.directed = bool(directed)
        self.w = np.asarray(w, dtype=float)
        self.W = np.asarray(W, dtype=float)
        self.D = ref.path_lengths(self.A)
        self.DW = ref.path_lengths(self.A, self.W)
        self.P = self.Pw = None
        if not directed:
            self.P = ref.weighted_path_counts(self.A, self.D)
            self.Pw = ref.weighted_path_counts(self.A, self.D, self.w)
        # A third of the objects have a past: other node weights and link
        # attribute first, group measures queried, then the final values.
        past = self.N >= 2 and (int(self.A.sum()) + self.N) % 3 == 0
        if past:
            import warnings
            self.net = IN(adjacency=self.A.astype(np.int8),
                          directed=directed,
                          node_weights=self.w[::-1] * 1.5 + 0.25,
                          silence_level=3)
            self.net.set_link_attribute(LW, self.W * 2.0 + 1.0)
            h = self.N // 2 or 1
            a, b = list(range(h)), list(range(h, self.N)) or [0]
            with warnings.catch_warnings():
                warnings.simplefilter("ignore")
                with np.errstate(all="ignore"):
                    for q, args in (("nsi_cross_degree", (a, b)),
                                    ("nsi_internal_degree", (a,)),
                                    ("nsi_cross_local_clustering", (a, b)),
                                    ("nsi_cross_mean_degree", (a, b)),
                                    ("cross_degree", (a, b, LW)),
                                    ("cross_average_path_length", (a, b, LW)),
                                    ("nsi_cross_closeness_centrality",
                                     (a, b))):
                        try:
                            getattr(self.net, q)(*args)
                        except Exception:  # noqa
                            pass
            self.net.node_weights = self.w.copy()
        else:
            Ain = self.A.astype(np.int8)
            if self.N >= 2 and (int(self.A.sum()) + self.N) % 3 == 1:
                # the adjacency as a scipy matrix with explicitly stored
                # zeros (links removed by assignment): they are not links
                import scipy.sparse as sp
                rr, cc = np.nonzero(~np.eye(self.N, dtype=bool))
                Ain = sp.csr_matrix((Ain[rr, cc], (rr, cc)),
                                    shape=(self.N, self.N))
                self.explicit_zeros = True
            self.net = IN(adjacency=Ain,
                          directed=directed, node_weights=self.w.copy(),
                          silence_level=3)
        self.past = past
        self.net.set_link_attribute(LW, self.W.copy())
        self.key = (self.N, self.directed, self.A.tobytes())
        # without links igraph has no edge attribute at all: the weighted
        # variants are outside the property there
        self.has_links = bool(self.A.any())

    def detail(self):
        return {"N": self.N, "directed": self.directed,
                "links": [[int(i), int(j)] for i, j in np.argwhere(self.A)
                          if self.directed or i < j],
                "node_weights": self.w}


# --------------------------------------------------------------------------
# measure table
#   name -> (arity, lib(net, a, b, la), ref(G, a, b, D), flags)
#   flags: x exact integer, d defined for directed, w has link_attribute
#          variant, p path based (input class 'disconnected' applies),
#          n uses node weights (n.s.i.), b betweenness
# --------------------------------------------------------------------------
def _la(la):
    return {} if la is None else {"link_attribute": la}


def table():
    T = {}

    def add(name, arity, lib, rf, flags=""):
        T[name] = (arity, lib, rf, flags)

    # ---- blocks
    add("cross_adjacency", 2, lambda n, a, b, la: n.cross_adjacency(a, b),
        lambda G, a, b, D: ref.cross_adjacency(G.A, a, b), "xd")
    add("cross_adjacency_sparse", 2,
        lambda n, a, b, la: n.cross_adjacency_sparse(a, b),
        lambda G, a, b, D: ref.cross_adjacency(G.A, a, b), "xd")
    add("cross_link_attribute", 2,
        lambda n, a, b, la: n.cross_link_attribute(LW, a, b),
        lambda G, a, b, D: ref.cross_link_attribute(G.A, G.W, a, b), "d")
    add("cross_path_lengths", 2,
        lambda n, a, b, la: n.cross_path_lengths(a, b, la),
        lambda G, a, b, D: ref.cross_path_lengths(D, a, b), "dwp")
    add("internal_adjacency", 1, lambda n, a, b, la: n.internal_adjacency(a),
        lambda G, a, b, D: ref.internal_adjacency(G.A, a), "xd")
    add("internal_link_attribute", 1,
        lambda n, a, b, la: n.internal_link_attribute(LW, a),
        lambda G, a, b, D: ref.internal_link_attribute(G.A, G.W, a), "d")
    add("internal_path_lengths", 1,
        lambda n, a, b, la: n.internal_path_lengths(a, la),
        lambda G, a, b, D: ref.internal_path_lengths(D, a), "dwp")
    # ---- counts / densities
    add("number_cross_links", 2,
        lambda n, a, b, la: n.number_cross_links(a, b),
        lambda G, a, b, D: ref.number_cross_links(G.A, a, b), "x")
    add("cross_link_density", 2,
        lambda n, a, b, la: n.cross_link_density(a, b),
        lambda G, a, b, D: ref.cross_link_density(G.A, a, b))
    add("number_internal_links", 1,
        lambda n, a, b, la: n.number_internal_links(a),
        lambda G, a, b, D: ref.number_internal_links(G.A, a, G.directed),
        "xd")
    add("internal_link_density", 1,
        lambda n, a, b, la: n.internal_link_density(a),
        lambda G, a, b, D: ref.internal_link_density(G.A, a, G.directed),
        "d")
    # ---- degrees / strengths
    add("cross_outdegree", 2,
        lambda n, a, b, la: n.cross_outdegree(a, b, **_la(la)),
        lambda G, a, b, D: ref.cross_outdegree(G.A, a, b, G.Wsel), "dw")
    add("cross_indegree", 2,
        lambda n, a, b, la: n.cross_indegree(a, b, **_la(la)),
        lambda G, a, b, D: ref.cross_indegree(G.A, a, b, G.Wsel), "dw")
    add("cross_degree", 2,
        lambda n, a, b, la: n.cross_degree(a, b, **_la(la)),
        lambda G, a, b, D: ref.cross_degree(G.A, a, b, G.directed, G.Wsel),
        "dw")
    add("total_cross_degree", 2,
        lambda n, a, b, la: n.total_cross_degree(a, b),
        lambda G, a, b, D: ref.total_cross_degree(G.A, a, b, G.directed),
        "d")
    add("cross_degree_density", 2,
        lambda n, a, b, la: n.cross_degree_density(a, b),
        lambda G, a, b, D: ref.cross_degree_density(G.A, a, b, G.directed),
        "d")
    add("internal_outdegree", 1,
        lambda n, a, b, la: n.internal_outdegree(a, **_la(la)),
        lambda G, a, b, D: ref.internal_outdegree(G.A, a, G.Wsel), "dw")
    add("internal_indegree", 1,
        lambda n, a, b, la: n.internal_indegree(a, **_la(la)),
        lambda G, a, b, D: ref.internal_indegree(G.A, a, G.Wsel), "dw")
    add("internal_degree", 1,
        lambda n, a, b, la: n.internal_degree(a, **_la(la)),
        lambda G, a, b, D: ref.internal_degree(G.A, a, G.directed, G.Wsel),
        "dw")
    # ---- clustering
    for sfx in ("", "_sparse"):
        add("cross_local_clustering" + sfx, 2,
            lambda n, a, b, la, s=sfx:
                getattr(n, "cross_local_clustering" + s)(a, b),
            lambda G, a, b, D: ref.cross_local_clustering(G.A, a, b))
        add("cross_global_clustering" + sfx, 2,
            lambda n, a, b, la, s=sfx:
                getattr(n, "cross_global_clustering" + s)(a, b),
            lambda G, a, b, D: ref.cross_global_clustering(G.A, a, b))
        add("cross_transitivity" + sfx, 2,
            lambda n, a, b, la, s=sfx:
                getattr(n, "cross_transitivity" + s)(a, b),
            lambda G, a, b, D: ref.cross_transitivity(G.A, a, b))
    # (on a directed network the local clustering is that of the network
    #  with reciprocated links collapsed - Network.local_clustering)
    add("internal_global_clustering", 1,
        lambda n, a, b, la: n.internal_global_clustering(a),
        lambda G, a, b, D: ref.internal_global_clustering(
            ((G.A + G.A.T) > 0).astype(G.A.dtype), a), "d")
    # ---- path based
    add("cross_average_path_length", 2,
        lambda n, a, b, la: n.cross_average_path_length(a, b, la),
        lambda G, a, b, D: ref.cross_average_path_length(D, a, b), "dwp")
    add("internal_average_path_length", 1,
        lambda n, a, b, la: n.internal_average_path_length(a, la),
        lambda G, a, b, D: ref.internal_average_path_length(D, a), "dwp")
    add("cross_closeness", 2,
        lambda n, a, b, la: n.cross_closeness(a, b, la),
        lambda G, a, b, D: ref.cross_closeness(D, a, b, G.N), "dwp")
    add("internal_closeness", 1,
        lambda n, a, b, la: n.internal_closeness(a, la),
        lambda G, a, b, D: ref.internal_closeness(D, a), "dwp")
    add("average_cross_closeness", 2,
        lambda n, a, b, la: n.average_cross_closeness(a, b, la),
        lambda G, a, b, D: ref.average_cross_closeness(D, a, b, G.N), "dwp")
    add("local_efficiency", 2,
        lambda n, a, b, la: n.local_efficiency(a, b, la),
        lambda G, a, b, D: ref.local_efficiency(D, a, b), "dwp")
    add("global_efficiency", 2,
        lambda n, a, b, la: n.global_efficiency(a, b, la),
        lambda G, a, b, D: ref.global_efficiency(D, a, b), "dwp")
    # ---- betweenness
    add("cross_betweenness", 2,
        lambda n, a, b, la: n.cross_betweenness(a, b),
        lambda G, a, b, D: ref.interregional_betweenness(G.A, G.D, G.P, a, b),
        "b")
    add("internal_betweenness", 1,
        lambda n, a, b, la: n.internal_betweenness(a),
        lambda G, a, b, D: ref.interregional_betweenness(G.A, G.D, G.P, a, a),
        "b")
    add("nsi_cross_betweenness", 2,
        lambda n, a, b, la: n.nsi_cross_betweenness(a, b),
        lambda G, a, b, D: ref.interregional_betweenness(
            G.A, G.D, G.Pw, a, b, G.w), "bn")
    # ---- n.s.i.
    add("nsi_cross_degree", 2, lambda n, a, b, la: n.nsi_cross_degree(a, b),
        lambda G, a, b, D: ref.nsi_cross_degree(G.A, G.w, a, b), "n")
    add("nsi_cross_mean_degree", 2,
        lambda n, a, b, la: n.nsi_cross_mean_degree(a, b),
        lambda G, a, b, D: ref.nsi_cross_mean_degree(G.A, G.w, a, b), "n")
    add("nsi_cross_edge_density", 2,
        lambda n, a, b, la: n.nsi_cross_edge_density(a, b),
        lambda G, a, b, D: ref.nsi_cross_edge_density(G.A, G.w, a, b), "n")
    add("nsi_internal_degree", 1,
        lambda n, a, b, la: n.nsi_internal_degree(a),
        lambda G, a, b, D: ref.nsi_internal_degree(G.A, G.w, a), "n")
    add("nsi_cross_local_clustering", 2,
        lambda n, a, b, la: n.nsi_cross_local_clustering(a, b),
        lambda G, a, b, D: ref.nsi_cross_local_clustering(G.A, G.w, a, b),
        "n")
    add("nsi_internal_local_clustering", 1,
        lambda n, a, b, la: n.nsi_internal_local_clustering(a),
        lambda G, a, b, D: ref.nsi_internal_local_clustering(G.A, G.w, a),
        "n")
    add("nsi_cross_global_clustering", 2,
        lambda n, a, b, la: n.nsi_cross_global_clustering(a, b),
        lambda G, a, b, D: ref.nsi_cross_global_clustering(G.A, G.w, a, b),
        "n")
    add("nsi_cross_transitivity", 2,
        lambda n, a, b, la: n.nsi_cross_transitivity(a, b),
        lambda G, a, b, D: ref.nsi_cross_transitivity(G.A, G.w, a, b), "n")
    add("nsi_cross_closeness_centrality", 2,
        lambda n, a, b, la: n.nsi_cross_closeness_centrality(a, b),
        lambda G, a, b, D: ref.nsi_cross_closeness_centrality(
            G.D, G.w, a, b), "np")
    add("nsi_internal_closeness_centrality", 1,
        lambda n, a, b, la: n.nsi_internal_closeness_centrality(a),
        lambda G, a, b, D: ref.nsi_internal_closeness_centrality(
            G.D, G.w, a), "np")
    return T


TABLE = table()

BASE = {
    "number_cross_links": ("cross_adjacency",),
    "cross_link_density": ("number_cross_links",),
    "cross_outdegree": ("cross_adjacency",),
    "cross_indegree": ("cross_adjacency",),
    "cross_degree": ("cross_outdegree", "cross_indegree"),
    "total_cross_degree": ("cross_degree",),
    "cross_degree_density": ("cross_degree",),
    "cross_local_clustering": ("cross_degree",),
    "cross_local_clustering_sparse": ("cross_degree",),
    "cross_transitivity_sparse": ("cross_degree",),
    "cross_global_clustering": ("cross_local_clustering",),
    "cross_global_clustering_sparse": ("cross_local_clustering_sparse",),
    "cross_average_path_length": ("cross_path_lengths",),
    "cross_closeness": ("cross_path_lengths",),
    "average_cross_closeness": ("cross_closeness",),
    "local_efficiency": ("cross_path_lengths",),
    "global_efficiency": ("local_efficiency",),
    "number_internal_links": ("internal_adjacency",),
    "internal_link_density": ("number_internal_links",),
    "internal_outdegree": ("internal_adjacency",),
    "internal_indegree": ("internal_adjacency",),
    "internal_degree": ("internal_outdegree", "internal_indegree"),
    "subnetwork": ("internal_adjacency",),
    "internal_average_path_length": ("internal_path_lengths",),
    "internal_closeness": ("internal_path_lengths",),
    "nsi_cross_mean_degree": ("nsi_cross_degree",),
    "nsi_cross_edge_density": ("nsi_cross_mean_degree",),
    "nsi_cross_global_clustering": ("nsi_cross_local_clustering",),
}
BASE_W = {      # link_attribute variants
    "cross_outdegree": ("cross_link_attribute",),
    "cross_indegree": ("cross_link_attribute",),
    "internal_outdegree": ("internal_link_attribute",),
    "internal_indegree": ("internal_link_attribute",),
}
TWINS = [("cross_adjacency", "cross_adjacency_sparse"),
         ("cross_local_clustering", "cross_local_clustering_sparse"),
         ("cross_global_clustering", "cross_global_clustering_sparse"),
         ("cross_transitivity", "cross_transitivity_sparse")]
SYMMETRIC = ["number_cross_links", "cross_link_density",
             "cross_average_path_length", "nsi_cross_edge_density"]


def bases(key):
    name, _, var = key.partition("[")
    if var:
        if name in BASE_W:
            return BASE_W[name]
        return tuple(b + "[" + var for b in BASE.get(name, ()))
    return BASE.get(name, ())


# --------------------------------------------------------------------------
# one case
# --------------------------------------------------------------------------
class Case:
    def __init__(self, ctx, G, a, b, as_array, cid):
        self.ctx, self.G, self.cid = ctx, G, cid
        self.a, self.b = [int(x) for x in a], [int(x) for x in b]
        self.as_array = as_array
        self.fail = {}          # key -> (sig-without-method, detail)
        self.lib = {}           # key -> library value (when the call returned)
        self.ok = {}            # key -> bool

    # -- argument forms
    def args(self, a, b, as_array):
        if as_array:
            # index arrays of the integer types a caller may hold them in
            # (the node numbers fit; products with N need not)
            dts = ["int64", "int32", "int16", "uint16", "int8", "uint8"]
            dt = dts[(len(a) + int(sum(a))) % len(dts)]
            self.ctx.count("node_array_dtype:" + dt)
            return np.array(a, dtype=dt), (None if b is None
                                          else np.array(b, dtype=dt))
        return list(a), (None if b is None else list(b))

    def evaluate(self, name, a, b, la, as_array):
        """-> (status, lib value | exception, reference value);
        status: ok | ne-definition | raises:<Exc> | undefined"""
        arity, lib, rf, flags = TABLE[name]
        G = self.G
        G.Wsel = None if la is None else G.W
        D = G.D if la is None else G.DW
        want = rf(G, a, b, D)
        if want is None:
            return "undefined", None, None
        aa, bb = self.args(a, b if arity == 2 else None, as_array)
        okc, val = self.ctx.call(lib, G.net, aa, bb, la)
        self.ctx.evals()
        # the node lists are the caller's: a measure reads them
        if list(aa) != list(a) or (bb is not None and list(bb) != list(b)):
            return "edits-the-caller's-node-list", val, want
        if not okc:
            return "raises:" + type(val).__name__, val, want
        atol = 0.0
        if "b" in flags:
            # the kernel accumulates (own weight + dependencies) per source
            # node and subtracts the own weight afterwards: absolute error
            # ~ eps * (total weight of the targets) after the division by w_v
            tg = b if arity == 2 else a
            atol = 1e-12 * (math.fsum(G.w[t] for t in tg) if "n" in flags
                            else len(tg))
        if same(val, want, exact="x" in flags, atol=atol):
            return "ok", val, want
        return "ne-definition", val, want

    def input_class(self, name, la, a, b, flags):
        tags = []
        if self.G.directed:
            tags.append("directed")
        if la is not None and self.ok.get(name, True):
            tags.append("weighted")
        if "p" in flags:
            D = self.G.D if la is None else self.G.DW
            bb = b if TABLE[name][0] == 2 else a
            if not ref.cross_pairs_connected(D, a, bb):
                tags.append("disconnected")
        return "+".join(tags)

    def check(self, name, la=None):
        arity, lib, rf, flags = TABLE[name]
        ctx, a, b = self.ctx, self.a, self.b
        key = name if la is None else f"{name}[{la}]"
        st, val, want = self.evaluate(name, a, b, la, self.as_array)
        if st == "undefined":
            ctx.count("undefined_skipped")
            return
        ctx.count("compared")
        if la is not None:
            ctx.count("weighted_compared")
        if "n" in flags:
            ctx.count("nsi_compared")
        if "b" in flags:
            ctx.count("betweenness_compared")
        if arity == 1 and a != sorted(a):
            ctx.count("internal_unsorted_compared")
        self.ok[key] = st == "ok"
        if st == "ok" or not st.startswith("raises"):
            self.lib[key] = val
        if st == "ok":
            return
        # ---- classify the failure
        tag = None
        if self.as_array:
            st2, val2, _ = self.evaluate(name, a, b, la, False)
            if st2 == "ok":
                if st.startswith("raises"):
                    ctx.count("array_rejected")      # arrays not accepted
                    self.ok[key] = True
                    return
                tag = "array-nodes"
            elif st.startswith("raises") and st2 != st:
                # arrays rejected AND the list form breaks the definition:
                # the list form is the event
                st, val = st2, val2
                if not st.startswith("raises"):
                    self.lib[key] = val
        bb = b if arity == 2 else []
        if tag is None and (a != sorted(a) or bb != sorted(bb)):
            st3, _, _ = self.evaluate(name, sorted(a), sorted(b), la, False)
            if st3 == "ok":
                tag = "unsorted-nodes"
        if tag is None:
            tag = self.input_class(name, la, a, b, flags)
        sig = st + (":" + tag if tag else "")
        self.fail[key] = (sig, {
            "lib": repr(val) if st.startswith("raises") else val,
            "ref": want, "link_attribute": la})

    def relation(self, key, sig, detail):
        self.fail.setdefault(key, (sig, detail))

    def flush(self):
        if not self.fail:
            return
        roots = {}
        for key in self.fail:
            r, seen = key, set()
            while True:
                nxt = [x for x in bases(r) if x in self.fail and x not in seen]
                if not nxt:
                    break
                seen.add(r)
                r = nxt[0]
            roots.setdefault(r, []).append(key)
        for r, keys in roots.items():
            sig, det = self.fail[r]
            method = r.partition("[")[0]
            self.ctx.violation(
                f"{method}:{sig}",
                {**self.G.detail(), "node_list1": self.a,
                 "node_list2": self.b, "given_as":
                     "numpy arrays" if self.as_array else "lists",
                 **det, "consequences": sorted(k for k in keys if k != r)},
                self.cid)


def battery(ctx, G, a, b, as_array, cid, internal=True, heavy=True):
    c = Case(ctx, G, a, b, as_array, cid)
    und = not G.directed
    # the measures are evaluated on the graph's one library object in a
    # different order for every group pair: each has to equal its definition
    # whatever was computed (and cached) on that object before
    items = list(TABLE.items())
    ro = ctx.rng("order", cid, len(c.a), len(c.b), int(sum(c.a)))
    items = [items[i] for i in ro.permutation(len(items))]
    for name, (arity, lib, rf, flags) in items:
        if arity == 1 and not internal:
            continue
        if G.directed and "d" not in flags:
            continue
        if name.endswith("link_attribute") and not G.has_links:
            continue
        if "b" in flags and not heavy:
            continue
        c.check(name)
        if "w" in flags and G.has_links and not (
                "p" in flags and getattr(G, "signed", False)):
            c.check(name, LW)
    # ---- subnetwork(): adjacency block and node weights in the given order
    if internal and len(c.a) > 1:     # Network() itself needs >= 2 nodes
        aa, _ = c.args(c.a, None, as_array)
        okc, sub = ctx.call(G.net.subnetwork, aa)
        ctx.evals()
        if okc:
            good = same(sub.adjacency, ref.internal_adjacency(G.A, c.a), True) \
                and same(sub.node_weights, [G.w[i] for i in c.a]) \
                and sub.directed == G.directed
            if not good:
                tag = ""
                if c.a != sorted(c.a):
                    s2 = G.net.subnetwork(sorted(c.a))
                    if same(s2.adjacency,
                            ref.internal_adjacency(G.A, sorted(c.a)), True) \
                            and same(s2.node_weights,
                                     [G.w[i] for i in sorted(c.a)]):
                        tag = ":unsorted-nodes"
                c.relation("subnetwork", "ne-definition" + tag,
                           {"lib_adjacency": sub.adjacency,
                            "lib_node_weights": sub.node_weights})
        elif not as_array:
            c.relation("subnetwork", "raises:" + type(sub).__name__,
                       {"lib": repr(sub)})
        ctx.count("compared")
    # ---- documented NetworkError on directed networks
    if G.directed:
        for name in ("number_cross_links", "cross_link_density"):
            okc, val = ctx.call(getattr(G.net, name), c.a, c.b)
            if okc or type(val).__name__ != "NetworkError":
                c.relation(name, "accepts-directed" if okc else
                           "raises:" + type(val).__name__ + ":directed",
                           {"lib": repr(val)})
    # ---- n.s.i. cross average path length (C6)
    if und:
        nsi_apl(ctx, c)
    # ---- twins
    for m1, m2 in TWINS:
        if m1 in c.lib and m2 in c.lib:
            ctx.count("twin_compared")
            if not same(c.lib[m2], c.lib[m1]) and c.ok[m1] and c.ok[m2]:
                c.relation(m2, "ne-sparse-twin",
                           {"compiled": c.lib[m1], "sparse": c.lib[m2]})
    # ---- twins on directed networks (the clustering measures carry no
    # reference of their own there; the compiled and the sparse variant are
    # two implementations of one measure)
    if not und:
        for m1, m2 in TWINS:
            if m1 == "cross_transitivity":
                # (the two variants count triangles of a directed network
                #  differently and neither documents a directed convention:
                #  an observation in DESIGN 13, not judged here)
                continue
            a2, b2 = c.args(c.a, c.b, as_array)
            ok1, v1 = ctx.call(TABLE[m1][1], G.net, a2, b2, None)
            a3, b3 = c.args(c.a, c.b, False)
            ok2, v2 = ctx.call(TABLE[m2][1], G.net, a3, b3, None)
            ctx.evals(2)
            if ok1 and ok2:
                ctx.count("twin_compared")
                ctx.count("twin_compared_directed")
                if not same(v2, v1):
                    c.relation(m2, "ne-sparse-twin:directed",
                               {"compiled": v1, "sparse": v2})
    # ---- swap
    if und:
        for name in SYMMETRIC:
            for la in ((None, LW) if "w" in TABLE[name][3] else (None,)):
                key = name if la is None else f"{name}[{la}]"
                if key not in c.lib or (la and not G.has_links):
                    continue
                a2, b2 = c.args(c.b, c.a, as_array)
                okc, v2 = ctx.call(TABLE[name][1], G.net, a2, b2, la)
                ctx.evals()
                ctx.count("swap_compared")
                if okc and same(v2, c.lib[key]):
                    continue
                if not c.ok[key]:
                    continue            # explained by the definitional event
                st, _, _ = c.evaluate(name, c.b, c.a, la, as_array)
                if st != "ok":
                    # the swapped call breaks its own definition: that is
                    # the event of the case (b, a), recorded here as well
                    c.fail.setdefault(key, (st + ":swapped-order", {
                        "lib_swapped": repr(v2)}))
                else:
                    c.relation(key, "asymmetric-under-swap",
                               {"lib": c.lib[key], "lib_swapped": repr(v2)})
    c.flush()
    blk = ref.cross_adjacency(G.A, c.a, c.b)
    if blk.any() and not blk.all():
        ctx.nontrivial((G.key, tuple(c.a), tuple(c.b)))
    return c


def nsi_apl(ctx, c):
    G, a, b = c.G, c.a, c.b
    name = "nsi_cross_average_path_length"
    aa, bb = c.args(a, b, c.as_array)
    okc, val = ctx.call(G.net.nsi_cross_average_path_length, aa, bb)
    ctx.evals()
    ctx.count("compared")
    ctx.count("nsi_compared")
    connected = ref.cross_pairs_connected(G.D, a, b)
    if not okc:
        c.relation(name, "raises:" + type(val).__name__ +
                   ("" if connected else ":disconnected"),
                   {"lib": repr(val)})
        return
    if connected:
        want = ref.nsi_cross_average_path_length(G.D, G.w, a, b)
        if not same(val, want):
            alt = ref.nsi_cross_average_path_length(G.D, G.w, a, b, "W1W1")
            tag = ":first-group-weight-squared" if same(val, alt) else ""
            c.relation(name, "ne-definition" + tag,
                       {"lib": val, "ref": want,
                        "ref_with_W1_squared": alt})
            return
        # swap relation only where the definition holds
        a2, b2 = c.args(b, a, c.as_array)
        okc, v2 = ctx.call(G.net.nsi_cross_average_path_length, a2, b2)
        ctx.evals()
        ctx.count("swap_compared")
        if not okc or not same(v2, val):
            alt = ref.nsi_cross_average_path_length(G.D, G.w, b, a, "W1W1")
            if okc and same(v2, alt):
                c.relation(name, "ne-definition:first-group-weight-squared",
                           {"lib": v2, "node_lists": "swapped",
                            "ref": want, "ref_with_W1_squared": alt})
            else:
                c.relation(name, "asymmetric-under-swap",
                           {"lib": val, "lib_swapped": repr(v2)})
    else:
        ctx.count("nsi_apl_disconnected")
        ex, cnt = ref.nsi_cross_average_path_length_disconnected(
            G.D, G.w, a, b)
        if ex is None:
            # no cross pair joined at all: undefined under 'leave out'
            # (like cross_average_path_length) -> not compared
            ctx.count("undefined_skipped")
            return
        accept = [cnt, float("inf"), ex]
        if not any(same(val, x) for x in accept):
            c.relation(name, "ne-definition:disconnected",
                       {"lib": val, "accepted": {
                           "leave-out": ex, "count-as-N-1": cnt,
                           "inf": "inf"}})


# --------------------------------------------------------------------------
# whole-node-set limits
# --------------------------------------------------------------------------
def whole_set(ctx, G, cid):
    N = G.N
    _whole_set(ctx, G, cid, list(range(N)))
    if N > 1:
        # all nodes, listed in another order: per-node and per-pair results
        # follow the list
        rp = ctx.rng("wholeperm", cid)
        pl = [int(v) for v in rp.permutation(N)]
        if pl == list(range(N)):
            pl = pl[::-1]
        ctx.count("whole_set_in_other_order")
        _whole_set(ctx, G, cid, pl)


def _whole_set(ctx, G, cid, al):
    net, N = G.net, G.N
    und = not G.directed
    conn = bool(np.all(np.isfinite(G.D)))
    joined = bool(np.isfinite(G.D[~np.eye(N, dtype=bool)]).any()) if N > 1 \
        else False
    R = []          # (method, interacting call, single-network call)

    def add(m, f, g, weighted=False):
        if not weighted or G.has_links:
            R.append((m, f, g))

    add("internal_adjacency", lambda: net.internal_adjacency(al),
        lambda: net.adjacency)
    add("internal_path_lengths", lambda: net.internal_path_lengths(al),
        lambda: net.path_lengths())
    add("internal_path_lengths", lambda: net.internal_path_lengths(al, LW),
        lambda: net.path_lengths(LW), True)
    add("internal_degree", lambda: net.internal_degree(al),
        lambda: net.degree())
    add("internal_indegree", lambda: net.internal_indegree(al),
        lambda: net.indegree())
    add("internal_outdegree", lambda: net.internal_outdegree(al),
        lambda: net.outdegree())
    add("internal_degree", lambda: net.internal_degree(al, LW),
        lambda: net.degree(LW), True)
    add("number_internal_links", lambda: net.number_internal_links(al),
        lambda: net.n_links)
    add("internal_global_clustering",
        lambda: net.internal_global_clustering(al),
        lambda: net.global_clustering())
    if N > 1:
        add("internal_link_density", lambda: net.internal_link_density(al),
            lambda: net.link_density)
    if joined:
        add("internal_average_path_length",
            lambda: net.internal_average_path_length(al),
            lambda: net.average_path_length())
        add("internal_average_path_length",
            lambda: net.internal_average_path_length(al, LW),
            lambda: net.average_path_length(LW), True)
    if und:
        add("cross_degree", lambda: net.cross_degree(al, al),
            lambda: net.degree())
        add("cross_local_clustering",
            lambda: net.cross_local_clustering(al, al),
            lambda: net.local_clustering())
        add("cross_global_clustering",
            lambda: net.cross_global_clustering(al, al),
            lambda: net.global_clustering())
        if ref.cross_transitivity(G.A, al, al) > 0 or any(
                G.A[i].sum() > 1 for i in al):
            add("cross_transitivity", lambda: net.cross_transitivity(al, al),
                lambda: net.transitivity())
        add("internal_betweenness", lambda: net.internal_betweenness(al),
            lambda: 2 * net.betweenness())
        add("cross_betweenness", lambda: net.cross_betweenness(al, al),
            lambda: 2 * net.betweenness())
        add("nsi_cross_betweenness",
            lambda: net.nsi_cross_betweenness(al, al),
            lambda: net.nsi_betweenness())
        add("nsi_internal_degree", lambda: net.nsi_internal_degree(al),
            lambda: net.nsi_degree())
        add("nsi_internal_local_clustering",
            lambda: net.nsi_internal_local_clustering(al),
            lambda: net.nsi_local_clustering())
        add("nsi_cross_global_clustering",
            lambda: net.nsi_cross_global_clustering(al, al),
            lambda: net.nsi_global_clustering())
        add("nsi_cross_transitivity",
            lambda: net.nsi_cross_transitivity(al, al),
            lambda: net.nsi_transitivity())
        if conn and N > 1:
            add("internal_closeness", lambda: net.internal_closeness(al),
                lambda: net.closeness())
            add("internal_closeness", lambda: net.internal_closeness(al, LW),
                lambda: net.closeness(LW), True)
            add("nsi_internal_closeness_centrality",
                lambda: net.nsi_internal_closeness_centrality(al),
                lambda: net.nsi_closeness())
            add("nsi_cross_average_path_length",
                lambda: net.nsi_cross_average_path_length(al, al),
                lambda: net.nsi_average_path_length())
    for m, f, g in R:
        ok1, v1 = ctx.call(f)
        ok2, v2 = ctx.call(g)
        ctx.evals(2)
        if not ok2:
            ctx.count("rejected")
            continue
        ctx.count("whole_set_compared")
        if ok1 and al != list(range(N)):
            # the single-network result in the order of the list; node
            # betweenness-type results are indexed by node, not by list
            v2 = np.asarray(v2)
            if v2.ndim == 2 and v2.shape == (N, N):
                v2 = v2[np.ix_(al, al)]
            elif v2.ndim == 1 and v2.shape == (N,) and \
                    "betweenness" not in m:
                v2 = v2[al]
        if not ok1:
            ctx.violation(f"{m}:raises:{type(v1).__name__}:whole-node-set",
                          {**G.detail(), "exc": repr(v1)}, cid)
        elif not same(v1, v2):
            ctx.violation(f"{m}:ne-single-network" +
                          (":directed" if G.directed else ""),
                          {**G.detail(), "interacting": v1,
                           "single_network": v2}, cid)


# --------------------------------------------------------------------------
# CoupledClimateNetwork wrappers
# --------------------------------------------------------------------------
def ccn_case(ctx, k):
    from pyunicorn.climate.coupled_climate_network import \
        CoupledClimateNetwork as CCN
    from pyunicorn.core.interacting_networks import InteractingNetworks as IN
    from pyunicorn.core import GeoGrid
    r = ctx.rng("ccn", k)
    n1, n2 = int(r.integers(1, 8)), int(r.integers(1, 8))
    n = n1 + n2
    A = gg.gnp(r, n, float(r.choice([0.2, 0.4, 0.6, 0.9])))
    if not A.any():
        A[0, n - 1] = A[n - 1, 0] = 1        # link attribute needs a link
    cid = f"ccn:{k}"
    t = np.arange(4.0)
    g1 = GeoGrid(t, r.uniform(-80, 80, n1), r.uniform(-180, 180, n1),
                 silence_level=3)
    g2 = GeoGrid(t, r.uniform(-80, 80, n2), r.uniform(-180, 180, n2),
                 silence_level=3)
    okc, net = ctx.call(CCN, g1, g2, A.astype(float), threshold=0.5,
                        node_weight_type=None, silence_level=3)
    ctx.evals()
    det = {"N_1": n1, "N_2": n2,
           "links": [[int(i), int(j)] for i, j in np.argwhere(A) if i < j]}
    if not okc:
        ctx.violation(f"CoupledClimateNetwork.__init__:raises:"
                      f"{type(net).__name__}", {**det, "exc": repr(net)}, cid)
        return
    s1, s2 = list(range(n1)), list(range(n1, n))
    if net.nodes_1 != s1 or net.nodes_2 != s2 or \
            not np.array_equal(net.adjacency, A):
        ctx.violation("CoupledClimateNetwork.__init__:ne-definition",
                      {**det, "nodes_1": net.nodes_1, "nodes_2": net.nodes_2,
                       "adjacency": net.adjacency}, cid)
        return
    W = gg.link_attr(r, A)
    net.set_link_attribute(LW, W)
    D = ref.path_lengths(A)
    DW = ref.path_lengths(A, W)
    P = ref.weighted_path_counts(A, D)
    g = IN                     # generic (unbound) calls

    def both(f):
        return lambda: (f(s1, s2), f(s2, s1))

    def each(f):
        return lambda: (f(s1), f(s2))
    cb = ref.interregional_betweenness(A, D, P, s1, s2)
    ib1 = ref.interregional_betweenness(A, D, P, s1, s1)
    ib2 = ref.interregional_betweenness(A, D, P, s2, s2)
    rows = [
        ("adjacency_1", net.adjacency_1,
         lambda: g.internal_adjacency(net, s1),
         ref.internal_adjacency(A, s1)),
        ("adjacency_2", net.adjacency_2,
         lambda: g.internal_adjacency(net, s2),
         ref.internal_adjacency(A, s2)),
        ("cross_layer_adjacency", net.cross_layer_adjacency,
         lambda: g.cross_adjacency(net, s1, s2),
         ref.cross_adjacency(A, s1, s2)),
        ("path_lengths_1", net.path_lengths_1,
         lambda: g.internal_path_lengths(net, s1),
         ref.internal_path_lengths(D, s1)),
        ("path_lengths_2", lambda: net.path_lengths_2(LW),
         lambda: g.internal_path_lengths(net, s2, LW),
         ref.internal_path_lengths(DW, s2)),
        ("cross_path_lengths", net.cross_path_lengths,
         lambda: g.cross_path_lengths(net, s1, s2),
         ref.cross_path_lengths(D, s1, s2)),
        ("cross_path_lengths", lambda: net.cross_path_lengths(LW),
         lambda: g.cross_path_lengths(net, s1, s2, LW),
         ref.cross_path_lengths(DW, s1, s2)),
        ("number_cross_layer_links", net.number_cross_layer_links,
         lambda: g.number_cross_links(net, s1, s2),
         ref.number_cross_links(A, s1, s2)),
        ("number_internal_links", net.number_internal_links,
         each(lambda s: g.number_internal_links(net, s)),
         (ref.number_internal_links(A, s1, False),
          ref.number_internal_links(A, s2, False))),
        ("cross_link_density", net.cross_link_density,
         lambda: g.cross_link_density(net, s1, s2),
         ref.cross_link_density(A, s1, s2)),
        ("cross_global_clustering", net.cross_global_clustering,
         both(lambda x, y: g.cross_global_clustering(net, x, y)),
         (ref.cross_global_clustering(A, s1, s2),
          ref.cross_global_clustering(A, s2, s1))),
        ("cross_transitivity", net.cross_transitivity,
         both(lambda x, y: g.cross_transitivity(net, x, y)),
         (ref.cross_transitivity(A, s1, s2),
          ref.cross_transitivity(A, s2, s1))),
        ("internal_global_clustering", net.internal_global_clustering,
         each(lambda s: g.internal_global_clustering(net, s)),
         (ref.internal_global_clustering(A, s1),
          ref.internal_global_clustering(A, s2))),
        ("cross_degree", net.cross_degree,
         both(lambda x, y: g.cross_degree(net, x, y)),
         (ref.cross_degree(A, s1, s2, False),
          ref.cross_degree(A, s2, s1, False))),
        ("internal_degree", net.internal_degree,
         each(lambda s: g.internal_degree(net, s)),
         (ref.internal_degree(A, s1, False),
          ref.internal_degree(A, s2, False))),
        ("cross_local_clustering", net.cross_local_clustering,
         both(lambda x, y: g.cross_local_clustering(net, x, y)),
         (ref.cross_local_clustering(A, s1, s2),
          ref.cross_local_clustering(A, s2, s1))),
        ("cross_closeness", net.cross_closeness,
         both(lambda x, y: g.cross_closeness(net, x, y)),
         (ref.cross_closeness(D, s1, s2, n),
          ref.cross_closeness(D, s2, s1, n))),
        ("cross_closeness", lambda: net.cross_closeness(LW),
         both(lambda x, y: g.cross_closeness(net, x, y, LW)),
         (ref.cross_closeness(DW, s1, s2, n),
          ref.cross_closeness(DW, s2, s1, n))),
        ("internal_closeness", net.internal_closeness,
         each(lambda s: g.internal_closeness(net, s)),
         (ref.internal_closeness(D, s1), ref.internal_closeness(D, s2))),
        ("cross_betweenness", net.cross_betweenness,
         lambda: (lambda v: (v[s1], v[s2]))(
             g.cross_betweenness(net, s1, s2)),
         (cb[s1], cb[s2])),
        ("internal_betweenness_1", net.internal_betweenness_1,
         lambda: (lambda v: (v[s1], v[s2]))(g.internal_betweenness(net, s1)),
         (ib1[s1], ib1[s2])),
        ("internal_betweenness_2", net.internal_betweenness_2,
         lambda: (lambda v: (v[s1], v[s2]))(g.internal_betweenness(net, s2)),
         (ib2[s1], ib2[s2])),
    ]
    # sub-block accessors of the stored similarity, the layer networks and
    # the geographic cross distances (the distance matrix itself is the
    # grid's; here: the right block of it)
    S32 = np.float32(np.abs(A.astype(float)))
    Dg = np.asarray(net.grid.angular_distance(), dtype=float)
    cadj = A[np.ix_(s1, s2)].astype(float)
    with np.errstate(all="ignore"):
        cald = (cadj * Dg[np.ix_(s1, s2)]).sum(axis=1) / cadj.sum(axis=1)
        cald_r = (cadj * Dg[np.ix_(s1, s2)]).sum(axis=0) / cadj.sum(axis=0)
    rows += [
        ("similarity_measure_1", net.similarity_measure_1,
         lambda: net.similarity_measure()[np.ix_(s1, s1)],
         S32[np.ix_(s1, s1)]),
        ("similarity_measure_2", net.similarity_measure_2,
         lambda: net.similarity_measure()[np.ix_(s2, s2)],
         S32[np.ix_(s2, s2)]),
        ("cross_similarity_measure", net.cross_similarity_measure,
         lambda: net.similarity_measure()[np.ix_(s1, s2)],
         S32[np.ix_(s1, s2)]),
        ("cross_link_distance", net.cross_link_distance,
         lambda: net.distance()[np.ix_(s1, s2)], Dg[np.ix_(s1, s2)]),
        ("cross_average_link_distance", net.cross_average_link_distance,
         lambda: net.cross_average_link_distance(reverse=False), cald),
        ("cross_average_link_distance(reverse)",
         lambda: net.cross_average_link_distance(reverse=True),
         lambda: net.cross_average_link_distance(True), cald_r),
        ("network_1", lambda: np.asarray(net.network_1().adjacency),
         lambda: g.internal_adjacency(net, s1),
         ref.internal_adjacency(A, s1)),
        ("network_2", lambda: np.asarray(net.network_2().adjacency),
         lambda: g.internal_adjacency(net, s2),
         ref.internal_adjacency(A, s2)),
        ("network_1.grid",
         lambda: np.asarray(net.network_1().grid.lat_sequence()),
         lambda: np.asarray(net.grid_1.lat_sequence()),
         np.asarray(g1.lat_sequence())),
        ("network_2.grid",
         lambda: np.asarray(net.network_2().grid.lon_sequence()),
         lambda: np.asarray(net.grid_2.lon_sequence()),
         np.asarray(g2.lon_sequence())),
    ]
    if n1 > 1 and n2 > 1:
        rows.append(("internal_link_density", net.internal_link_density,
                     each(lambda s: g.internal_link_density(net, s)),
                     (ref.internal_link_density(A, s1, False),
                      ref.internal_link_density(A, s2, False))))
        i1 = ref.internal_average_path_length(D, s1)
        i2 = ref.internal_average_path_length(D, s2)
        if i1 is not None and i2 is not None:
            rows.append(("internal_average_path_length",
                         net.internal_average_path_length,
                         each(lambda s: g.internal_average_path_length(
                             net, s)), (i1, i2)))
    x = ref.cross_average_path_length(D, s1, s2)
    if x is not None:
        rows.append(("cross_average_path_length",
                     net.cross_average_path_length,
                     lambda: g.cross_average_path_length(net, s1, s2), x))
        rows.append(("cross_average_path_length",
                     lambda: net.cross_average_path_length(LW),
                     lambda: g.cross_average_path_length(net, s1, s2, LW),
                     ref.cross_average_path_length(DW, s1, s2)))

    def eq(u, v):
        if isinstance(v, tuple):
            return isinstance(u, tuple) and len(u) == len(v) and \
                all(same(p, q) for p, q in zip(u, v))
        return same(u, v)
    eq_exact = eq

    def eq_f32(u, v):
        # float32 distances / their sums; 0/0 = nan for nodes without cross
        # links on both sides
        u, v = np.asarray(u, float), np.asarray(v, float)
        return u.shape == v.shape and bool(np.allclose(
            u, v, rtol=1e-6, atol=1e-7, equal_nan=True))
    edited = []
    for m, wrap, gen, want in rows + [("<again>", None, None, None)]:
        if m == "<again>":
            # the caller has meanwhile worked on the arrays it was handed
            # (rescaled them, masked values): the first rows once more
            for arr in edited:
                if arr.flags.writeable and arr.dtype.kind == "f":
                    arr *= 100.0
                    arr[~np.isfinite(arr)] = 0.0
                elif arr.flags.writeable and arr.dtype.kind in "iu":
                    arr[...] = 1 - arr
            if edited:
                ctx.count("ccn_results_edited_by_caller")
            again = [rw for rw in rows if "path_length" in rw[0]][:8] + \
                [rw for rw in rows if "adjacency" in rw[0]][:6]
            # (the similarity accessors hand out the object's own matrix -
            #  like the attribute it is - and are not re-asked)
            for m2, wrap2, gen2, want2 in again:
                okx, vx = ctx.call(wrap2)
                ctx.evals()
                e2 = eq_f32 if "link_distance" in m2 else eq_exact
                if okx and not e2(vx, want2):
                    ctx.violation(f"CoupledClimateNetwork.{m2}:differs-after-"
                                  "the-caller-edited-earlier-results",
                                  {**det, "now": vx, "ref": want2}, cid)
            break
        eq = eq_f32 if "link_distance" in m else eq_exact
        ok1, v1 = ctx.call(wrap)
        ok2, v2 = ctx.call(gen)
        ctx.evals(2)
        ctx.count("ccn_wrappers_compared")
        for v_ in (v1 if isinstance(v1, tuple) else (v1,)) if ok1 else ():
            if isinstance(v_, np.ndarray) and len(edited) < 80 and \
                    "similarity" not in m:
                edited.append(v_)
        if not ok2:
            ctx.violation(f"{m}:raises:{type(v2).__name__}:generic-call",
                          {**det, "exc": repr(v2)}, cid)
        elif not ok1:
            ctx.violation(f"CoupledClimateNetwork.{m}:raises:"
                          f"{type(v1).__name__}", {**det, "exc": repr(v1)},
                          cid)
        elif not eq(v1, v2):
            ctx.violation(f"CoupledClimateNetwork.{m}:ne-generic-call",
                          {**det, "wrapper": v1, "generic": v2}, cid)
        elif not eq(v2, want):
            ctx.violation(f"CoupledClimateNetwork.{m}:ne-definition",
                          {**det, "wrapper": v1, "ref": want}, cid)
    # the blocks handed out by the layer accessors are the caller's: working
    # on them (rescaling, masking) does not change what the network answers
    for nm in ("path_lengths_1", "path_lengths_2", "cross_path_lengths",
               "adjacency_1", "cross_layer_adjacency"):
        f = getattr(net, nm, None)
        if not callable(f):
            continue
        ok1, v1 = ctx.call(f)
        if not ok1 or not isinstance(v1, np.ndarray) or \
                not v1.flags.writeable:
            continue
        keep = v1.copy()
        with np.errstate(all="ignore"):
            v1 *= 3
            v1 += 1
        ok2, v2 = ctx.call(f)
        ctx.evals(2)
        ctx.count("ccn_blocks_edited_by_caller")
        if not ok2 or not np.array_equal(np.asarray(v2), keep):
            ctx.violation(f"CoupledClimateNetwork.{nm}:changed-by-the-"
                          "caller's-edit-of-an-earlier-result", det, cid)
    if A[:n1, n1:].any() and not A[:n1, n1:].all():
        ctx.nontrivial(("ccn", n1, n2, A.tobytes()))


# --------------------------------------------------------------------------
# workload
# --------------------------------------------------------------------------
def disjoint_pairs(n):
    """all ordered pairs of disjoint non-empty subsets of range(n)."""
    for code in itertools.product((0, 1, 2), repeat=n):
        a = [i for i in range(n) if code[i] == 1]
        b = [i for i in range(n) if code[i] == 2]
        if a and b:
            yield a, b


def make_graph(ctx, IN, A, directed, rng, idx):
    n = len(A)
    w = gg.pos_weights(rng, n, ["loguni", "ints", "unit", "loguni"][idx % 4])
    W = gg.link_attr(rng, A, directed, ties=(idx % 3 == 0))
    if idx % 5 == 2 and A.any():
        # zero-length links: distinct nodes at weighted distance 0
        z = rng.random(W.shape) < 0.3
        if not directed:
            z = np.triu(z, 1)
            z = z | z.T
        W = np.where(z, 0.0, W)
        ctx.count("graphs_with_zero_length_links")
    signed = idx % 5 == 3 and A.any()
    if signed:
        # link attributes of either sign (strengths and attribute blocks are
        # plain sums / sub-blocks; weighted path lengths are not defined then
        # and are left out for these graphs)
        sg = rng.choice([-1.0, 1.0], size=W.shape)
        if not directed:
            sg = np.triu(sg, 1)
            sg = sg + sg.T
        W = W * sg
        ctx.count("graphs_with_signed_link_attributes")
    G_ = Graph(IN, A, directed, w, W)
    G_.signed = bool(signed)
    return G_


def order(rng, nodes, k):
    """sorted on even k, shuffled on odd k."""
    nodes = sorted(nodes)
    if k % 2 == 0:
        return nodes
    return [int(x) for x in rng.permutation(nodes)]


def count_pair(ctx, G, a, b, as_array, family):
    ctx.count("pairs_" + family)
    if a != sorted(a) or b != sorted(b):
        ctx.count("pairs_unsorted")
    if as_array:
        ctx.count("pairs_array")
    if G.directed:
        ctx.count("pairs_directed")
    if not ref.cross_pairs_connected(G.D, a, b):
        ctx.count("pairs_disconnected")


def exhaustive_graphs(ctx):
    """yields (cid, A, directed)."""
    T = ctx.thorough
    for n in (2, 3, 4):
        for bits in range(gg.count_undirected(n)):
            yield f"u{n}:{bits}", gg.nth_undirected(n, bits), False
    r = ctx.rng("spread-u5")
    pick = range(1024) if T else sorted(
        int(x) for x in r.choice(1024, 160, replace=False))
    for bits in pick:
        yield f"u5:{bits}", gg.nth_undirected(5, bits), False
    if T:
        r = ctx.rng("spread-u6")
        for bits in sorted(int(x) for x in r.choice(1 << 15, 400,
                                                    replace=False)):
            yield f"u6:{bits}", gg.nth_undirected(6, bits), False
    for n in (2, 3):
        for bits in range(1 << (n * (n - 1))):
            yield f"d{n}:{bits}", gg.nth_directed(n, bits), True
    r = ctx.rng("spread-d4")
    for bits in sorted(int(x) for x in r.choice(
            4096, 512 if T else 100, replace=False)):
        yield f"d4:{bits}", gg.nth_directed(4, bits), True
    if T:
        r = ctx.rng("spread-d5")
        for bits in sorted(int(x) for x in r.choice(
                1 << 20, 300, replace=False)):
            yield f"d5:{bits}", gg.nth_directed(5, bits), True


def random_graph(rng, k):
    """-> (A, directed, kind)."""
    directed = k % 5 == 4
    kind = ["gnp", "connected", "two-components", "isolated", "family",
            "connected"][k % 6]
    if kind == "family" and not directed:
        fam = gg.families()
        name = sorted(fam)[int(rng.integers(len(fam)))]
        return fam[name], False, "family:" + name
    if kind == "connected":
        return gg.random_connected(rng, 4, 20, directed), directed, kind
    if kind == "two-components":
        A1 = gg.random_connected(rng, 2, 9, directed)
        A2 = gg.random_connected(rng, 2, 9, directed)
        n1, n2 = len(A1), len(A2)
        A = np.zeros((n1 + n2, n1 + n2), dtype=np.int8)
        A[:n1, :n1] = A1
        A[n1:, n1:] = A2
        p = rng.permutation(n1 + n2)          # hide the block structure
        return A[np.ix_(p, p)], directed, kind
    A = gg.random_graph(rng, 4, 20, directed)
    if kind == "isolated":
        iso = rng.choice(len(A), max(1, len(A) // 4), replace=False)
        A[iso, :] = 0
        A[:, iso] = 0
    return A, directed, kind


def random_groups(rng, n):
    style = int(rng.integers(4))
    perm = [int(x) for x in rng.permutation(n)]
    if style == 0:                          # bipartition of all nodes
        s = int(rng.integers(1, n))
        return perm[:s], perm[s:]
    s1 = int(rng.integers(1, max(2, n // 2 + 1)))
    s2 = int(rng.integers(1, max(2, n - s1 + (0 if style == 1 else -1))))
    s2 = max(1, min(s2, n - s1))
    return perm[:s1], perm[s1:s1 + s2]


def large_dense(ctx, IN, k):
    """Groups with hundreds of densely linked nodes: neighbour and triangle
    counts pass 127, 255 (narrow integer accumulators); the count-valued
    measures and their '_sparse' twins against the definition."""
    cid = f"dense:{k}"
    rng = ctx.rng("dense", k)
    n2 = [135, 160, 270][k % 3] if ctx.thorough else [135, 160][k % 2]
    n1 = 2
    n = n1 + n2
    p = float(rng.choice([0.97, 1.0, 0.99]))
    A = (rng.random((n, n)) < p).astype(np.int8)
    A = np.triu(A, 1)
    A = A + A.T
    perm = rng.permutation(n)
    a = [int(x) for x in perm[:n1]]
    b = [int(x) for x in perm[n1:]]
    w = gg.pos_weights(rng, n)
    net = IN(adjacency=A, node_weights=w, silence_level=3)
    A64 = A.astype(np.int64)
    cases = [
        ("cross_degree", lambda: net.cross_degree(a, b),
         lambda: ref.cross_degree(A64, a, b, False)),
        ("internal_degree", lambda: net.internal_degree(b),
         lambda: ref.internal_degree(A64, b, False)),
        ("nsi_cross_degree", lambda: net.nsi_cross_degree(a, b),
         lambda: ref.nsi_cross_degree(A64, w, a, b)),
        ("nsi_cross_local_clustering",
         lambda: net.nsi_cross_local_clustering(a, b),
         lambda: ref.nsi_cross_local_clustering(A64, w, a, b)),
        ("nsi_cross_transitivity", lambda: net.nsi_cross_transitivity(a, b),
         lambda: ref.nsi_cross_transitivity(A64, w, a, b)),
        ("number_cross_links", lambda: net.number_cross_links(a, b),
         lambda: ref.number_cross_links(A64, a, b)),
        ("number_internal_links", lambda: net.number_internal_links(b),
         lambda: ref.number_internal_links(A64, b, False)),
    ]
    for sfx in ("", "_sparse"):
        cases += [
            ("cross_local_clustering" + sfx, lambda s=sfx: getattr(
                net, "cross_local_clustering" + s)(a, b),
             lambda: ref.cross_local_clustering(A64, a, b)),
            ("cross_global_clustering" + sfx, lambda s=sfx: getattr(
                net, "cross_global_clustering" + s)(a, b),
             lambda: ref.cross_global_clustering(A64, a, b)),
            ("cross_transitivity" + sfx, lambda s=sfx: getattr(
                net, "cross_transitivity" + s)(a, b),
             lambda: ref.cross_transitivity(A64, a, b))]
    common = int((A64[a[0]][b][:, None] * A64[np.ix_(b, b)]).sum(axis=0).max())
    ctx.maxstat("dense_max_common_neighbours", common)
    for name, lib, want in cases:
        ok, v = ctx.call(lib)
        ctx.evals()
        ctx.count("dense_compared")
        if not ok:
            ctx.violation(f"{name}:raises:{type(v).__name__}:large-dense",
                          {"N": n, "p": p, "exc": repr(v)}, cid)
            continue
        wv = want()
        if not np.allclose(np.asarray(v, float), np.asarray(wv, float),
                           rtol=1e-9, atol=1e-12):
            ctx.violation(f"{name}:ne-definition:large-dense",
                          {"N": n, "group_sizes": [n1, n2], "p": p,
                           "lib": np.ravel(v)[:4], "ref": np.ravel(wv)[:4]},
                          cid)
    ctx.nontrivial(("dense", n, p, k))


def run(ctx):
    from pyunicorn.core.interacting_networks import InteractingNetworks as IN
    import warnings
    warnings.simplefilter("ignore")      # 0/0 in undefined averages etc.

    bad = ref.selftest()
    if bad:
        raise RuntimeError(f"reference self-test failed: {bad}")
    ctx.count("ref_selftest_passed")

    # 0. a few large dense networks (counts beyond 8-bit ranges)
    for k in range(12 if ctx.thorough else 3):
        if ctx.mine(k) and ctx.want(f"dense:{k}"):
            with ctx.guard(300):
                large_dense(ctx, IN, k)

    # 1. random networks with random groups, and the wrappers (first, so
    # that a loaded machine cannot starve them; capped) -------------------
    cap = 12000 if ctx.thorough else 1200
    cap_ccn = 1600 if ctx.thorough else 200
    k = 0
    while ctx.time_left() > 0 and k < max(cap, cap_ccn):
        k += 1
        if not ctx.mine(k):
            continue
        if k <= cap_ccn and ctx.want(f"ccn:{k}"):
            with ctx.guard(60):
                ccn_case(ctx, k)
        if k > cap:
            continue
        gid = f"rnd:{k}"
        if ctx.only_case is not None and \
                not str(ctx.only_case).startswith(gid + ":"):
            continue
        rng = ctx.rng("rnd", k)
        np.random.seed(k)
        A, directed, kind = random_graph(rng, k)
        G = make_graph(ctx, IN, A, directed, rng, k)
        if ctx.want(f"{gid}:whole"):
            with ctx.guard(120):
                whole_set(ctx, G, f"{gid}:whole")
        reps = 3 if G.N <= 12 else 2
        for j in range(reps):
            cid = f"{gid}:{j}"
            a, b = random_groups(rng, G.N)
            a, b = order(rng, a, j + k), order(rng, b, (j + k) // 2)
            arr = (j + k) % 3 == 0
            if not ctx.want(cid):
                continue
            with ctx.guard(120):
                count_pair(ctx, G, a, b, arr, "random")
                battery(ctx, G, a, b, arr, cid)
        if k % 50 == 1:
            ctx.sample({"network": gid, "kind": kind, "N": G.N,
                        "directed": directed})

    # 2. exhaustive group pairs on small networks (always complete) --------
    for gi, (gid, A, directed) in enumerate(exhaustive_graphs(ctx)):
        if not ctx.mine(gi):
            continue
        if ctx.only_case is not None and \
                not str(ctx.only_case).startswith(gid + ":"):
            continue
        rng = ctx.rng("ex", gid)
        np.random.seed(gi)
        G = make_graph(ctx, IN, A, directed, rng, gi)
        n = G.N
        if ctx.want(f"{gid}:whole"):
            whole_set(ctx, G, f"{gid}:whole")
        seen_first = set()
        for k, (a0, b0) in enumerate(disjoint_pairs(n)):
            cid = f"{gid}:{k}"
            a, b = order(rng, a0, k), order(rng, b0, k // 2)
            arr = k % 3 == 0
            # internal measures: twice per first group (sorted / shuffled,
            # list / array alternate with k)
            fk = (tuple(a0), a == sorted(a))
            internal = fk not in seen_first
            seen_first.add(fk)
            if not ctx.want(cid):
                continue
            with ctx.guard(60):
                count_pair(ctx, G, a, b, arr, "exhaustive")
                battery(ctx, G, a, b, arr, cid, internal=internal)
        if gi % 97 == 0:
            ctx.sample({"network": gid, **G.detail(),
                        "group_pairs": k + 1})
