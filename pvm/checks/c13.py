"""C13 -- data windows select exactly the requested samples; anomalies sum."""
import warnings

import numpy as np

META = dict(
    shards={"quick": 8, "thorough": 16},
    budget={"quick": 40, "thorough": 420},
    timeout={"quick": 600, "thorough": 3000},
    rule=("cases: seeded data sets (1..60 samples, thorough ..400; 1..14 "
          "irregularly placed nodes with duplicate coordinates; time axis "
          "regular or irregular, offsets up to 2^16; all axes on multiples "
          "of 1/4 so that float32 storage and comparison are exact) x class "
          "{Data, ClimateData} x anomalies flag x cycle length (dividing and "
          "not dividing the record, 12 for the month selection) x a history "
          "of 1..4 (thorough ..8) operations from {set_window(w), "
          "set_global_window(), set_window(window()) echo, constructor "
          "window}. Window bounds per axis: on samples, between samples, "
          "outside the range, equal bounds (full-axis convention: time "
          "alone; latitude OR longitude for space, as documented), single "
          "sample. Model: closed-interval boolean masks over the float32 "
          "axes. After every operation all observables are compared: "
          "observable() == masked full array (exact), grid axes == masked "
          "axes (exact), window() == min/max of the masked axes, "
          "phase_indices / phase_mean / anomaly / anomaly_selected_months "
          "shapes and values (1e-12*scale) against means over explicit "
          "index lists, zero phase mean of the anomaly, anomaly + phase mean "
          "== observable, anomalies=True => anomaly() == windowed "
          "observable(); global window restores the initial view and derived "
          "series byte for byte. Windows selecting no sample on an axis are "
          "and leave the object as it was. "
          "non-trivial = distinct (data, history) containing a window that "
          "is a proper subset in time and in space."),
    floors={"quick": {"histories": 1500, "states_observed": 4000,
                      "windowed_states": 2500, "restored_states": 600,
                      "proper_windows": 900, "bound_on_sample": 4000,
                      "echo_windows": 300, "ctor_window": 200,
                      "time_equal_convention": 300,
                      "lat_equal_only_convention": 300,
                      "lon_equal_only_convention": 250,
                      "cycle_not_dividing": 1000, "cycle_dividing": 450,
                      "anomaly_algebra_checked": 1500,
                      "anomalies_flag_windowed": 600,
                      "selected_months_checked": 600,
                      "restore_bytes_checked": 500},
            "thorough": {"histories": 12000, "states_observed": 50000,
                         "windowed_states": 35000, "restored_states": 9000,
                         "proper_windows": 12000, "bound_on_sample": 55000,
                         "echo_windows": 4000, "ctor_window": 1800,
                         "time_equal_convention": 4000,
                         "lat_equal_only_convention": 4500,
                         "lon_equal_only_convention": 3500,
                         "cycle_not_dividing": 13000, "cycle_dividing": 5000,
                         "anomaly_algebra_checked": 18000,
                         "anomalies_flag_windowed": 9000,
                         "selected_months_checked": 7000,
                         "restore_bytes_checked": 7000}},
    assumptions=[
        "axes and window bounds are multiples of 1/8 below 2^17, hence exact "
        "in float32: the library's float32 comparison equals the model's",
        "space convention as documented: full spatial extension if the "
        "latitude bounds OR the longitude bounds coincide",
        "window() reports the extent of the selected samples (docstring "
        "example), not the requested bounds",
        "phase means run over every windowed sample with index = phase mod "
        "cycle (also those of an incomplete last cycle); phases without any "
        "sample (window shorter than the cycle) are only shape-checked",
        "windows that select nothing are outside the property (skipped)"],
    technique="model-based test: boolean-mask model of the window history",
    level_text=("after every operation of every generated history all "
                "public views agreed with the mask model and the anomaly "
                "algebra held; no claim beyond the sampled histories"),
    level_note="trusted: numpy boolean indexing and float64 sums",
)

META["rule"] += (
    " " + "Added after the second round of seeded changes: station coordinates on a 0.01 lattice (not representable in float32) with window bounds placed on the caller's coordinates, bounds given as float / np.float64 / np.float32 / int (inside-ness is decided at the precision of the stored float32 coordinates); observables also int16/int32/int64 and float32 (tolerance 64 eps32 for float32 fields).")

META["rule"] += (
    " " + 'Added after the third round: `shuffled_anomaly()` requested before and after `anomaly()` (column-permutation relation); 40 % of the window changes reuse one dict object edited in place; phase / month lists in random order.')

META["rule"] += (
    " " + 'Added after the fifth round: whole-numbered axes handed over as int64 / int32 / int16 in half of the cases; the windowed observable is read once more after all derived quantities of a state; the anomalies switch as bool / np.bool_ / 0-1.')

META["rule"] += (
    " " + 'Added later: windows that select no sample are applied too: the library must refuse them and the object must then be in the state it was in.')

META["rule"] += (
    " " + "Added after the sixth round: 15 % of the history steps continue on a copy.copy / deep copy / pickle round trip of the object; every set_window compares the caller's dictionary before and after.")

META["rule"] += (
    " " + 'Added after the eighth round: the caller edits the returned observable (then selects the global window) and the dictionary returned by window().')

KEYS = ("time_min", "time_max", "lat_min", "lat_max", "lon_min", "lon_max")


# --------------------------------------------------------------------------
# model
# --------------------------------------------------------------------------

class Model:
    def __init__(self, obs, time, lat, lon):
        self.obs = obs
        self.t = np.asarray(time, np.float32).astype(np.float64)
        self.la = np.asarray(lat, np.float32).astype(np.float64)
        self.lo = np.asarray(lon, np.float32).astype(np.float64)
        # the coordinates as the caller holds them (double precision)
        self.user = (np.asarray(time, float), np.asarray(lat, float),
                     np.asarray(lon, float))
        self.global_()

    def global_(self):
        self.tm = np.ones(len(self.t), bool)
        self.sm = np.ones(len(self.la), bool)

    def masks(self, w):
        # bounds coincide: as given; inside/outside: at the precision of the
        # stored (single precision) coordinates, so that a bound placed on a
        # sample's coordinate includes that sample whatever its numeric type
        w = {k: float(v) for k, v in w.items()}
        b = {k: float(np.float32(v)) for k, v in w.items()}
        if w["time_min"] == w["time_max"]:
            tm = np.ones(len(self.t), bool)
        else:
            tm = (self.t >= b["time_min"]) & (self.t <= b["time_max"])
        if w["lat_min"] == w["lat_max"] or w["lon_min"] == w["lon_max"]:
            sm = np.ones(len(self.la), bool)
        else:
            sm = (self.la >= b["lat_min"]) & (self.la <= b["lat_max"]) & \
                 (self.lo >= b["lon_min"]) & (self.lo <= b["lon_max"])
        return tm, sm

    def view(self):
        return self.obs[self.tm, :][:, self.sm]

    def axes(self):
        return (self.t[self.tm].astype(np.float32),
                self.la[self.sm].astype(np.float32),
                self.lo[self.sm].astype(np.float32))


def ref_phase_mean(view, cycle):
    T, N = view.shape
    pm = np.full((cycle, N), np.nan)
    for p in range(cycle):
        idx = [t for t in range(T) if t % cycle == p]
        if idx:
            pm[p] = np.sum(view[idx, :], axis=0) / len(idx)
    return pm


def ref_phase_indices(T, cycle):
    years = T // cycle
    return np.array([[p + y * cycle for y in range(years)]
                     for p in range(cycle)], dtype=int).reshape(cycle, years)


# --------------------------------------------------------------------------
# generators
# --------------------------------------------------------------------------

def gen_data(r, thorough, want_months):
    Tmax = 400 if thorough and r.random() < 0.15 else 60
    T = int(r.integers(1, Tmax + 1))
    if want_months:
        T = int(r.integers(12, max(13, min(Tmax, 80)) + 1))
    N = int(r.integers(1, 15))
    if r.random() < 0.5:
        time = np.arange(T, dtype=float)
    else:
        time = np.cumsum(r.choice([0.25, 0.5, 1, 2, 3], T))
    time = time + float(r.choice([0, 0, -4, 1000, 65536]))
    if r.random() < 0.3:
        la_ax = np.sort(r.choice(np.arange(-90, 90.25, 7.5), 4, False))
        lo_ax = np.sort(r.choice(np.arange(0, 360, 11.25), 4, False))
        lat = np.repeat(la_ax, 4)[:max(N, 2)]
        lon = np.tile(lo_ax, 4)[:max(N, 2)]
        N = len(lat)
    else:
        lat = r.integers(-360, 361, N) / 4.0
        lon = r.integers(-720, 1441, N) / 4.0
        if r.random() < 0.4:
            # station coordinates that single precision cannot represent
            lat = r.integers(-9000, 9001, N) / 100.0
            lon = r.integers(-18000, 36001, N) / 100.0
        if N > 2 and r.random() < 0.4:       # duplicate coordinates
            lat[-1], lon[-1] = lat[0], lon[0]
            lat[-2] = lat[1]
    style = r.integers(0, 3)
    if style == 0:
        obs = r.normal(size=(T, N))
    elif style == 1:
        obs = r.integers(-9, 10, (T, N)).astype(float)
    else:
        obs = r.normal(size=(T, N)) * 1e3 + 273.15 + \
            10 * np.sin(np.arange(T) * 2 * np.pi / 12)[:, None]
    # the numeric type the caller's field comes in (count data, packed or
    # single-precision NetCDF fields); the library does not cast it
    if style == 1:
        obs = obs.astype(r.choice(["f8", "i2", "i4", "i8", "f4"]))
    elif r.random() < 0.25:
        obs = obs.astype(np.float32)
    return obs, time, lat.astype(float), lon.astype(float)


def pick_bounds(r, vals, ctx=None):
    """(lo, hi, kind) on the 1/8 lattice relative to the sample values."""
    v = np.unique(vals)
    kind = r.choice(["on", "on", "between", "outside", "equal", "single",
                     "on-lo", "on-hi"])
    i, j = sorted(r.integers(0, len(v), 2))
    if kind == "on":
        lo, hi = v[i], v[j]
        if lo == hi and len(v) > 1:
            j = i + 1 if i + 1 < len(v) else i
            i = j - 1 if j == i else i
            lo, hi = v[i], v[j]
    elif kind == "between":
        lo, hi = v[i] - 0.125, v[j] + 0.125
    elif kind == "outside":
        lo, hi = v[0] - float(r.integers(1, 50)), v[-1] + \
            float(r.integers(1, 50))
    elif kind == "equal":
        lo = hi = float(r.choice([0.0, v[i], v[i] + 0.125, -1.0]))
    elif kind == "single":
        lo, hi = v[i] - 0.125, v[i] + 0.125
    elif kind == "on-lo":
        lo, hi = v[i], v[j] + 0.125
    else:
        lo, hi = v[i] - 0.125, v[j]
    return float(lo), float(hi), str(kind)


def gen_window(r, m):
    w = {}
    kinds = {}
    for ax, vals in (("time", m.user[0]), ("lat", m.user[1]),
                     ("lon", m.user[2])):
        lo, hi, k = pick_bounds(r, vals)
        # the numeric type a caller may hold a bound in (a Python number,
        # or an element / the min / max of a coordinate array)
        ty = r.choice(["float", "float", "f8", "f8", "f4", "int"], 2)
        out = []
        for v, t in zip((lo, hi), ty):
            if t == "f8":
                v = np.float64(v)
            elif t == "f4":
                v = np.float32(v)
            elif t == "int" and float(v).is_integer():
                v = int(v)
            out.append(v)
        if (float(out[0]) == float(out[1])) != (lo == hi):
            out = [lo, hi]          # (rounding must not create 'equal')
        w[ax + "_min"], w[ax + "_max"] = out
        kinds[ax] = k
    return w, kinds


# --------------------------------------------------------------------------
# monitors
# --------------------------------------------------------------------------

def _eqbytes(a, b):
    a, b = np.asarray(a), np.asarray(b)
    return a.shape == b.shape and a.dtype == b.dtype and \
        a.tobytes() == b.tobytes()


def _close(a, b, tol):
    a, b = np.asarray(a, float), np.asarray(b, float)
    if a.shape != b.shape:
        return False
    both_nan = np.isnan(a) & np.isnan(b)
    with np.errstate(invalid="ignore"):
        return bool(np.all(both_nan | (np.abs(a - b) <= tol)))


def observe(ctx, d, m, cls, kind, cid, case, climate, snap=None, prev=None):
    """Compare everything observable on `d` with the model state `m`.
    Returns a snapshot (bytes of the views) or None if the core view is
    already wrong."""
    sig = lambda meth, rel: f"{cls}.{meth}:{rel}:{kind}"      # noqa: E731
    view = m.view()
    Tw, Nw = view.shape
    t_ax, la_ax, lo_ax = m.axes()
    ctx.count("states_observed")
    ctx.count({"initial": "initial_states", "windowed": "windowed_states",
               "restored": "restored_states"}[kind])
    ok, obs = ctx.call(d.observable)
    ctx.evals()
    if not ok:
        ctx.violation(sig("observable", f"raises:{type(obs).__name__}"),
                      {**case, "exc": repr(obs)}, cid)
        return None
    obs = np.asarray(obs)
    good = True
    if obs.shape != view.shape:
        ctx.violation(sig("observable", "shape!=masked-shape"),
                      {**case, "shape": obs.shape, "want": view.shape}, cid)
        return None
    if not np.array_equal(obs, view):
        rel = "ne-masked-full-array"
        if prev is not None and prev.shape == obs.shape and \
                np.array_equal(prev, obs):
            rel = "stale-previous-window"
        ctx.violation(sig("observable", rel),
                      {**case, "lib": obs, "want": view}, cid)
        good = False
    # grid
    ok, gg = ctx.call(lambda: (d.grid.grid(), d.grid.N, d.grid.grid_size(),
                               d.grid.n_grid_points,
                               d.grid.lat_sequence(), d.grid.lon_sequence()))
    ctx.evals()
    if not ok:
        ctx.violation(sig("grid", f"raises:{type(gg).__name__}"),
                      {**case, "exc": repr(gg)}, cid)
        return None
    G, gN, gsz, gnp, glat, glon = gg
    for name, arr, want in (("time", G["time"], t_ax), ("lat", G["lat"], la_ax),
                            ("lon", G["lon"], lo_ax), ("lat", glat, la_ax),
                            ("lon", glon, lo_ax)):
        if not (np.shape(arr) == want.shape and np.array_equal(arr, want)):
            ctx.violation(sig("grid", f"{name}-axis-ne-masked-axis"),
                          {**case, "lib": arr, "want": want}, cid)
            good = False
    if gN != Nw or gsz.get("space") != Nw or gsz.get("time") != Tw or \
            gnp != Tw * Nw:
        ctx.violation(sig("grid", "sizes-ne-view-shape"),
                      {**case, "N": gN, "grid_size": gsz,
                       "n_grid_points": gnp, "view": view.shape}, cid)
        good = False
    # window() echoes the extent of the selection
    ok, w = ctx.call(d.window)
    ctx.evals()
    if not ok:
        ctx.violation(sig("window", f"raises:{type(w).__name__}"),
                      {**case, "exc": repr(w)}, cid)
        good = False
    else:
        want = {"time_min": t_ax.min(), "time_max": t_ax.max(),
                "lat_min": la_ax.min(), "lat_max": la_ax.max(),
                "lon_min": lo_ax.min(), "lon_max": lo_ax.max()}
        bad = [k for k in KEYS if k not in w or float(w[k]) != float(want[k])]
        if bad or set(w) != set(KEYS):
            ctx.violation(sig("window", "ne-extent-of-selection"),
                          {**case, "lib": {k: float(v) for k, v in w.items()},
                           "want": {k: float(v) for k, v in want.items()},
                           "bad": bad}, cid)
            good = False
        elif isinstance(w, dict):
            # the dictionary is the caller's (it is made to be edited and
            # handed to set_window): editing it does not edit the report
            for k_ in list(w):
                w[k_] = float(w[k_]) - 7.5
            ok, w2 = ctx.call(d.window)
            ctx.evals()
            ctx.count("window_dict_edited_by_caller")
            if not ok or [k for k in KEYS if k not in w2
                          or float(w2[k]) != float(want[k])]:
                ctx.violation(sig("window", "changed-by-the-caller's-edit-"
                                  "of-the-dictionary-it-returned"),
                              {**case, "lib": repr(w2)[:300]}, cid)
                good = False
    s = {"obs": obs.tobytes(), "t": np.asarray(G["time"]).tobytes(),
         "lat": np.asarray(G["lat"]).tobytes(),
         "lon": np.asarray(G["lon"]).tobytes(), "shape": obs.shape}
    if not climate:
        if snap is not None:
            compare_snap(ctx, s, snap, cls, kind, cid, case)
        return s if good else None

    # ---- derived series (ClimateData) ----------------------------------
    cycle = d.time_cycle
    scale = max(1.0, float(np.abs(view).max()))
    tol = 1e-12 * scale
    if view.dtype == np.float32:
        # means of a single-precision field are accumulated by NumPy in
        # single precision: the accuracy the data type affords
        tol = 64 * float(np.finfo(np.float32).eps) * scale
        ctx.count("float32_observables")
    elif view.dtype.kind in "iu":
        ctx.count("integer_observables")
    with warnings.catch_warnings():
        warnings.simplefilter("ignore")
        okp, pi = ctx.call(d.phase_indices)
        okm, pm = ctx.call(d.phase_mean)
        rq = ctx.rng("shuf", cid, ctx.counters.get("states_observed", 0))
        if rq.random() < 0.3:
            # a derived series that is random by design, requested before
            # and after the anomalies: each column is a permutation of the
            # anomaly column, and the anomalies themselves stay what they are
            np.random.seed(int(rq.integers(1 << 30)))
            oks, sh = ctx.call(d.shuffled_anomaly)
            oka, an = ctx.call(d.anomaly)
            ctx.count("shuffled_anomaly_queried")
            if oks and oka and np.shape(sh) == np.shape(an) and not \
                    np.array_equal(np.sort(np.asarray(sh, float), axis=0),
                                   np.sort(np.asarray(an, float), axis=0)):
                ctx.violation(sig("shuffled_anomaly",
                                  "not-a-column-permutation-of-anomaly"),
                              {**case}, cid)
            ctx.call(d.shuffled_anomaly)
        oka, an = ctx.call(d.anomaly)
    ctx.evals(3)
    # phase_indices
    wpi = ref_phase_indices(Tw, cycle)
    if not okp:
        ctx.violation(sig("phase_indices", f"raises:{type(pi).__name__}"),
                      {**case, "exc": repr(pi)}, cid)
    elif np.shape(pi) != wpi.shape:
        ctx.violation(sig("phase_indices", "shape!=(cycle,n_time_w//cycle)"),
                      {**case, "shape": np.shape(pi), "want": wpi.shape,
                       "cycle": cycle, "n_time_w": Tw}, cid)
    elif not np.array_equal(pi, wpi):
        ctx.violation(sig("phase_indices", "ne-phase+year*cycle"),
                      {**case, "lib": pi, "want": wpi}, cid)
    ctx.count("phase_indices_checked")
    # phase_mean
    wpm = ref_phase_mean(view, cycle)
    full_phases = Tw >= cycle
    pm_ok = False
    if not okm:
        ctx.violation(sig("phase_mean", f"raises:{type(pm).__name__}"),
                      {**case, "exc": repr(pm)}, cid)
    elif np.shape(pm) != (cycle, Nw):
        ctx.violation(sig("phase_mean", "shape!=(cycle,n_space_w)"),
                      {**case, "shape": np.shape(pm), "want": (cycle, Nw)},
                      cid)
    elif not _close(pm, wpm, tol):
        rel = "ne-mean-over-phase-samples"
        ctx.violation(sig("phase_mean", rel),
                      {**case, "cycle": cycle, "lib": pm, "want": wpm}, cid)
    else:
        pm_ok = True
    # anomaly
    an_ok = False
    flag = bool(d.anomalies)
    if flag and kind == "windowed":
        ctx.count("anomalies_flag_windowed")
    if not oka:
        ctx.violation(sig("anomaly", f"raises:{type(an).__name__}"),
                      {**case, "exc": repr(an)}, cid)
    elif flag:
        # data are anomalies already: anomaly() is the windowed observable
        if np.shape(an) != view.shape or not np.array_equal(an, view):
            ctx.violation(sig("anomaly",
                              "ne-windowed-observable(anomalies=True)"),
                          {**case, "shape": np.shape(an),
                           "want_shape": view.shape}, cid)
        else:
            an_ok = True
    elif np.shape(an) != view.shape:
        ctx.violation(sig("anomaly", "shape!=(n_time_w,n_space_w)"),
                      {**case, "shape": np.shape(an), "want": view.shape},
                      cid)
    else:
        an = np.asarray(an, float)
        an_ok = True
        if full_phases:
            ctx.count("anomaly_algebra_checked")
            ctx.count("cycle_dividing" if Tw % cycle == 0
                      else "cycle_not_dividing")
            worst = 0.0
            for p in range(cycle):
                idx = [t for t in range(Tw) if t % cycle == p]
                worst = max(worst, float(np.abs(
                    np.sum(an[idx, :], axis=0) / len(idx)).max()))
            ctx.maxstat("anomaly_phase_mean_over_scale", worst / scale)
            if worst > tol:
                ctx.violation(sig("anomaly", "phase-mean!=0"),
                              {**case, "cycle": cycle, "n_time_w": Tw,
                               "worst": worst, "tol": tol}, cid)
                an_ok = False
            if pm_ok:
                back = an + np.asarray(pm)[np.arange(Tw) % cycle, :]
                err = float(np.abs(back - view).max()) if view.size else 0.0
                ctx.maxstat("addback_err_over_scale", err / scale)
                if err > tol:
                    ctx.violation(sig("anomaly",
                                      "anomaly+phase_mean!=observable"),
                                  {**case, "cycle": cycle, "n_time_w": Tw,
                                   "err": err, "tol": tol}, cid)
                    an_ok = False
    # selected phases / months
    if an_ok and pm_ok and full_phases:
        r = ctx.rng("sel", cid, ctx.counters.get("states_observed", 0))
        # (phases / months in the order a caller lists them, e.g. Dec-Jan-
        #  Feb = [11, 0, 1]: the selection is chronological whatever the order)
        sel = sorted(set(int(v) for v in r.integers(0, cycle, 3)))
        sel = [sel[i] for i in r.permutation(len(sel))]
        wsel = sorted(int(v) for v in wpi[sel, :].ravel())
        ok, got = ctx.call(d.indices_selected_phases, sel)
        ctx.evals()
        if not ok or list(np.asarray(got).tolist()) != wsel:
            ctx.violation(sig("indices_selected_phases",
                              "ne-sorted-phase-indices"),
                          {**case, "sel": sel, "want": wsel,
                           "lib": None if not ok else got,
                           "exc": None if ok else repr(got)}, cid)
        if cycle == 12:
            months = sorted(set(int(v) for v in r.integers(0, 12, 4)))
            months = [months[i] for i in r.permutation(len(months))]
            widx = sorted(int(v) for v in wpi[months, :].ravel())
            ref_an = view if flag else view - wpm[np.arange(Tw) % 12, :]
            want = ref_an[widx, :]
            ok, got = ctx.call(d.anomaly_selected_months, months)
            ctx.evals()
            ctx.count("selected_months_checked")
            if not ok:
                ctx.violation(sig("anomaly_selected_months",
                                  f"raises:{type(got).__name__}"),
                              {**case, "months": months, "exc": repr(got)},
                              cid)
            elif np.shape(got) != want.shape:
                ctx.violation(sig("anomaly_selected_months",
                                  "shape!=(n_sel*n_years,n_space_w)"),
                              {**case, "months": months,
                               "shape": np.shape(got), "want": want.shape},
                              cid)
            elif not _close(got, want, tol):
                ctx.violation(sig("anomaly_selected_months",
                                  "ne-anomaly-rows-of-selected-months"),
                              {**case, "months": months}, cid)
    # the windowed observable read once more, after everything derived from
    # it has been computed: the derived quantities are read-only queries
    ok, obs2 = ctx.call(d.observable)
    ctx.evals()
    ctx.count("observable_read_again_after_queries")
    if good and (not ok or np.shape(obs2) != view.shape
                 or not np.array_equal(np.asarray(obs2), view)):
        ctx.violation(sig("observable", "changed-by-read-only-queries"),
                      {**case, "lib": obs2 if ok else repr(obs2),
                       "want": view}, cid)
        good = False
    s["pm_shape"] = np.shape(pm) if okm else None
    if okm and oka and pm_ok and an_ok:
        s["pm"] = np.asarray(pm).tobytes()
        s["an"] = np.asarray(an).tobytes()
    if snap is not None:
        compare_snap(ctx, s, snap, cls, kind, cid, case)
    return s if good else None


def compare_snap(ctx, s, snap, cls, kind, cid, case):
    """Global window restores the initial view byte for byte."""
    ctx.count("restore_bytes_checked")
    for key, meth in (("obs", "observable"), ("t", "grid"), ("lat", "grid"),
                      ("lon", "grid"), ("pm", "phase_mean"),
                      ("an", "anomaly")):
        if key in snap and key in s and s[key] != snap[key]:
            ctx.violation(f"{cls}.{meth}:restored-bytes-ne-initial:{kind}",
                          {**case, "what": key}, cid)


def run_history(ctx, Data, ClimateData, GeoGrid, cid, r, climate):
    want_months = climate and r.random() < 0.25
    obs, time, lat, lon = gen_data(r, ctx.thorough, want_months)
    T, N = obs.shape
    obs0 = obs.copy()
    m = Model(obs0, time, lat, lon)
    flag = bool(climate and r.random() < 0.35)
    if climate:
        if want_months:
            cycle = 12
        else:
            cycle = int(r.integers(1, max(2, min(T, 14) + 1)))
            if r.random() < 0.1:
                cycle = T + int(r.integers(0, 3))     # window shorter
            cycle = max(1, cycle)
    cls = "ClimateData" if climate else "Data"
    case = {"class": cls, "T": T, "N": N, "time": time, "lat": lat,
            "lon": lon, "anomalies": flag,
            "cycle": cycle if climate else None, "history": []}
    # whole-numbered axes in the integer type a caller may hold them in
    # (np.arange(T), hours since ...): the values are what counts
    def as_given(a):
        if np.all(a == np.round(a)) and np.abs(a).max() < 2 ** 15 and \
                r.random() < 0.5:
            ctx.count("integer_typed_axes")
            return a.astype(str(r.choice(["i8", "i4", "i2"])))
        return a
    grid = GeoGrid(as_given(time), as_given(lat), as_given(lon),
                   silence_level=3)
    # optional constructor window
    ctor_w = None
    if r.random() < 0.2:
        w, kinds = gen_window(r, m)
        tm, sm = m.masks(w)
        if tm.any() and sm.any():
            ctor_w = w
    kw = dict(observable=obs, grid=grid, window=ctor_w, silence_level=3)
    if climate:
        from pvm.gen.held import as_flag
        kw.update(time_cycle=cycle, anomalies=as_flag(r, flag))
    ok, d = ctx.call(ClimateData if climate else Data, **kw)
    if not ok:
        ctx.violation(f"{cls}.__init__:raises:{type(d).__name__}:"
                      f"{'windowed' if ctor_w else 'initial'}",
                      {**case, "window": ctor_w, "exc": repr(d)}, cid)
        return
    ctx.count("histories")
    proper = False
    kind = "initial"
    snap0 = None
    if ctor_w is not None:
        m.tm, m.sm = m.masks(ctor_w)
        case["history"].append(["ctor-window", ctor_w])
        kind = "windowed"
        ctx.count("ctor_window")
    s = observe(ctx, d, m, cls, kind, cid, case, climate)
    if ctor_w is None:
        snap0 = s
    prev_view = m.view().copy()
    wdict = {}
    L = int(r.integers(1, 9 if ctx.thorough else 5))
    for step in range(L):
        if r.random() < 0.15:
            # the work continues on a copy of the object (copy.copy, a deep
            # copy or a pickle round trip): it is in the same state
            import copy as _copy
            import pickle as _pickle
            how = str(r.choice(["copy", "deepcopy", "pickle"]))
            okc, d2 = ctx.call(
                {"copy": _copy.copy, "deepcopy": _copy.deepcopy,
                 "pickle": lambda o: _pickle.loads(_pickle.dumps(o))}[how],
                d)
            ctx.evals()
            if okc:
                d = d2
                ctx.count("continued_on_a_clone:" + how)
                case["history"].append([how])
                if observe(ctx, d, m, cls, kind, cid, case, climate,
                           prev=prev_view) is None:
                    return
            else:
                ctx.count("clone_not_possible:" + how)
        u = r.random()
        if r.random() < 0.15:
            # the caller works in place on the array observable() handed out
            # (rescales it): the next selection is made from the record, and
            # the array given to the constructor is the caller's untouched
            okd, dirty = ctx.call(d.observable)
            if okd and isinstance(dirty, np.ndarray) and \
                    dirty.flags.writeable and dirty.dtype.kind == "f":
                dirty *= 3.0
                dirty += 1.0
                ctx.count("observable_edited_by_caller_before_next_window")
                u = 0.1          # the global window is selected next
                if not np.array_equal(obs, obs0):
                    ctx.violation(f"{cls}.observable:hands-out-the-caller's-"
                                  f"input-array:{kind}", case, cid)
                    return
        if u < 0.2:
            op = "global"
        elif u < 0.3:
            op = "echo"
        else:
            op = "window"
        if op == "global":
            ok, e = ctx.call(d.set_global_window)
            ctx.evals()
            case["history"].append(["set_global_window"])
            if not ok:
                ctx.violation(f"{cls}.set_global_window:raises:"
                              f"{type(e).__name__}:{kind}",
                              {**case, "exc": repr(e)}, cid)
                return
            m.global_()
            kind = "restored"
        else:
            if op == "echo":
                ok, w = ctx.call(d.window)
                if not ok:
                    return
                kinds = {"time": "echo", "lat": "echo", "lon": "echo"}
                ctx.count("echo_windows")
            else:
                w, kinds = gen_window(r, m)
            tm, sm = m.masks(w)
            if not tm.any() or not sm.any():
                # a window that selects no sample: the library refuses it
                # (it cannot build an empty grid) - and is then what it was
                ok, e = ctx.call(d.set_window, dict(w))
                ctx.evals()
                if ok:
                    ctx.count("empty_selection_accepted")
                    return
                ctx.count("empty_selection_refused")
                case["history"].append(
                    ["set_window (refused: selects nothing)",
                     {k: float(v) for k, v in w.items()}])
                if observe(ctx, d, m, cls, kind, cid, case, climate,
                           prev=prev_view) is None:
                    return
                continue
            if r.random() < 0.4:
                # the caller keeps one window dictionary and edits it in
                # place between calls
                wdict.clear()
                wdict.update(w)
                w = wdict
                ctx.count("window_dict_reused")
            w_before = dict(w)
            okh, held_obs = ctx.call(d.observable)
            held_snap = np.array(held_obs, copy=True) if okh else None
            ok, e = ctx.call(d.set_window, w)
            ctx.evals()
            if okh and isinstance(held_obs, np.ndarray):
                ctx.count("observable_held_across_set_window")
                if held_obs.shape != held_snap.shape or not np.array_equal(
                        held_obs, held_snap, equal_nan=True):
                    ctx.violation(f"{cls}.set_window:edits-the-observable-"
                                  f"handed-out-before:{kind}", case, cid)
            if {k: (type(v), v) for k, v in w.items()} != \
                    {k: (type(v), v) for k, v in w_before.items()}:
                ctx.violation(f"{cls}.set_window:edits-the-caller's-window-"
                              f"dictionary:{kind}",
                              {**case, "given": w_before, "now": dict(w)},
                              cid)
                w = dict(w_before)
            case["history"].append(["set_window",
                                    {k: float(v) for k, v in w.items()}])
            if not ok:
                ctx.violation(f"{cls}.set_window:raises:{type(e).__name__}:"
                              f"{kind}", {**case, "exc": repr(e)}, cid)
                return
            m.tm, m.sm = tm, sm
            kind = "windowed"
            wf = {k: float(v) for k, v in w.items()}
            if wf["time_min"] == wf["time_max"]:
                ctx.count("time_equal_convention")
            le = wf["lat_min"] == wf["lat_max"]
            oe = wf["lon_min"] == wf["lon_max"]
            if le and not oe:
                ctx.count("lat_equal_only_convention")
            if oe and not le:
                ctx.count("lon_equal_only_convention")
            for ax in ("time", "lat", "lon"):
                if kinds[ax] in ("on", "on-lo", "on-hi", "echo"):
                    ctx.count("bound_on_sample")
            if not tm.all() and not sm.all():
                proper = True
                ctx.count("proper_windows")
        s = observe(ctx, d, m, cls, kind, cid, case, climate,
                    snap=snap0 if kind == "restored" else None,
                    prev=prev_view)
        prev_view = m.view().copy()
    # the caller's arrays are not edited by windowing
    if not np.array_equal(obs, obs0):
        ctx.violation(f"{cls}.set_window:input-array-modified:{kind}",
                      case, cid)
    if proper:
        ctx.nontrivial((cls, obs0.tobytes().hex()[:64], T, N,
                        repr(case["history"])))
    if len(ctx.samples) < 3 and T <= 6 and N <= 4 and proper:
        ctx.sample({"class": cls, "time": time, "lat": lat, "lon": lon,
                    "history": case["history"],
                    "final_view_shape": m.view().shape})


def run(ctx):
    from pyunicorn.core import Data, GeoGrid
    from pyunicorn.climate import ClimateData
    K = 200000 if ctx.thorough else 4000
    k = 0
    while k < K and (ctx.time_left() > 0 or k < K // 2):
        k += 1
        if not ctx.mine(k):
            continue
        cid = f"h:{k}"
        if not ctx.want(cid):
            continue
        r = ctx.rng("hist", k)
        climate = bool(r.random() < 0.75)
        with ctx.guard(60):
            run_history(ctx, Data, ClimateData, GeoGrid, cid, r, climate)
