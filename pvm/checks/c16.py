"""C16 — event synchronisation / coincidence follow their counting rules."""
import warnings

import numpy as np

from pvm.ref import events as ref

INF = float("inf")

META = dict(
    shards={"quick": 8, "thorough": 16},
    budget={"quick": 30, "thorough": 420},
    timeout={"quick": 600, "thorough": 3000},
    rule=("cases: (A) every ordered pair of binary sequences of equal length "
          "1..L (L=7 quick, 9 thorough) with index time stamps at 3 ES and 5 "
          "ECA (taumax,lag) settings and with one fixed irregular dyadic time "
          "axis at 2 ES / 2 ECA settings (exchange on every pair x<y, shift/"
          "rescale on every 23rd); (B) seeded random binary event matrices "
          "T<=40, N<=5, 0..8 events per series (forced end events, copied = "
          "simultaneous events, periodic series, shifted copies; dtypes int/"
          "float/int8/bool), index or irregular increasing dyadic time "
          "stamps, taumax in {inf,0,.5,1,2,3,5}, lag in {0,.5,1,2} (integer "
          "values also passed as int): static ES/ECA on every column pair vs "
          "the reference, exchange, common time shift, time rescaling (ES, "
          "taumax=inf); event_series_analysis('ES') under all 6 "
          "symmetrisations = the symmetrisation table applied to the static "
          "pairwise library values; event_series_analysis('ECA') 'directed' "
          "for the 3 window types vs the reference and mean/max/min = table "
          "applied to the library's directed matrix; advanced/retarded "
          "instance windows = static precursor/trigger rates; the first "
          "1200 (quick) / 8000 (thorough) matrices are not time limited; (C) "
          "make_event_matrix / EventSeries(threshold_method=..) on integer "
          "and dyadic data with ties on the threshold for scalar / "
          "per-variable / missing methods, values, types; (D) "
          "EventSeriesClimateNetwork.similarity_measure() = |matrix of the "
          "EventSeries instance| in float32. Oracle: loop evaluation of the "
          "counting formulas in pvm/ref/events.py; ES compared to 1e-9, ECA "
          "rates (float32 in the library) to 1e-6; every directed value and "
          "the total ES strength Q(x|y)+Q(y|x) must lie in [0,1]. Undefined "
          "values (no events / fewer than 3 events for ES / every event "
          "excluded by the ECA boundary rule) only must not be finite outside"
          " [0,1]; exceptions there are counted, not reported. non-trivial ="
          " distinct (event times x, event times y, taumax, lag, measure) "
          "whose reference value is defined with at least one non-zero output"
          " (ES) / at least one rate >0 and one <1 (ECA); for thresholding: "
          "distinct (data, spec) with both events and non-events."),
    floors={"quick": {"es_defined": 20000, "eca_defined": 50000,
                      "es_doublecount": 400, "es_simultaneous": 10000,
                      "eca_extra_excluded": 30000, "exchange_checked": 40000,
                      "shift_checked": 8000, "rescale_checked": 1000,
                      "long_records": 12,
                      "matrix_es": 3000, "matrix_eca": 5000,
                      "instance_vs_static": 400, "mem_compared": 150,
                      "mem_tie_on_threshold": 100, "climnet_compared": 10,
                      "climnet_nonzero": 8},
            "thorough": {"es_defined": 400000, "eca_defined": 800000,
                         "es_doublecount": 8000, "es_simultaneous": 200000,
                         "eca_extra_excluded": 500000,
                         "exchange_checked": 600000,
                         "shift_checked": 60000, "rescale_checked": 8000,
                         "matrix_es": 12000, "matrix_eca": 18000,
                         "instance_vs_static": 1800, "mem_compared": 1500,
                         "mem_tie_on_threshold": 1000,
                         "climnet_compared": 50, "climnet_nonzero": 40}},
    exhaustive_subspaces={
        "quick": ["ordered pairs of binary sequences of equal length 1..7 "
                  "(21844 pairs) x 5 ES and 7 ECA parameter settings"],
        "thorough": ["ordered pairs of binary sequences of equal length 1..9 "
                     "(349524 pairs) x 5 ES and 7 ECA parameter settings"]},
    assumptions=[
        "time stamps, lags, taumax, shifts and scale factors are integers or "
        "dyadic rationals, so every comparison of time differences is exact "
        "in float64 (and in the int16 index arithmetic for ts=None)",
        "ECA boundary rule (events within lag+deltaT of the first/last event "
        "of their own series are not counted) and ES conventions (boundary "
        "events not counted, 1/2 per simultaneous pair, -1/2 per "
        "double-counted coincidence, norm sqrt((s_x-2)(s_y-2)); for lag!=0 "
        "the second series / the variable with the larger index is shifted) "
        "are the library's documented/readable conventions and are taken as "
        "the definition",
        "np.quantile / np.median define the thresholds of make_event_matrix",
        "lags are non-negative for ECA; negative lags are used for ES only "
        "in the exchange relation ES(y,x,-lag)=swap ES(x,y,lag)",
        "ClimateNetwork stores |similarity| as float32 (sign of 'antisym' "
        "is lost there by that class's convention); the diagonal of the "
        "analysis matrix is not examined (not defined by the docs)",
        "an exception for a series without events (ECA: IndexError) is "
        "treated as 'undefined', not as a violation"],
    technique="reference model (counting loops) + metamorphic relations",
    level_text=("exhaustive agreement with the counting formulas on all pairs"
                " of short binary sequences and seeded random agreement on "
                "event matrices up to T=40, N=5"),
    level_note="trusts pvm/ref/events.py and numpy",
)

META["rule"] += (
    " " + 'Added after the second round of seeded changes: epoch-sized common time shifts (2^24 .. 2^40, POSIX seconds, Julian day); event matrices handed over as int8/int32/int64/float64, Fortran-ordered, strided or read-only; records of 32773 .. 70000 samples with a few dozen late events (index time beyond 16 bit) through both static functions and the N x N analysis.')

META["rule"] += (
    " " + 'Added after the third round: 20 % of the random cases use a negative lag, in particular lag = -taumax.')

META["rule"] += (
    " " + "Added after the fifth round: a quarter of the rescaling relations and a third of the unit changes use factors 2^-40 .. 2^30; taumax = 0 (float and int) through EventSeriesClimateNetwork (120 / 1200 such networks); a Monte-Carlo significance query precedes the analysis matrices on a fifth (ES) / a third (ECA) of the small objects, the caller's event matrix must stay what it was.")

META["rule"] += (
    " " + 'Added after the sixth round: 12 % of the random cases put the events of one series early and of the others late, with a lag of that size.')

META["rule"] += (
    " " + 'Added after the seventh round: a silent series is answered the same way whichever series it is; decimal quantile levels k/(T-1) on records of 126 .. 1001 samples; the p_value option of the climate network class.')

META["rule"] += (
    " " + 'Added after the eighth round: event coincidence analysis with only one of the two time axes given.')

_SAMPLED = {"ES": 0, "ECA": 0}

ES_SETTINGS = [(INF, 0.0), (1.0, 0.0), (2.0, 1.0)]
ES_SETTINGS_IRR = [(INF, 0.0), (1.0, 0.5)]
ECA_SETTINGS = [(0.0, 0.0), (1.0, 0.0), (2.0, 0.0), (1.0, 1.0), (0.0, 1.0)]
ECA_SETTINGS_IRR = [(1.0, 0.5), (2.0, 0.0)]
IRR_STEPS = [1.0, 0.5, 2.0, 1.0, 0.25, 3.0, 1.0, 0.5, 2.0, 1.5]
SYM_ES = ["directed", "symmetric", "antisym", "mean", "max", "min"]
SYM_ECA = ["directed", "mean", "max", "min"]
WINDOWS = ["retarded", "advanced", "symmetric"]
ECA_NAMES = ["precursorXY", "triggerXY", "precursorYX", "triggerYX"]


# ---------------------------------------------------------------------------
def _want(ctx, cid):
    """replay filter: events carry sub-case ids '<case>:<sub>'"""
    oc = ctx.only_case
    return oc is None or str(oc) == cid or str(oc).startswith(cid + ":")


def _tscls(ts):
    return "ts=index" if ts is None else "ts=given"


def _es_opt(ts, taumax, lag):
    return (f"{_tscls(ts)}:taumax={'inf' if taumax == INF else 'finite'}:"
            f"lag={'0' if lag == 0 else ('pos' if lag > 0 else 'neg')}")


def _eca_opt(ts, taumax, lag):
    return (f"{_tscls(ts)}:deltaT={'0' if taumax == 0 else 'pos'}:"
            f"lag={'0' if lag == 0 else 'pos'}")


def _num(v):
    try:
        return float(v)
    except Exception:   # noqa
        return None


def _bad_range(v, lo=0.0, hi=1.0):
    """finite and outside [lo,hi]"""
    f = _num(v)
    if f is None:
        return True
    return bool(np.isfinite(f) and (f < lo - 1e-12 or f > hi + 1e-12))


def _times(x, ts):
    x = np.asarray(x)
    tt = np.arange(len(x), dtype=float) if ts is None else np.asarray(ts)
    return [float(v) for v in tt[x != 0]]


def _close(a, b, tol):
    f = _num(a)
    return f is not None and np.isfinite(f) and abs(f - b) <= tol


def _same_out(a, b, tol):
    """two library outputs identical up to tol, nan == nan"""
    for u, v in zip(a, b):
        u, v = _num(u), _num(v)
        if u is None or v is None:
            return False
        if np.isnan(u) and np.isnan(v):
            continue
        if not abs(u - v) <= tol:
            return False
    return True


# ---------------------------------------------------------------------------
# static ES
# ---------------------------------------------------------------------------
def check_es(ctx, ES, x, y, ts, taumax, lag, cid, relations=False,
             exchange=False):
    """Compare EventSeries.event_synchronization with the reference."""
    opt = _es_opt(ts, taumax, lag)
    tx, ty = _times(x, ts), _times(y, ts)
    case = {"x": x, "y": y, "ts": ts, "taumax": taumax, "lag": lag}
    with warnings.catch_warnings():
        warnings.simplefilter("ignore")
        ok, out = ctx.call(ES.event_synchronization, x, y, ts1=ts, ts2=ts,
                           taumax=taumax, lag=lag)
    ctx.evals()
    r = ref.es(tx, ty, taumax, lag)
    if not ok:
        if r is None:
            ctx.count("es_undefined_raises")
            return None
        ctx.violation(f"event_synchronization:{opt}:raises:"
                      f"{type(out).__name__}", {**case, "exc": repr(out)},
                      cid)
        return None
    if (not isinstance(out, tuple)) or len(out) != 2:
        ctx.violation(f"event_synchronization:{opt}:bad-return-shape",
                      {**case, "lib": repr(out)}, cid)
        return None
    if any(_bad_range(v) for v in out) or _bad_range(out[0] + out[1]):
        # directed strengths and the total strength Q = Q(x|y)+Q(y|x)
        ctx.violation(f"event_synchronization:{opt}:out-of-range",
                      {**case, "lib": out, "ref": r}, cid)
        return out, r
    if r is None:
        ctx.count("es_undefined")
        if len(tx) == 0 or len(ty) == 0:
            # a series without any event: whatever the library answers for
            # "undefined", it is the same answer whichever of the two series
            # is the silent one and whether or not the other one has events
            z = np.zeros_like(np.asarray(x))
            with warnings.catch_warnings():
                warnings.simplefilter("ignore")
                okz, oz = ctx.call(ES.event_synchronization, z, z, ts1=ts,
                                   ts2=ts, taumax=taumax, lag=lag)
            ctx.count("es_silent_series")
            if okz and not np.array_equal(
                    np.asarray(out, dtype=float),
                    np.asarray(oz, dtype=float), equal_nan=True):
                ctx.violation(f"event_synchronization:{opt}:silent-series-"
                              "answered-differently",
                              {**case, "lib": out, "both_silent": oz}, cid)
        return out, r
    ctx.count("es_defined")
    if r[0] + r[1] > 0:
        ctx.nontrivial(("ES", tuple(tx), tuple(ty), taumax, lag))
    plain = ref.es_plain(tx, ty, taumax, lag)
    if plain != r:
        ctx.count("es_doublecount")
    if set(tx[1:-1]) & set(t + lag for t in ty[1:-1]):
        ctx.count("es_simultaneous")
    if not (_close(out[0], r[0], 1e-9) and _close(out[1], r[1], 1e-9)):
        ctx.violation(f"event_synchronization:{opt}:differs",
                      {**case, "lib": out, "ref": r, "ref_plain": plain},
                      cid)
        return out, r
    ctx.maxstat("es_abs_err", max(abs(out[0] - r[0]), abs(out[1] - r[1])))
    if _SAMPLED["ES"] < 2 and plain != r:
        _SAMPLED["ES"] += 1
        ctx.sample({"measure": "ES", "tx": tx, "ty": ty, "taumax": taumax,
                    "lag": lag, "lib": out, "ref": r,
                    "without_double_count_correction": plain})
    if exchange or relations:
        with warnings.catch_warnings():
            warnings.simplefilter("ignore")
            ok, o2 = ctx.call(ES.event_synchronization, y, x, ts1=ts, ts2=ts,
                              taumax=taumax, lag=-lag)
        ctx.evals()
        if not ok:
            ctx.violation(f"event_synchronization:{opt}:exchange:raises:"
                          f"{type(o2).__name__}", {**case, "exc": repr(o2)},
                          cid)
        elif not _same_out(out, (o2[1], o2[0]), 1e-9):
            ctx.violation(f"event_synchronization:{opt}:exchange",
                          {**case, "xy": out, "yx(-lag)": o2}, cid)
        ctx.count("exchange_checked")
    if relations:
        rr = ctx.rng("esrel", cid)
        # --- common time shift ---------------------------------------
        if ts is None:
            k = int(rr.integers(1, 6))
            pad = np.zeros(k, dtype=np.asarray(x).dtype)
            x2, y2, ts2 = np.concatenate([pad, x]), \
                np.concatenate([pad, y]), None
            shift = k
        else:
            shift = float(rr.integers(-40, 41)) / 4.0
            if rr.random() < 0.3:
                # epoch-sized offsets (POSIX seconds, day numbers): still
                # exact in double precision for quarter-step stamps
                shift = float(rr.choice([2.0 ** 24, 2.0 ** 25 + 1, 1.7e9,
                                         -2.0 ** 31, 2.0 ** 40, 2451545.0]))
                ctx.count("shift_epoch_sized")
            tsf = np.asarray(ts, dtype=float)
            if not np.array_equal((tsf + shift) - shift, tsf):
                # (stamps in a unit in which this shift is not a sum of
                #  representable numbers: shift by a multiple of the largest
                #  stamp instead, which is exact)
                shift = float(np.abs(tsf).max()) * float(rr.integers(1, 5))
                if not np.array_equal((tsf + shift) - shift, tsf):
                    shift = 0.0
                ctx.count("shift_in_units_of_the_stamps")
            x2, y2, ts2 = x, y, tsf + shift
        with warnings.catch_warnings():
            warnings.simplefilter("ignore")
            ok, o3 = ctx.call(ES.event_synchronization, x2, y2, ts1=ts2,
                              ts2=ts2, taumax=taumax, lag=lag)
        ctx.evals()
        if not ok or not _same_out(out, o3, 1e-9):
            ctx.violation(f"event_synchronization:{opt}:time-shift",
                          {**case, "shift": shift, "lib": out,
                           "shifted": o3 if ok else repr(o3)}, cid)
        ctx.count("shift_checked")
        # --- rescaling of time, unbounded window -----------------------
        if taumax == INF:
            c = float(2.0 ** rr.integers(-3, 4))
            if c == 1.0:
                c = 8.0
            if rr.random() < 0.25:
                # a change of units by many orders of magnitude (seconds <->
                # nanoseconds, years): the rule knows no time scale
                c = float(2.0 ** rr.choice([-40, -30, -20, 20, 30]))
                ctx.count("rescale_by_orders_of_magnitude")
            tsc = (np.arange(len(x), dtype=float) if ts is None
                   else np.asarray(ts, dtype=float)) * c
            with warnings.catch_warnings():
                warnings.simplefilter("ignore")
                ok, o4 = ctx.call(ES.event_synchronization, x, y, ts1=tsc,
                                  ts2=tsc, taumax=INF, lag=lag * c)
            ctx.evals()
            if not ok or not _same_out(out, o4, 1e-9):
                ctx.violation(f"event_synchronization:{opt}:time-rescale",
                              {**case, "factor": c, "lib": out,
                               "rescaled": o4 if ok else repr(o4)}, cid)
            ctx.count("rescale_checked")
    return out, r


# ---------------------------------------------------------------------------
# static ECA
# ---------------------------------------------------------------------------
def check_eca(ctx, ES, x, y, ts, taumax, lag, cid, relations=False,
              exchange=False):
    opt = _eca_opt(ts, taumax, lag)
    tx, ty = _times(x, ts), _times(y, ts)
    case = {"x": x, "y": y, "ts": ts, "deltaT": taumax, "lag": lag}
    kts = {"ts1": ts, "ts2": ts}
    ro = ctx.rng("ecaaxes", cid)
    if ts is not None and not relations and not exchange and \
            ro.random() < 0.3:
        # only one of the two time axes given: the other series is stamped
        # with its sample numbers (the documented default of each axis)
        if ro.random() < 0.5:
            kts = {"ts1": ts}
            ty = _times(y, None)
        else:
            kts = {"ts2": ts}
            tx = _times(x, None)
        opt += ":one-axis-given"
        ctx.count("eca_one_time_axis_given")
    with warnings.catch_warnings():
        warnings.simplefilter("ignore")
        ok, out = ctx.call(ES.event_coincidence_analysis, x, y, taumax,
                           lag=lag, **kts)
    ctx.evals()
    if not ok:
        if not tx or not ty:
            ctx.count("eca_undefined_raises")    # no events: undefined
            return None
        ctx.violation(f"event_coincidence_analysis:{opt}:raises:"
                      f"{type(out).__name__}", {**case, "exc": repr(out)},
                      cid)
        return None
    if (not isinstance(out, tuple)) or len(out) != 4:
        ctx.violation(f"event_coincidence_analysis:{opt}:bad-return-shape",
                      {**case, "lib": repr(out)}, cid)
        return None
    r = ref.eca(tx, ty, taumax, lag)
    if any(_bad_range(v) for v in out):
        ctx.violation(f"event_coincidence_analysis:{opt}:out-of-range",
                      {**case, "lib": out, "ref": r}, cid)
        return out
    defined = [v for v in r if v is not None]
    if not defined:
        ctx.count("eca_undefined")
        return out
    ctx.count("eca_defined")
    if any(v > 0 for v in defined) and any(v < 1 for v in defined):
        ctx.nontrivial(("ECA", tuple(tx), tuple(ty), taumax, lag))
    if not (lag == 0 and taumax == 0):
        w = lag + taumax
        if (sum(1 for t in tx if t <= tx[0] + w) > 1 or
                sum(1 for t in ty if t >= ty[-1] - w) > 1):
            ctx.count("eca_extra_excluded")
    bad = [ECA_NAMES[k] for k in range(4)
           if r[k] is not None and not _close(out[k], r[k], 1e-6)]
    if bad:
        kind = "+".join(sorted({b[:-2] for b in bad}))
        ctx.violation(f"event_coincidence_analysis:{opt}:{kind}-differs",
                      {**case, "lib": out, "ref": r, "outputs": bad}, cid)
        return out
    if _SAMPLED["ECA"] < 2 and len(tx) > 3 and r[0] is not None \
                and 0 < r[0] < 1:
        _SAMPLED["ECA"] += 1
        ctx.sample({"measure": "ECA", "tx": tx, "ty": ty, "deltaT": taumax,
                    "lag": lag, "lib": out, "ref": r})
    if exchange or relations:
        with warnings.catch_warnings():
            warnings.simplefilter("ignore")
            ok, o2 = ctx.call(ES.event_coincidence_analysis, y, x, taumax,
                              ts1=ts, ts2=ts, lag=lag)
        ctx.evals()
        if not ok:
            ctx.violation(f"event_coincidence_analysis:{opt}:exchange:raises:"
                          f"{type(o2).__name__}", {**case, "exc": repr(o2)},
                          cid)
        elif not _same_out(out, (o2[2], o2[3], o2[0], o2[1]), 1e-9):
            ctx.violation(f"event_coincidence_analysis:{opt}:exchange",
                          {**case, "xy": out, "yx": o2}, cid)
        ctx.count("exchange_checked")
    if relations:
        rr = ctx.rng("ecarel", cid)
        if ts is None:
            k = int(rr.integers(1, 6))
            pad = np.zeros(k, dtype=np.asarray(x).dtype)
            x2, y2, ts2 = np.concatenate([pad, x]), \
                np.concatenate([pad, y]), None
            shift = k
        else:
            shift = float(rr.integers(-40, 41)) / 4.0
            if rr.random() < 0.3:
                # epoch-sized offsets (POSIX seconds, day numbers): still
                # exact in double precision for quarter-step stamps
                shift = float(rr.choice([2.0 ** 24, 2.0 ** 25 + 1, 1.7e9,
                                         -2.0 ** 31, 2.0 ** 40, 2451545.0]))
                ctx.count("shift_epoch_sized")
            tsf = np.asarray(ts, dtype=float)
            if not np.array_equal((tsf + shift) - shift, tsf):
                # (stamps in a unit in which this shift is not a sum of
                #  representable numbers: shift by a multiple of the largest
                #  stamp instead, which is exact)
                shift = float(np.abs(tsf).max()) * float(rr.integers(1, 5))
                if not np.array_equal((tsf + shift) - shift, tsf):
                    shift = 0.0
                ctx.count("shift_in_units_of_the_stamps")
            x2, y2, ts2 = x, y, tsf + shift
        with warnings.catch_warnings():
            warnings.simplefilter("ignore")
            ok, o3 = ctx.call(ES.event_coincidence_analysis, x2, y2, taumax,
                              ts1=ts2, ts2=ts2, lag=lag)
        ctx.evals()
        if not ok or not _same_out(out, o3, 1e-9):
            ctx.violation(f"event_coincidence_analysis:{opt}:time-shift",
                          {**case, "shift": shift, "lib": out,
                           "shifted": o3 if ok else repr(o3)}, cid)
        ctx.count("shift_checked")
    return out


# ---------------------------------------------------------------------------
# matrices
# ---------------------------------------------------------------------------
def _cmp_matrix(M, S, tol, lo, hi):
    """-> (list of differing [i,j], list of out-of-range [i,j]); S holds
    None where undefined; diagonal not examined."""
    n = len(S)
    diff, oor = [], []
    for i in range(n):
        for j in range(n):
            if i == j:
                continue
            if S[i][j] is None:
                if _bad_range(M[i, j], lo, hi):
                    oor.append([i, j])
            elif not _close(M[i, j], S[i][j], tol):
                diff.append([i, j])
    return diff, oor


SYM_RANGE = {"directed": (0, 1), "symmetric": (0, 1), "antisym": (-1, 1),
             "mean": (0, 1), "max": (0, 1), "min": (0, 1)}


def _lib_directed(A, Dref):
    """library's directed values where the reference is defined"""
    n = len(Dref)
    return [[None if (i == j or Dref[i][j] is None or
                      not np.isfinite(A[i, j])) else float(A[i, j])
             for j in range(n)] for i in range(n)]


def check_matrix(ctx, ES, M, ts, taumax, lag, cid, tm_s=None, lag_s=None):
    """event_series_analysis of an EventSeries instance.

    ES: every unordered pair is first evaluated with the static function
    (checked against the reference in check_es, where a counting defect is
    reported); the matrix must then contain exactly those pairwise library
    values under each symmetrisation.  ECA: the instance has its own
    counting code, so the 'directed' matrix of every window type is compared
    with the reference; the other symmetrisations are compared with the
    symmetrised *library* directed matrix (so that a counting defect and a
    symmetrisation defect have different signatures)."""
    N = M.shape[1]
    tm_s = taumax if tm_s is None else tm_s
    lag_s = lag if lag_s is None else lag_s
    tsa = None if ts is None else np.asarray(ts, dtype=float)
    times = [_times(M[:, i], tsa) for i in range(N)]
    case = {"eventmatrix_T": M.T, "ts": ts, "taumax": taumax, "lag": lag}
    # the event matrix in a representation a caller may hold it in (same
    # zeros and ones: other integer / float type, Fortran order, strided
    # view, read-only)
    from pvm.gen.held import as_held
    rh = ctx.rng("held", cid)
    Mh = np.asarray(M).astype(str(rh.choice(["i8", "i8", "i1", "f8", "i4"])))
    Mh, htag = as_held(rh, Mh, forms=("c", "c", "f", "view", "readonly"))
    ctx.count("input_held_as:" + htag + ":" + Mh.dtype.name)
    ok, obj = ctx.call(ES, Mh, timestamps=tsa, taumax=tm_s, lag=lag_s)
    if not ok:
        ctx.violation(f"EventSeries:{_tscls(ts)}:constructor-raises:"
                      f"{type(obj).__name__}", {**case, "exc": repr(obj)},
                      cid)
        return
    # ---- ES ---------------------------------------------------------
    # the instance always passes (float) time stamps to the static function
    tsi = np.arange(M.shape[0], dtype=float) if tsa is None else tsa
    D = [[None] * N for _ in range(N)]
    for i in range(N):
        for j in range(i + 1, N):
            res = check_es(ctx, ES, M[:, i], M[:, j], tsi, tm_s, lag_s,
                           f"{cid}:es:{i}:{j}", relations=True)
            if res is not None and res[1] is not None:
                D[i][j], D[j][i] = float(res[0][0]), float(res[0][1])
    # the symmetrisations are requested from ONE object in a random order
    # (and some of them twice): each answer must be right whatever was
    # asked before - a Monte-Carlo significance query included (it works on
    # shuffled copies of the event series)
    ro = ctx.rng("symorder", cid)
    Mh_before = np.array(Mh, copy=True)

    def significance_first(method):
        np.random.seed(int(ro.integers(1 << 30)))
        kw = {} if method == "ES" else {
            "window_type": str(ro.choice(WINDOWS))}
        with warnings.catch_warnings():
            warnings.simplefilter("ignore")
            oks, sg = ctx.call(obj.event_analysis_significance,
                               method=method, surrogate="shuffle", n_surr=2,
                               symmetrization="directed", **kw)
        ctx.evals()
        ctx.count("significance_asked_before_analysis")
        if not oks:
            ctx.count("significance_raises:" + type(sg).__name__)
        if not np.array_equal(np.asarray(Mh), Mh_before):
            ctx.violation("event_analysis_significance:" + method +
                          ":caller-event-matrix-modified", case, cid)
    if N <= 4 and M.shape[0] <= 40 and ro.random() < 0.2 and \
            all(times):
        significance_first("ES")
    order = [SYM_ES[i] for i in ro.permutation(len(SYM_ES))]
    order += [SYM_ES[i] for i in ro.permutation(len(SYM_ES))[:3]]
    for sym in order:
        with warnings.catch_warnings():
            warnings.simplefilter("ignore")
            ok, A = ctx.call(obj.event_series_analysis, method="ES",
                             symmetrization=sym)
        ctx.evals()
        sig = f"event_series_analysis:ES:{sym}"
        if not ok:
            ctx.violation(f"{sig}:raises:{type(A).__name__}",
                          {**case, "exc": repr(A)}, cid)
            continue
        A = np.asarray(A, dtype=float)
        if A.shape != (N, N):
            ctx.violation(f"{sig}:bad-shape", {**case, "shape": A.shape},
                          cid)
            continue
        S = ref.symmetrise(D, sym)
        diff, oor = _cmp_matrix(A, S, 1e-12, *SYM_RANGE[sym])
        if diff:
            ctx.violation(f"{sig}:differs",
                          {**case, "at": diff[:4], "lib": A,
                           "pairwise_static_symmetrised": S}, cid)
        if oor:
            ctx.violation(f"{sig}:out-of-range", {**case, "at": oor[:4],
                                                  "lib": A}, cid)
        if any(v is not None and v != 0 for row in S for v in row):
            ctx.count("matrix_es")
    # ---- ECA --------------------------------------------------------
    if taumax == INF:
        return
    empty = any(not t for t in times)
    directed = {}
    if N <= 4 and M.shape[0] <= 40 and ro.random() < 0.3 and not empty:
        significance_first("ECA")
    for win in WINDOWS:
        Dref = ref.directed_matrix(
            times, lambda a, b: ref.eca_pair(a, b, taumax, lag, win))
        Dlib = None
        for sym in SYM_ECA:
            with warnings.catch_warnings():
                warnings.simplefilter("ignore")
                ok, A = ctx.call(obj.event_series_analysis, method="ECA",
                                 symmetrization=sym, window_type=win)
            ctx.evals()
            sig = f"event_series_analysis:ECA:{win}:{sym}"
            if not ok:
                if empty:
                    ctx.count("eca_matrix_undefined_raises")
                    continue
                ctx.violation(f"{sig}:raises:{type(A).__name__}",
                              {**case, "exc": repr(A)}, cid)
                continue
            A = np.asarray(A, dtype=float)
            if A.shape != (N, N):
                ctx.violation(f"{sig}:bad-shape",
                              {**case, "shape": A.shape}, cid)
                continue
            if sym == "directed":
                S, tol, what = Dref, 1e-6, "ref"
                Dlib = _lib_directed(A, Dref)
                directed[win] = A
            else:
                if Dlib is None:
                    continue
                S, tol = ref.symmetrise(Dlib, sym), 1e-9
                what = "library_directed_symmetrised"
            diff, oor = _cmp_matrix(A, S, tol, 0, 1)
            if diff:
                ctx.violation(f"{sig}:differs", {**case, "at": diff[:4],
                                                 "lib": A, what: S}, cid)
            if oor:
                ctx.violation(f"{sig}:out-of-range",
                              {**case, "at": oor[:4], "lib": A}, cid)
            if any(v is not None and v != 0 for row in S for v in row):
                ctx.count("matrix_eca")
    # ---- instance windows == static function ---------------------------
    if not empty and "advanced" in directed and "retarded" in directed:
        adv, ret = directed["advanced"], directed["retarded"]
        with warnings.catch_warnings():
            warnings.simplefilter("ignore")
            oks, st = ctx.call(ES.event_coincidence_analysis, M[:, 0],
                               M[:, 1], tm_s, ts1=tsa, ts2=tsa, lag=lag_s)
        ctx.evals()
        if oks:
            a = (adv[0, 1], ret[0, 1], adv[1, 0], ret[1, 0])
            if not _same_out(a, st, 1e-9):
                ctx.violation("event_series_analysis:ECA:advanced/retarded"
                              "!=static-precursor/trigger",
                              {**case, "matrix": a, "static": st}, cid)
            ctx.count("instance_vs_static")


# ---------------------------------------------------------------------------
# thresholding
# ---------------------------------------------------------------------------
def _arg_opt(exc, opt):
    """An argument-validation error names the offending argument in its
    message: keep only that argument's class in the signature."""
    msg = str(exc)
    parts = dict(p.split("=") for p in opt.split(":"))
    for arg, key in (("'threshold_values'", "values"),
                     ("'threshold_method'", "method"),
                     ("'threshold_types'", "types")):
        if arg in msg:
            return f"{key}={parts[key]}"
    return opt


def check_threshold(ctx, ES, k):
    r = ctx.rng("mem", k)
    cid = f"mem:{k}"
    if not _want(ctx, cid):
        return
    N = int(r.integers(1, 6))
    T = int(r.integers(N + 2, 31))
    style = r.choice(["int", "dyadic", "fewlevels"])
    if style == "int":
        data = r.integers(-5, 6, (T, N)).astype(float)
    elif style == "dyadic":
        data = r.integers(-64, 65, (T, N)) / 8.0
    else:
        data = r.integers(0, 3, (T, N)).astype(float)
    if r.random() < 0.2:
        data = data.astype(int) if style != "dyadic" else data
    decimal_levels = False
    if r.random() < 0.2:
        # record lengths and decimal quantile levels for which the level
        # falls exactly on a sample ((T - 1) q whole): nearly tie-free data
        T = int(r.choice([126, 251, 501, 1001]))
        N = min(N, 3)
        data = r.integers(-40000, 40001, (T, N)) / 64.0
        decimal_levels = True
        ctx.count("quantile_levels_on_a_sample")
    # ---- per-variable specification --------------------------------
    mk = r.choice(["quantile", "value", "mixed"])
    if mk == "mixed" and N > 1:
        methods = [str(v) for v in r.choice(["quantile", "value"], N)]
        if len(set(methods)) == 1:
            methods[0] = "value" if methods[0] == "quantile" else "quantile"
        m_arg = np.array(methods) if r.random() < 0.5 else list(methods)
        mcls = "mixed"
    else:
        mk = "quantile" if mk == "mixed" else str(mk)
        methods = [mk] * N
        if r.random() < 0.25:
            m_arg, mcls = list(methods), mk + "-list"
        else:
            m_arg, mcls = mk, mk
    vk = r.choice(["none", "scalar", "float-array", "int-array"],
                  p=[0.2, 0.25, 0.45, 0.1])
    cols = [data[:, i].astype(float) for i in range(N)]

    def pick(i):
        if methods[i] == "quantile" and decimal_levels:
            # a three-decimal level k / (T - 1)
            return round(int(r.integers(1, T - 1)) / float(T - 1), 3)
        if methods[i] == "quantile":
            return float(r.choice([0.0, 0.125, 0.25, 0.5, 0.75, 0.875, 1.0,
                                   float(r.integers(0, 65)) / 64.0]))
        c = cols[i]
        u = np.unique(c)
        if r.random() < 0.6 or len(u) < 2:
            return float(r.choice(u))          # ties on the threshold
        j = int(r.integers(0, len(u) - 1))
        return float((u[j] + u[j + 1]) / 2.0)
    if vk == "none":
        values, v_arg = [None] * N, None
    elif vk == "scalar":
        if "value" in methods:
            lo = max(c.min() for c, m in zip(cols, methods) if m == "value")
            hi = min(c.max() for c, m in zip(cols, methods) if m == "value")
            if "quantile" in methods:
                lo, hi = max(lo, 0.0), min(hi, 1.0)
            if lo > hi:
                ctx.count("rejected")
                return
            v = float(np.round(r.uniform(lo, hi) * 4) / 4.0)
            v = min(max(v, lo), hi)
        else:
            v = pick(0)
        values = [v] * N
        v_arg = v if r.random() < 0.7 else (
            int(v) if float(v).is_integer() else v)
        vk = "scalar-int" if isinstance(v_arg, int) else "scalar"
    elif vk == "float-array":
        values = [pick(i) for i in range(N)]
        v_arg = np.array(values) if r.random() < 0.5 else list(values)
    else:
        values = []
        for i in range(N):
            if methods[i] == "quantile":
                values.append(int(r.integers(0, 2)))
            else:
                values.append(int(r.choice(np.unique(np.round(cols[i])))))
                if not cols[i].min() <= values[-1] <= cols[i].max():
                    ctx.count("rejected")
                    return
        v_arg = list(values) if r.random() < 0.5 else np.array(values)
    tk = r.choice(["none", "above", "below", "array"])
    if tk == "none":
        types, t_arg = [None] * N, None
    elif tk == "array":
        types = [str(v) for v in r.choice(["above", "below"], N)]
        t_arg = list(types) if r.random() < 0.5 else np.array(types)
    else:
        types, t_arg = [str(tk)] * N, str(tk)
    opt = f"method={mcls}:values={vk}:types={tk}"
    case = {"data_T": data.T, "threshold_method": m_arg,
            "threshold_values": v_arg, "threshold_types": t_arg}
    E, thr, typ = ref.event_matrix(np.asarray(data, dtype=float), methods,
                                   values, types)
    with warnings.catch_warnings():
        warnings.simplefilter("ignore")
        ok, A = ctx.call(ES.make_event_matrix, data,
                         threshold_method=m_arg, threshold_values=v_arg,
                         threshold_types=t_arg)
    ctx.evals()
    if not ok:
        ctx.violation(f"make_event_matrix:{_arg_opt(A, opt)}:raises:"
                      f"{type(A).__name__}", {**case, "exc": repr(A)}, cid)
        return
    A = np.asarray(A)
    ctx.count("mem_compared")
    if 0 < E.sum() < E.size:
        ctx.nontrivial(("MEM", data.tobytes().hex(), str(data.dtype), opt,
                        tuple(thr), tuple(typ)))
    if A.shape != E.shape or not np.array_equal(A, E):
        col = None
        if A.shape == E.shape:
            col = int(np.argwhere(A != E)[0][1])
            opt = (f"column:method={methods[col]}:value="
                   f"{'none' if values[col] is None else 'given'}:type="
                   f"{types[col] or 'none'}")
        ctx.violation(f"make_event_matrix:{opt}:differs",
                      {**case, "column": col, "ref_thresholds": thr,
                       "ref_types": typ, "lib_T": A.T, "ref_T": E.T}, cid)
        return
    if any((cols[i] == thr[i]).any() for i in range(N)):
        ctx.count("mem_tie_on_threshold")
    # ---- the constructor path ------------------------------------------
    with warnings.catch_warnings():
        warnings.simplefilter("ignore")
        ok, obj = ctx.call(ES, data, threshold_method=m_arg,
                           threshold_values=v_arg, threshold_types=t_arg)
    ctx.evals()
    if not ok:
        ctx.violation(f"EventSeries:threshold:{_arg_opt(obj, opt)}:raises:"
                      f"{type(obj).__name__}", {**case, "exc": repr(obj)},
                      cid)
    elif not np.array_equal(np.asarray(obj.get_event_matrix()), E):
        ctx.violation(f"EventSeries:threshold:{opt}:differs", case, cid)


# ---------------------------------------------------------------------------
# climate network
# ---------------------------------------------------------------------------
def check_climnet(ctx, ES, k):
    from pyunicorn.core import GeoGrid
    from pyunicorn.climate import ClimateData
    from pyunicorn.climate.eventseries_climatenetwork import \
        EventSeriesClimateNetwork as ESCN
    cid = f"cn:{k}"
    if not _want(ctx, cid):
        return
    r = ctx.rng("cn", k)
    N = int(r.integers(2, 6))
    T = int(r.integers(N + 6, 41))
    M = np.zeros((T, N))
    for i in range(N):
        # (at least one sample without an event: a matrix of ones only is
        #  refused by the constructor as "not in correct format")
        M[r.choice(T, size=int(r.integers(3, min(9, T))), replace=False),
          i] = 1
    method = str(r.choice(["ES", "ECA"]))
    # (0 = simultaneous events / instantaneous coincidences only: a legal
    #  value that is "false"; whole numbers also as Python ints)
    taumax = float(r.choice([0, 1, 2, 3])) if method == "ECA" else \
        float(r.choice([INF, 0, 1, 2]))
    lag = float(r.choice([0, 0, 1]))
    if taumax == 0:
        ctx.count("climnet_taumax_zero")
    if r.random() < 0.4:
        lag = int(lag)
        if taumax != INF:
            taumax = int(taumax)
    sym = str(r.choice(SYM_ES if method == "ES" else SYM_ECA))
    win = str(r.choice(WINDOWS))
    case = {"eventmatrix_T": M.T, "method": method, "taumax": taumax,
            "lag": lag, "symmetrization": sym, "window_type": win}
    sig = f"EventSeriesClimateNetwork:{method}"

    # the documented option p_value: strengths that are not significant
    # (Monte-Carlo test on a few shuffle surrogates) are zero in the
    # similarity matrix; the analysis matrix of the object stays what it is
    pkw = {}
    if r.random() < 0.3 and taumax != 0:
        pkw = {"p_value": float(r.choice([0.05, 0.5, 1.0])), "n_surr": 4}
        ctx.count("climnet_with_p_value")

    def build():
        g = GeoGrid(np.arange(float(T)), np.linspace(-40, 40, N),
                    np.linspace(0, 90, N), silence_level=3)
        d = ClimateData(observable=M.copy(), grid=g, time_cycle=1,
                        silence_level=3)
        np.random.seed(int(k))
        return ESCN(d, method=method, taumax=taumax, lag=lag,
                    symmetrization=sym, window_type=win, silence_level=3,
                    **pkw)
    with warnings.catch_warnings():
        warnings.simplefilter("ignore")
        ok, net = ctx.call(build)
        if ok:
            ok2, S = ctx.call(net.similarity_measure)
    ctx.evals()
    if not ok or not ok2:
        e = net if not ok else S
        ctx.violation(f"{sig}:raises:{type(e).__name__}",
                      {**case, "exc": repr(e)}, cid)
        return
    # reference: the EventSeries instance with the same parameters (its
    # matrix is verified in check_matrix); ClimateNetwork stores
    # |similarity| as float32 (its own convention)
    with warnings.catch_warnings():
        warnings.simplefilter("ignore")
        ok, R = ctx.call(lambda: ES(M.copy(), taumax=taumax, lag=lag)
                         .event_series_analysis(method=method,
                                                symmetrization=sym,
                                                window_type=win))
    if not ok:
        ctx.count("climnet_reference_raises")
        return
    R = np.abs(np.asarray(R, dtype=float))
    S = np.asarray(S, dtype=float)
    if pkw:
        # the object's own analysis matrix is not the thinned one
        with warnings.catch_warnings():
            warnings.simplefilter("ignore")
            ok3, E3 = ctx.call(net.event_series_analysis, method=method,
                               symmetrization=sym, window_type=win)
        E3 = np.abs(np.asarray(E3, dtype=float)) if ok3 else None
        if not ok3 or E3.shape != R.shape or not bool(np.all(
                (np.isnan(E3) & np.isnan(R)) | (np.abs(E3 - R) <= 1e-9))):
            ctx.violation(f"{sig}:p_value:analysis-matrix-of-the-object-"
                          "differs", {**case, **pkw}, cid)
        # every similarity entry is the strength or zero
        same = S.shape == R.shape and bool(np.all(
            (np.isnan(S) & np.isnan(R)) | (np.abs(S - R) <= 1e-6)
            | (S == 0)))
        if pkw["p_value"] == 1.0:
            # (nothing is "not significant" at p = 1)
            same = same and bool(np.all(
                (np.isnan(S) & np.isnan(R)) | (np.abs(S - R) <= 1e-6)))
        if not same:
            ctx.violation(f"{sig}:p_value:similarity-neither-strength-nor-"
                          "zero", {**case, **pkw, "lib": S,
                                   "abs_event_series_analysis": R}, cid)
        ctx.count("climnet_compared")
        return
    same = S.shape == R.shape and bool(np.all(
        (np.isnan(S) & np.isnan(R)) | (np.abs(S - R) <= 1e-6)))
    if not same:
        ctx.violation(f"{sig}:similarity-differs",
                      {**case, "lib": S, "abs_event_series_analysis": R},
                      cid)
    if np.any(R > 0):
        ctx.count("climnet_nonzero")
    if bool(net.directed) != (sym == "directed"):
        ctx.violation(f"{sig}:directed-flag", case, cid)
    ctx.count("climnet_compared")


# ---------------------------------------------------------------------------
# generators
# ---------------------------------------------------------------------------
def bits(code, n):
    return np.array([(code >> b) & 1 for b in range(n)], dtype=int)


def irregular(r, T):
    steps = r.choice([0.25, 0.5, 1.0, 1.0, 2.0, 3.0], size=T)
    t = np.cumsum(steps) + float(r.integers(-20, 21)) / 2.0
    return [float(v) for v in t]


def random_matrix(r):
    while True:
        T = int(r.integers(4, 41))
        N = int(r.integers(2, 6))
        M = np.zeros((T, N), dtype=int)
        for i in range(N):
            u = r.random()
            if u < 0.06:
                k = 0
            elif u < 0.2:
                k = int(r.integers(1, 3))
            else:
                k = int(r.integers(3, 9))
            k = min(k, T)
            if r.random() < 0.2 and T >= 8:       # periodic series
                p = int(r.integers(2, 5))
                pos = np.arange(int(r.integers(0, p)), T, p)[:8]
            else:
                pos = r.choice(T, size=k, replace=False)
            M[pos, i] = 1
            if r.random() < 0.3:
                M[0, i] = 1
            if r.random() < 0.3:
                M[T - 1, i] = 1
        if r.random() < 0.6:                      # simultaneous events
            a, b = r.choice(N, size=2, replace=False)
            ev = np.flatnonzero(M[:, a])
            if len(ev):
                take = ev[r.random(len(ev)) < 0.6]
                M[take, b] = 1
        if r.random() < 0.2:                      # one series = shifted copy
            a, b = r.choice(N, size=2, replace=False)
            M[:, b] = np.roll(M[:, a], int(r.integers(1, 3)))
        for i in range(N):                        # at most 8 events
            ev = np.flatnonzero(M[:, i])
            if len(ev) > 8:
                M[r.choice(ev, size=len(ev) - 8, replace=False), i] = 0
        if 0 < M.sum() < M.size:
            return M


def long_record_case(ctx, ES, k):
    """Records longer than 2^15 (e.g. a century of daily data) / 2^16 samples
    with a few dozen events, most of them late in the record: time indices
    beyond 16-bit ranges.  Static functions with index time and the N x N
    analysis against the reference on the event times."""
    cid = f"long:{k}"
    if not _want(ctx, cid):
        return
    r = ctx.rng("long", k)
    T = int(r.choice([32768 + 5, 36525, 40000, 65536 + 17, 70000]))
    ne = int(r.integers(12, 40))
    late = r.random() < 0.8
    lo = T // 2 if late else 0
    px = np.sort(r.choice(np.arange(lo, T), ne, replace=False))
    py = np.unique(np.clip(px + r.integers(-3, 4, ne), 0, T - 1))
    x = np.zeros(T, dtype=int)
    y = np.zeros(T, dtype=int)
    x[px], y[py] = 1, 1
    tx, ty = [float(v) for v in px], [float(v) for v in py]
    taumax = float(r.choice([2, 5, INF]))
    case = {"T": T, "events_x": px, "events_y": py, "taumax": taumax}
    ctx.count("long_records")
    with warnings.catch_warnings():
        warnings.simplefilter("ignore")
        ok, out = ctx.call(ES.event_synchronization, x, y, taumax=taumax)
        ctx.evals()
        want = ref.es(tx, ty, taumax, 0.0)
        if not ok:
            ctx.violation("event_synchronization:long-record:raises:"
                          f"{type(out).__name__}", {**case, "exc": repr(out)},
                          cid)
        elif want is not None and not (
                _close(out[0], want[0], 1e-12) and
                _close(out[1], want[1], 1e-12)):
            ctx.violation("event_synchronization:long-record:ne-counting-"
                          "formula", {**case, "lib": out, "ref": want}, cid)
        dT = float(r.choice([2, 5]))
        ok, out = ctx.call(ES.event_coincidence_analysis, x, y, dT)
        ctx.evals()
        want = ref.eca(tx, ty, dT, 0.0)
        if not ok:
            ctx.violation("event_coincidence_analysis:long-record:raises:"
                          f"{type(out).__name__}", {**case, "exc": repr(out)},
                          cid)
        elif any(w is not None and not _close(o, w, 1e-6)
                 for o, w in zip(out, want)):
            ctx.violation("event_coincidence_analysis:long-record:ne-"
                          "counting-formula",
                          {**case, "deltaT": dT, "lib": out, "ref": want}, cid)
        ok, A = ctx.call(lambda: ES(np.c_[x, y], taumax=taumax)
                         .event_series_analysis(method="ES"))
        ctx.evals()
        want = ref.es(tx, ty, taumax, 0.0)
        if not ok:
            ctx.violation("event_series_analysis:ES:long-record:raises:"
                          f"{type(A).__name__}", {**case, "exc": repr(A)},
                          cid)
        elif want is not None:
            A = np.asarray(A, float)
            if not (_close(A[0, 1], want[0], 1e-12) and
                    _close(A[1, 0], want[1], 1e-12)):
                ctx.violation("event_series_analysis:ES:long-record:ne-"
                              "pairwise", {**case, "lib": A, "ref": want},
                              cid)
    ctx.nontrivial(("long", T, tuple(px.tolist()), tuple(py.tolist())))


# ---------------------------------------------------------------------------
def run(ctx):
    from pyunicorn.eventseries import EventSeries as ES
    # ---- B0. long records (index time beyond 16 bit)
    for k in range(96 if ctx.thorough else 16):
        if ctx.mine(k):
            with ctx.guard(120):
                long_record_case(ctx, ES, k)
    L = 9 if ctx.thorough else 7
    # ---- B1. random event matrices: guaranteed minimum (not time limited)
    bmin = 8000 if ctx.thorough else 1200
    for k in range(1, bmin + 1):
        if ctx.mine(k):
            random_case(ctx, ES, k)
    # ---- A. exhaustive pairs ------------------------------------------
    idx = 0
    for n in range(1, L + 1):
        irr = np.cumsum(IRR_STEPS[:n]) - 2.0
        for xc in range(1 << n):
            x = bits(xc, n)
            for yc in range(1 << n):
                idx += 1
                if not ctx.mine(idx):
                    continue
                cid = f"ex:{n}:{xc}:{yc}"
                if not _want(ctx, cid):
                    continue
                y = bits(yc, n)
                exch = xc < yc
                rel = idx % 23 == 0
                for s, (tm, lag) in enumerate(ES_SETTINGS):
                    check_es(ctx, ES, x, y, None, tm, lag, f"{cid}:es{s}",
                             relations=rel, exchange=exch)
                for s, (tm, lag) in enumerate(ES_SETTINGS_IRR):
                    check_es(ctx, ES, x, y, irr, tm, lag, f"{cid}:esi{s}",
                             relations=rel, exchange=exch)
                for s, (tm, lag) in enumerate(ECA_SETTINGS):
                    check_eca(ctx, ES, x, y, None, tm, lag,
                              f"{cid}:eca{s}", relations=rel, exchange=exch)
                for s, (tm, lag) in enumerate(ECA_SETTINGS_IRR):
                    check_eca(ctx, ES, x, y, irr, tm, lag,
                              f"{cid}:ecai{s}", relations=rel,
                              exchange=exch)
    ctx.note("exhaustive_pairs_enumerated", idx)
    # ---- C. thresholding ----------------------------------------------
    for k in range(6000 if ctx.thorough else 600):
        if ctx.mine(k):
            check_threshold(ctx, ES, k)
    # ---- D. climate network ---------------------------------------------
    for k in range(1200 if ctx.thorough else 120):
        if ctx.mine(k):
            with ctx.guard(60):
                check_climnet(ctx, ES, k)
    # ---- B2. more random event matrices while time is left ----------------
    cap = 120000 if ctx.thorough else 4000
    k = bmin
    while ctx.time_left() > 0 and k < cap:
        k += 1
        if ctx.mine(k):
            random_case(ctx, ES, k)


def random_case(ctx, ES, k):
    cid = f"mat:{k}"
    if not _want(ctx, cid):
        return
    r = ctx.rng("mat", k)
    M = random_matrix(r)
    T, N = M.shape
    ts = irregular(r, T) if r.random() < 0.5 else None
    taumax = float(r.choice([INF, INF, 0.0, 0.5, 1.0, 2.0, 3.0, 5.0]))
    lag = float(r.choice([0.0, 0.0, 0.0, 0.5, 1.0, 2.0]))
    if r.random() < 0.2:
        # the second series shifted the other way; in particular by exactly
        # the coincidence window
        lag = -lag if (lag and r.random() < 0.5) else (
            -taumax if taumax not in (INF, 0.0) else -1.0)
        ctx.count("negative_lag_cases")
    if T >= 12 and r.random() < 0.12:
        # series whose events lie in separate stretches of the record (one
        # early, the others late) and a lag that brings them together
        third = T // 3
        M[third:, 0] = 0
        M[:T - third, 1:] = 0
        if not M[:, 0].any():
            M[int(r.integers(0, third)), 0] = 1
        for c_ in range(1, N):
            if not M[:, c_].any():
                M[int(r.integers(T - third, T)), c_] = 1
        lag = float(r.choice([-1, 1])) * float(T - third)
        ts = None if r.random() < 0.5 else ts
        ctx.count("events_in_separate_stretches")
    dt = str(r.choice(["int", "float", "int8", "bool"]))
    M = M.astype({"int": int, "float": float, "int8": np.int8,
                  "bool": bool}[dt])
    as_int = r.random() < 0.3       # integer-valued parameters as ints
    if ts is not None and r.random() < 0.4:
        # other time units (monthly records stamped in days or hours): every
        # time, the lag and a finite window scale together
        cu = float(r.choice([30.0, 720.0, 30.0, 720.0, 2.0 ** -30,
                             2.0 ** 30]))
        ts = [float(v) * cu for v in ts]
        lag = lag * cu
        if taumax != INF:
            taumax = taumax * cu
        ctx.count("time_unit_scaled_cases")
    with ctx.guard(60):
        tsa = None if ts is None else np.asarray(ts)
        tm_s, lag_s = taumax, lag
        if as_int and lag.is_integer():
            lag_s = int(lag)
        if as_int and taumax != INF and taumax.is_integer():
            tm_s = int(taumax)
        check_matrix(ctx, ES, M, ts, taumax, lag, cid, tm_s, lag_s)
        for i in range(N):
            for j in range(i + 1, N):
                a, b = (i, j) if r.random() < 0.5 else (j, i)
                if tsa is None:      # index time stamps (int16 path)
                    check_es(ctx, ES, M[:, a], M[:, b], None, tm_s, lag_s,
                             f"{cid}:es:{a}:{b}", relations=True)
                if taumax != INF:
                    check_eca(ctx, ES, M[:, a], M[:, b], tsa, tm_s,
                              lag_s, f"{cid}:eca:{a}:{b}", relations=True)
