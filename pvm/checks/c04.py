"""C04 — measures do not depend on node numbering (metamorphic)."""
import itertools
import warnings

import numpy as np

from pvm.gen import graphs as G

KINDS = ["Network", "Network[directed]", "GeoNetwork", "InteractingNetworks",
         "ResNetwork", "RecurrenceNetwork", "VisibilityGraph",
         "ClimateNetwork", "InterSystemRecurrenceNetwork"]

META = dict(
    shards={"quick": 16, "thorough": 16},
    budget={"quick": 40, "thorough": 600},
    timeout={"quick": 900, "thorough": 3600},
    technique="metamorphic relation: the harness relabels all inputs itself "
              "(adjacency, weights, link attributes, coordinates, "
              "resistances, samples, node-list arguments) and rebuilds the "
              "object through its constructor; permuted_copy cross-checked",
    rule=("case = (object kind, inputs, permutation pi, measure pattern). "
          "Measures = every public method callable without required arguments "
          "(reflection) x argument patterns (key / link_attribute / "
          "typical_weight / order ...) + node-list measures (interregional / "
          "n.s.i. betweenness with sources & targets, cross/internal measures "
          "with two groups) with the lists mapped through pi^-1. Relation: "
          "scalars and histograms equal; arrays of length N permuted "
          "(m(pi.G)[i] = m(G)[pi[i]]); N x N arrays permuted on both axes; "
          "per-group results follow the order of the mapped list. Tolerance "
          "|a-b| <= 1e-9*max|a| + 1e-12 (1e-6 random-walk betweennesses, 1e-4 "
          "ARPACK eigenvectors, only on connected undirected graphs). All n! "
          "permutations for n<=4 (quick) / n<=5 (thorough) on a spread of "
          "graphs, random permutations beyond, always including ones that "
          "move node 0 and the last node. Order-dependent-by-definition "
          "measures (retarded/advanced, RQA line statistics) are excluded. "
          "non-trivial = distinct (kind, graph, pi, measure) where pi is not "
          "an automorphism-trivial identity (pi != id) and the reference "
          "result is not constant over nodes/pairs."),
    floors={"quick": {**{f"kind:{k}": 200 for k in KINDS},
                      "node_list_measures": 1500, "all_perms_graphs": 10},
            "thorough": {**{f"kind:{k}": 2000 for k in KINDS},
                         "node_list_measures": 15000,
                         "all_perms_graphs": 20}},
    exhaustive_subspaces={"quick": ["all n! permutations, n<=4, on 12 graphs"],
                          "thorough": ["all n! permutations, n<=5, on 24 "
                                       "graphs"]},
    assumptions=["spectral measures only on connected undirected graphs",
                 "recurrence networks: relabelling = reordering the samples "
                 "of a non-embedded series (network measures only)"],
)

META["rule"] += (
    " " + 'Added after the second round of seeded changes: recurrence networks built by threshold / recurrence_rate / local_recurrence_rate in three metrics on coarse (tied) values; visibility graphs natural and horizontal, with the graph REBUILT from the time-reversed series as a realised renumbering (retarded and advanced measures exchange).')

META["rule"] += (
    " " + 'Added after the third round: recurrence networks by `set_adaptive_neighborhood_size(m, order=...)` on tie-free data with the order renumbered along; 40 % consecutive layers and a quarter two-component graphs for the group measures, queried in random order; 30 % of the plain networks rebuilt from the renumbered edge list; time-symmetric visibility measures (boundary corrected degree / closeness, trans betweenness) under reversal.')

META["rule"] += (
    " " + 'Added after the fifth round: 30 % of the plain networks enter through Network.FromIGraph with an igraph object whose links are listed in a random order (node weights and link attribute on the igraph object); the directed switch as bool / np.bool_ / 0-1.')

META["rule"] += (
    " " + 'Added after the sixth round: ResNetwork measures that take node indices (closeness centrality, vertex betweenness, pair resistances) after the global measures, indices mapped through the renumbering.')

META["rule"] += (
    " " + 'Added after the seventh round: spectral measures on unconnected graphs with a simple leading eigenvalue (half of the two-component graphs have equal-sized components); 30 % of the resistive networks built without a grid (geographic measures left out).')

META["rule"] += (
    " " + 'Added after the eighth round: on the large networks a layer of consecutive nodes plus one further node (three in turn, same targets) as int8 / uint8 / int16 arrays for the group measures, and one nsi_betweenness(parallelize=True) against the renumbered serial answer; hamming_distance_from with both networks renumbered alike (and counted independently).')

HIST = ("distribution", "cdf", "histogram", "entropy")
# nsi_degree_histogram & co. bin float values: when all nodes have the same
# n.s.i. degree, rounding decides the bin (frequency histograms are outside
# the n.s.i./relabelling claims, cf. their docstring "frequency (!)")
SKIP_METHODS = ("nsi_degree_histogram", "nsi_degree_cumulative_histogram",
                "nsi_arenas_betweenness", "arenas_betweenness",
                "distance_based_measures", "edge_list", "print_boundaries",
                "boundaries", "grid_size", "geometric_distance_distribution",
                "link_distance_distribution", "find_link_attribute",
                "node_attribute", "average_link_attribute")
# (order dependent by definition / RQA of the sample order / plotting)
ORDER_DEP = ("retarded_", "advanced_", "trans_betweenness",
             "boundary_corrected", "diagline", "vertline", "determinism",
             "laminarity", "diag_entropy", "vert_entropy", "trapping_time",
             "average_diaglength", "average_vertlength", "max_diaglength",
             "max_vertlength", "white_vert", "mean_recurrence_time",
             "rqa_summary", "recurrence_probability", "visibility",
             "resample_", "twins", "permutation_entropy",
             "complexity_entropy", "recurrence_matrix", "distance_matrix",
             "manhattan_distance", "euclidean_distance", "supremum_distance",
             "embedding", "max_white", "average_white",
             "inter_system_recurrence_matrix")


GEO_F32 = ("area_weighted", "distance", "geographical", "link_distance")


def tol_for(label):
    if "eigenvector" in label or "msf_synchron" in label:
        return 1e-4
    if any(g in label for g in GEO_F32):
        # geographic measures are accumulated in float32 (cos lat, angular
        # distances): relabelling changes the summation order
        return 1e-5
    if "newman" in label or "arenas" in label or "pagerank" in label:
        return 1e-6
    return 1e-9


def eq(a, b, rtol, natural=0.0):
    a = np.asarray(a, dtype=float)
    b = np.asarray(b, dtype=float)
    if a.shape != b.shape:
        return False
    with np.errstate(all="ignore"):
        same = (a == b) | (np.isnan(a) & np.isnan(b))
        fin = np.isfinite(a) & np.isfinite(b)
        scale = max(np.abs(a[fin]).max() if fin.any() else 0.0, natural)
        close = np.zeros(a.shape, dtype=bool)
        close[fin] = np.abs(a[fin] - b[fin]) <= rtol * scale + 1e-12
    return bool(np.all(same | close))


def relate(label, v0, v1, perm, n, natural=0.0):
    """v0 = m(G), v1 = m(pi.G) where new node i = old node perm[i].
    -> (comparable, ok, varied)"""
    rtol = tol_for(label)
    if hasattr(v0, "toarray"):
        v0 = v0.toarray()
    if hasattr(v1, "toarray"):
        v1 = v1.toarray()
    if isinstance(v0, (tuple, list)) and isinstance(v1, (tuple, list)) and \
            len(v0) == len(v1) and any(
                isinstance(x, (np.ndarray, tuple, list)) for x in v0):
        res = [relate(label, a, b, perm, n, natural)
               for a, b in zip(v0, v1)]
        return (all(r[0] for r in res), all(r[1] for r in res),
                any(r[2] for r in res))
    try:
        a0 = np.asarray(v0, dtype=float)
        a1 = np.asarray(v1, dtype=float)
    except (TypeError, ValueError):
        return False, False, False
    if a0.dtype == object:
        return False, False, False
    hist = any(h in label for h in HIST)
    varied = a0.size > 1 and not np.all(a0 == a0.flat[0])
    if a0.ndim == 0 or hist:
        return True, eq(a0, a1, rtol, natural), varied
    if a0.shape == (n,) and a1.shape == (n,):
        return True, eq(a0[perm], a1, rtol, natural), varied
    if a0.shape == (n, n) and a1.shape == (n, n):
        return True, eq(a0[np.ix_(perm, perm)], a1, rtol), varied
    if a0.shape != a1.shape:
        return True, False, varied
    return True, eq(a0, a1, rtol), varied


def perms_for(ctx, r, n, all_perms):
    if all_perms:
        return [np.array(p) for p in itertools.permutations(range(n))][1:]
    out = []
    for _ in range(2):
        p = r.permutation(n)
        out.append(p)
    # move node 0 and the last node explicitly
    p = np.arange(n)
    p[0], p[-1] = p[-1], p[0]
    out.append(p)
    return [p for p in out if not np.array_equal(p, np.arange(n))]


def methods_for(obj, have_attr, extra_skip=()):
    from pvm.mon import reflect
    out = []
    for label, name, kw in reflect.query_patterns(obj, SKIP_METHODS,
                                                  have_attr=have_attr):
        if name.startswith(ORDER_DEP) or name in extra_skip:
            continue
        out.append((label, name, kw))
    return out


def compare_objects(ctx, kind, o0, o1, perm, n, cid, case, have_attr,
                    extra_skip=(), pick=None, spectral_ok=True):
    r = ctx.rng("pick", cid)
    meths = methods_for(o0, have_attr, extra_skip)
    if pick and len(meths) > pick:
        meths = [meths[i] for i in sorted(r.choice(len(meths), pick, False))]
    nonid = not np.array_equal(perm, np.arange(n))
    if callable(getattr(o0, "hamming_distance_from", None)) and n >= 2 and \
            type(o0).__name__ == "Network":
        # a measure of two networks: both are renumbered alike
        from pyunicorn.core import Network as _Net
        d_ = bool(getattr(o0, "directed", False))
        B = (r.random((n, n)) < 0.4).astype(np.int8)
        np.fill_diagonal(B, 0)
        if not d_:
            B = np.triu(B, 1)
            B = B + B.T
        b0 = _Net(adjacency=B, directed=d_, silence_level=3)
        b1 = _Net(adjacency=B[np.ix_(perm, perm)], directed=d_,
                  silence_level=3)
        ok0, h0 = ctx.call(o0.hamming_distance_from, b0)
        ok1, h1 = ctx.call(o1.hamming_distance_from, b1)
        ctx.evals(2)
        ctx.count("two_network_measures")
        if ok0 and ok1:
            want = float((np.asarray(o0.adjacency) != B).sum()) / (n * (n - 1))
            if abs(float(h0) - float(h1)) > 1e-12 or \
                    abs(float(h0) - want) > 1e-12:
                ctx.violation(f"{kind}:hamming_distance_from:not-equivariant",
                              {**case, "perm": perm, "orig": float(h0),
                               "relabelled": float(h1), "counted": want},
                              cid)
        elif ok0 != ok1:
            ctx.violation(f"{kind}:hamming_distance_from:raises-on-one-"
                          "labelling", {**case, "perm": perm}, cid)
    with warnings.catch_warnings():
        warnings.simplefilter("ignore")
        for label, name, kw in meths:
            if ("eigenvector" in label or "msf_syn" in label) and \
                    not spectral_ok:
                continue
            if getattr(o0, "directed", False) and "newman" in label:
                # random-walk betweenness is defined for undirected networks
                # (the implementation builds an undirected sub-network)
                continue
            ok0, v0 = ctx.call(getattr(o0, name), **kw)
            ok1, v1 = ctx.call(getattr(o1, name), **kw)
            ctx.evals(2)
            if not ok0 and not ok1:
                if type(v0) is type(v1):
                    ctx.count("both_raise")
                    continue
            if not ok0 or not ok1:
                e = v0 if not ok0 else v1
                ctx.violation(f"{kind}:{label}:raises-on-one-labelling:"
                              f"{type(e).__name__}",
                              {**case, "exc": repr(e)}, cid)
                continue
            # weighted pair sums have the natural scale W^2: an exact 0 may
            # come back as rounding noise of that scale
            nat = 0.0
            if "betweenness" in label:
                try:
                    nat = float(np.sum(o0.node_weights)) ** 2
                except Exception:  # noqa
                    nat = 0.0
            comparable, good, varied = relate(label, v0, v1, perm, n, nat)
            if not comparable:
                ctx.count("uncomparable")
                continue
            ctx.count(f"kind:{kind}")
            if nonid and varied:
                ctx.nontrivial((kind, label, case.get("key"),
                                tuple(perm.tolist())))
            if not good:
                from pvm.mon.reflect import brief
                ctx.violation(f"{kind}:{label}:not-equivariant",
                              {**case, "perm": perm, "orig": brief(v0),
                               "relabelled": brief(v1)}, cid)


def node_indexed_resistive(ctx, o0, o1, perm, n, cid, case, r):
    """ResNetwork measures that take node indices: node u of the original is
    node inv[u] of the renumbered network.  They are asked after the global
    measures of compare_objects (which fill the object's stores)."""
    inv = np.argsort(perm)
    nodes = [int(v) for v in r.permutation(n)[:min(n, 4)]]
    rows = []
    for u in nodes:
        rows.append((f"effective_resistance_closeness_centrality({u})",
                     lambda o, a: o.effective_resistance_closeness_centrality(
                         a), (u,)))
        rows.append((f"vertex_current_flow_betweenness({u})",
                     lambda o, a: o.vertex_current_flow_betweenness(a),
                     (u,)))
    for a, b in zip(nodes, nodes[1:]):
        rows.append((f"effective_resistance({a},{b})",
                     lambda o, a_, b_: o.effective_resistance(a_, b_),
                     (a, b)))
    for label, f, args in rows:
        ok0, v0 = ctx.call(f, o0, *args)
        ok1, v1 = ctx.call(f, o1, *[int(inv[a]) for a in args])
        ctx.evals(2)
        ctx.count("node_indexed_compared")
        name = label.split("(")[0]
        if ok0 != ok1:
            ctx.violation(f"ResNetwork:{name}:raises-on-one-numbering",
                          {**case, "call": label}, cid)
        elif ok0 and not eq(v0, v1, 1e-6):
            ctx.violation(f"ResNetwork:{name}:not-equivariant",
                          {**case, "call": label, "perm": perm,
                           "original": v0, "relabelled": v1}, cid)


def node_list_measures(ctx, kind, o0, o1, perm, n, cid, case, r):
    """Measures taking node groups: lists are mapped through pi^-1."""
    inv = np.argsort(perm)           # old node u -> new index inv[u]
    idx = r.permutation(n)
    c = int(r.integers(1, n)) if n > 1 else 1
    if r.random() < 0.4:
        # layers numbered consecutively (the usual layout of interacting
        # networks); after renumbering they are scattered
        idx = np.arange(n)
        ctx.count("consecutive_groups")
    g1, g2 = idx[:c].tolist(), idx[c:].tolist()
    if not g2:
        return
    h1, h2 = inv[g1].tolist(), inv[g2].tolist()
    single = [("interregional_betweenness", "n"), ("nsi_betweenness", "n"),
              ("nsi_interregional_betweenness", "n")]
    two = ["cross_degree", "cross_indegree", "cross_outdegree",
           "cross_link_density", "number_cross_links",
           "cross_local_clustering", "cross_global_clustering",
           "cross_transitivity", "cross_average_path_length",
           "cross_closeness", "cross_betweenness", "cross_adjacency",
           "cross_path_lengths", "nsi_cross_degree",
           "nsi_cross_mean_degree", "nsi_cross_local_clustering",
           "nsi_cross_global_clustering", "nsi_cross_transitivity",
           "nsi_cross_edge_density", "nsi_cross_closeness_centrality",
           "nsi_cross_betweenness", "nsi_cross_average_path_length",
           "cross_transitivity_sparse", "cross_local_clustering_sparse"]
    one = ["internal_degree", "internal_link_density",
           "number_internal_links", "internal_adjacency",
           "internal_path_lengths", "internal_average_path_length",
           "internal_closeness", "internal_betweenness",
           "internal_global_clustering", "nsi_internal_degree",
           "nsi_internal_local_clustering",
           "nsi_internal_closeness_centrality"]
    calls = []
    for m, _ in single:
        if hasattr(o0, m):
            calls.append((m, dict(sources=g1, targets=g2),
                          dict(sources=h1, targets=h2), "nodes"))
    for m in two:
        if hasattr(o0, m):
            calls.append((m, (g1, g2), (h1, h2), "g1"))
    for m in one:
        if hasattr(o0, m):
            calls.append((m, (g1,), (h1,), "g1"))
    # (any order: the two objects answer the same sequence of queries)
    calls = [calls[i] for i in r.permutation(len(calls))]
    with warnings.catch_warnings():
        warnings.simplefilter("ignore")
        for m, a0, a1, kind_ in calls:
            f0, f1 = getattr(o0, m), getattr(o1, m)
            ok0, v0 = ctx.call(f0, **a0) if isinstance(a0, dict) \
                else ctx.call(f0, *a0)
            ok1, v1 = ctx.call(f1, **a1) if isinstance(a1, dict) \
                else ctx.call(f1, *a1)
            ctx.evals(2)
            if not ok0 and not ok1 and type(v0) is type(v1):
                ctx.count("both_raise")
                continue
            if not ok0 or not ok1:
                e = v0 if not ok0 else v1
                ctx.violation(f"{kind}:{m}(groups):raises-on-one-labelling:"
                              f"{type(e).__name__}",
                              {**case, "g1": g1, "g2": g2, "exc": repr(e)},
                              cid)
                continue
            ctx.count("node_list_measures")
            ctx.count(f"kind:{kind}")
            rtol = tol_for(m)
            a = np.asarray(v0, dtype=float)
            b = np.asarray(v1, dtype=float)
            if kind_ == "nodes" or (a.shape == (n,) and b.shape == (n,)
                                    and m.endswith("betweenness")):
                good = a.shape == b.shape == (n,) and eq(a[perm], b, rtol)
            else:
                # results indexed by list position: the mapped lists keep
                # their order, so results must be equal as they are
                good = eq(a, b, rtol)
            ctx.nontrivial((kind, m, case.get("key"), tuple(perm.tolist()),
                            tuple(g1)))
            if not good:
                ctx.violation(f"{kind}:{m}(groups):not-equivariant",
                              {**case, "perm": perm, "g1": g1, "g2": g2,
                               "orig": a, "relabelled": b}, cid)


def mirror_measures(ctx, kind, o0, o1, perm, n, cid, case):
    """Rebuilt visibility graph of the reversed series: same network with the
    nodes renumbered back to front; retarded and advanced measures swap."""
    ctx.count("mirror_objects")
    A0 = np.asarray(o0.adjacency)
    A1 = np.asarray(o1.adjacency)
    if not np.array_equal(A0[np.ix_(perm, perm)], A1):
        ctx.violation(f"{kind}:rebuilt-from-reversed-series:not-the-"
                      "renumbered-network", {**case, "perm": perm}, cid)
        return
    # time-symmetric visibility measures: mirrored with the nodes
    for m in ("boundary_corrected_degree", "boundary_corrected_closeness",
              "trans_betweenness"):
        ok0, v0 = ctx.call(getattr(o0, m))
        ok1, v1 = ctx.call(getattr(o1, m))
        ctx.evals(2)
        if ok0 and ok1:
            ctx.count(f"kind:{kind}")
            if not eq(np.asarray(v0, float)[perm], v1, 1e-9):
                ctx.violation(f"{kind}:{m}:not-mirrored-by-reversal",
                              {**case, "orig": v0, "reversed": v1}, cid)
        elif ok0 != ok1:
            ctx.violation(f"{kind}:{m}:raises-on-one-labelling",
                          {**case, "exc": repr(v1 if ok0 else v0)}, cid)
    for m in ("degree", "local_clustering", "closeness", "betweenness"):
        for a, b in (("retarded_", "advanced_"), ("advanced_", "retarded_")):
            ok0, v0 = ctx.call(getattr(o0, a + m))
            ok1, v1 = ctx.call(getattr(o1, b + m))
            ctx.evals(2)
            if not (ok0 and ok1):
                if ok0 != ok1:
                    ctx.violation(f"{kind}:{a}{m}:raises-on-one-labelling",
                                  {**case, "exc": repr(v1 if ok0 else v0)},
                                  cid)
                continue
            ctx.count(f"kind:{kind}")
            if not eq(np.asarray(v0, float)[perm], v1, 1e-9):
                ctx.violation(f"{kind}:{a}{m}:not-mirrored-by-reversal",
                              {**case, "orig": v0, "reversed": v1}, cid)


def _leading_eigenvector_unique(A, w=None):
    """An unconnected undirected graph whose largest adjacency eigenvalue is
    simple by a wide margin (one component dominates): the leading
    eigenvector is then as well defined as on a connected graph.  With node
    weights the same must hold for the n.s.i. matrix (A + I) diag(w), whose
    spectrum is that of the symmetric sqrt(w) (A + I) sqrt(w): a light
    triangle and a heavy pair can tie there although they do not in A."""
    A = np.asarray(A, dtype=float)
    if len(A) < 3 or not np.array_equal(A, A.T):
        return False
    ev = np.linalg.eigvalsh(A)
    ok = bool(ev[-1] - ev[-2] > 0.3 and ev[-1] + ev[0] > 0.3)
    if ok and w is not None:
        q = np.sqrt(np.asarray(w, dtype=float))
        evw = np.linalg.eigvalsh(q[:, None] * (A + np.eye(len(A))) * q[None, :])
        ok = bool(evw[-1] - evw[-2] > 0.3 * max(1.0, float(np.mean(w)))
                  and evw[-1] + evw[0] > 0.0)
    return ok


def build_case(ctx, kind, r, small):
    """-> dict(o0 builder inputs) ; returns (make(perm) -> object, n, info)"""
    from pyunicorn.core import (Network, GeoNetwork, InteractingNetworks,
                                ResNetwork, GeoGrid)
    from pyunicorn.climate import ClimateNetwork
    directed = kind == "Network[directed]"
    nmax = 5 if small else 12
    if kind in ("Network", "Network[directed]", "InteractingNetworks",
                "GeoNetwork"):
        n = int(r.integers(3, nmax + 1))
        u = r.random()
        if u < 0.5:
            A = G.random_connected(r, n, n, directed=directed)
        elif u < 0.75 or n < 4:
            A = G.gnp(r, n, 0.5, directed)
        else:
            # two components (unreachable pairs inside and across groups)
            n1 = int(r.integers(2, n - 1))
            if n % 2 == 0 and n >= 6 and r.random() < 0.5:
                n1 = n // 2       # two components of the same size
            A = np.zeros((n, n), dtype=np.int8)
            A[:n1, :n1] = G.random_connected(r, n1, n1, directed=directed)
            A[n1:, n1:] = G.random_connected(r, n - n1, n - n1,
                                             directed=directed)
            if r.random() < 0.5:
                q = r.permutation(n)
                A = A[np.ix_(q, q)]
        w = G.pos_weights(r, n)
        W = G.link_attr(r, A, directed) if A.any() else None
        lat = np.round(r.uniform(-80, 80, n))
        lon = np.round(r.uniform(-170, 170, n))
        via_edges = bool(r.random() < 0.3)
        edges0 = np.argwhere(A if directed else np.triu(A))
        if via_edges:
            ctx.count("rebuilt_from_edge_list")
        # ... or entered through the other public door: an igraph object of
        # the caller, whose links are numbered in the caller's order (after a
        # renumbering of the nodes that order is not the sorted one)
        via_igraph = bool(not via_edges and kind.startswith("Network")
                          and len(edges0) and r.random() < 0.3)
        if via_igraph:
            ctx.count("entered_through_igraph_object")
            eorder = r.permutation(len(edges0))

        from pvm.gen.held import as_flag
        dflag = as_flag(r, directed)

        def make(p):
            Ap = A[np.ix_(p, p)]
            if via_igraph:
                import igraph
                ip = np.argsort(p)
                e = edges0[eorder]
                g = igraph.Graph(n=n, edges=ip[e].tolist(), directed=directed)
                g.vs["node_weight_nsi"] = w[p].tolist()
                if W is not None:
                    g.es["w"] = [float(W[a, b]) for a, b in e]
                return Network.FromIGraph(g, silence_level=3)
            if kind == "GeoNetwork":
                g = GeoGrid(np.arange(2.), lat[p], lon[p], silence_level=3)
                o = GeoNetwork(g, adjacency=Ap, node_weight_type="surface",
                               silence_level=3)
            else:
                cls = InteractingNetworks if kind == "InteractingNetworks" \
                    else Network
                if via_edges and len(edges0) and cls is Network:
                    # rebuilt from the renumbered edge list: every link keeps
                    # the orientation it was listed in, (low, high) or not
                    o = cls(edge_list=np.argsort(p)[edges0], n_nodes=n,
                            directed=directed, node_weights=w[p],
                            silence_level=3)
                else:
                    o = cls(adjacency=Ap, directed=dflag,
                            node_weights=w[p], silence_level=3)
            if W is not None:
                o.set_link_attribute("w", W[np.ix_(p, p)])
            return o
        return make, n, {"edges": np.argwhere(A).tolist(), "weights": w,
                         "key": G.canon_key(A), "have_attr": W is not None,
                         "connected": (G.connected(A) or
                                       _leading_eigenvector_unique(A, w))
                         and not directed}
    if kind == "ResNetwork":
        n = int(r.integers(3, min(nmax, 8) + 1))
        A = G.random_connected(r, n, n)
        R = np.triu(np.round(r.uniform(0.5, 6, (n, n)) * 4) / 4, 1)
        R = (R + R.T) * A

        lat = np.round(r.uniform(0, 80, n))
        lon = np.round(r.uniform(-170, 170, n))

        # the documented short form ResNetwork(resistances): the class then
        # invents coordinates from the node index (no relabelling of
        # anything, the geographic measures are left out) and uses unit node
        # weights - every other measure moves with the nodes
        no_grid = bool(r.random() < 0.3)
        if no_grid:
            ctx.count("resnetwork_without_grid")

        def make(p):
            if no_grid:
                return ResNetwork(R[np.ix_(p, p)].copy(), silence_level=3)
            g = GeoGrid(np.arange(2.), lat[p], lon[p], silence_level=3)
            return ResNetwork(R[np.ix_(p, p)].copy(), grid=g,
                              silence_level=3)
        geo_words = ("distance", "area_weighted", "geographical", "awc",
                     "connectivity_weighted")
        return make, n, {"edges": np.argwhere(A).tolist(), "key":
                         G.canon_key(A), "have_attr": False,
                         "connected": True,
                         "extra_skip": tuple(
                             nm for nm in dir(ResNetwork)
                             if any(wd in nm for wd in geo_words))
                         if no_grid else ()}
    if kind == "ClimateNetwork":
        from pvm.gen.objects import sym_similarity
        n = int(r.integers(4, nmax + 1))
        S = sym_similarity(r, n)
        lat = np.round(r.uniform(-80, 80, n))
        lon = np.round(r.uniform(-170, 170, n))
        thr = float(r.integers(8, 40)) / 64 + 1 / 128
        nl = bool(r.integers(0, 2))

        def make(p):
            g = GeoGrid(np.arange(2.), lat[p], lon[p], silence_level=3)
            return ClimateNetwork(g, S[np.ix_(p, p)].copy(), threshold=thr,
                                  non_local=nl, silence_level=3)
        return make, n, {"S": S, "thr": thr, "non_local": nl,
                         "key": S.tobytes().hex()[:40], "have_attr": False,
                         "connected": False}
    if kind == "RecurrenceNetwork":
        from pyunicorn.timeseries import RecurrenceNetwork
        n = int(r.integers(5, (8 if small else 16)))
        # coarse values: many equal distances, so that rate-based rules
        # meet ties at their cut-off
        q = float(r.choice([8, 2, 1]))
        x = np.round(r.normal(size=(n, 2)) * q) / q
        rule = [{"threshold": float(r.choice([0.6, 0.9, 1.3])) + 1 / 64},
                {"recurrence_rate": float(r.choice([0.2, 0.4, 0.6]))},
                {"local_recurrence_rate": float(r.choice([0.2, 0.4, 0.6]))}][
                    int(r.integers(0, 3))]
        metric = str(r.choice(["supremum", "euclidean", "manhattan"]))
        adaptive = None
        if r.random() < 0.25 and n >= 5:
            # adaptive neighbourhood with an explicit processing order: the
            # renumbered series processed in the correspondingly renumbered
            # order gives the renumbered network (tie-free values: the
            # algorithm walks each state's neighbours by increasing distance)
            x = r.normal(size=(n, 2))
            adaptive = (int(r.integers(1, max(2, n // 3))), r.permutation(n))
            rule = {"adaptive_neighborhood_size": adaptive[0],
                    "order": adaptive[1].tolist()}

        def make(p):
            if adaptive is not None:
                net = RecurrenceNetwork(x[p].copy(), metric=metric,
                                        threshold=1.0, silence_level=3)
                net.set_adaptive_neighborhood_size(
                    adaptive[0], order=np.argsort(p)[adaptive[1]])
                return net
            return RecurrenceNetwork(x[p].copy(), metric=metric,
                                     silence_level=3, **rule)
        return make, n, {"x": x, "rule": rule, "metric": metric,
                         "key": x.tobytes().hex()[:40] + metric + repr(rule),
                         "have_attr": False, "connected": False}
    if kind == "InterSystemRecurrenceNetwork":
        from pyunicorn.timeseries import InterSystemRecurrenceNetwork as IS
        # two systems with different (sometimes equal) numbers of states;
        # renumbering = reordering the samples within each system
        n1 = int(r.integers(3, (6 if small else 10)))
        n2 = int(r.integers(3, (6 if small else 10)))
        if r.random() < 0.3:
            n2 = n1          # equal lengths: the cross matrix is square
        elif n1 == n2:
            n2 += 1
        q = float(r.choice([8, 2]))
        x = np.round(r.normal(size=(n1, 2)) * q) / q
        y = np.round(r.normal(size=(n2, 2)) * q) / q
        if r.random() < 0.5:
            rule = {"threshold": tuple(float(v) + 1 / 64 for v in
                                       r.choice([0.6, 0.9, 1.3], 3))}
        else:
            rule = {"recurrence_rate": tuple(float(v) for v in
                                             r.choice([0.2, 0.4, 0.6], 3))}
        metric = str(r.choice(["supremum", "euclidean", "manhattan"]))
        n = n1 + n2

        def make(p):
            p1 = np.asarray(p[:n1])
            p2 = np.asarray(p[n1:]) - n1
            return IS(x[p1].copy(), y[p2].copy(), metric=metric,
                      silence_level=3, **rule)
        return make, n, {"x": x, "y": y, "rule": rule, "metric": metric,
                         "key": (x.tobytes().hex()[:30], y.tobytes().hex()[:30],
                                 metric, repr(rule)),
                         "have_attr": False, "connected": False,
                         "blocks": (n1, n2)}
    if kind == "VisibilityGraph":
        from pyunicorn.timeseries import VisibilityGraph
        n = int(r.integers(4, (7 if small else 14)))
        x = r.integers(0, 5, n).astype(float)
        hz = bool(r.integers(0, 2))
        vg = VisibilityGraph(x, horizontal=hz, silence_level=3)
        A = np.asarray(vg.adjacency).astype(np.int8)

        def make(p):
            if np.array_equal(p, np.arange(n)):
                return vg          # the real object (inherited measures)
            if np.array_equal(p, np.arange(n)[::-1]):
                # the one renumbering that can be realised by rebuilding the
                # object: the graph of the time-reversed series
                return VisibilityGraph(x[::-1].copy(), horizontal=hz,
                                       silence_level=3)
            return InteractingNetworks(adjacency=A[np.ix_(p, p)],
                                       silence_level=3)
        return make, n, {"x": x, "horizontal": hz,
                         "key": (G.canon_key(A), hz), "have_attr": False,
                         "connected": False, "mirror": True}
    raise ValueError(kind)


def large_case(ctx, n, j):
    """A few hundred nodes (beyond one block of 128 / 256 rows of tiled
    implementations): a handful of measures incl. the dictionary returned by
    distance_based_measures, original vs. renumbered network."""
    from pyunicorn.core import Network
    cid = f"large:{n}"
    r = ctx.rng("large", n)
    A = G.random_connected(r, n, n, extra_p=0.0)
    extra = np.triu(r.random((n, n)) < 3.0 / n, 1)
    A = ((A + extra + extra.T) > 0).astype(np.int8)
    np.fill_diagonal(A, 0)
    w = G.pos_weights(r, n)
    p = r.permutation(n)
    with ctx.quiet():
        o0 = Network(adjacency=A, node_weights=w, silence_level=3)
        o1 = Network(adjacency=A[np.ix_(p, p)], node_weights=w[p],
                     silence_level=3)
    case = {"kind": "Network", "N": n, "links": int(A.sum() // 2),
            "generator": cid}
    ctx.count("large_networks")
    with warnings.catch_warnings():
        warnings.simplefilter("ignore")
        for m in ("distance_based_measures", "degree", "closeness",
                  "local_clustering", "betweenness", "nsi_degree",
                  "max_neighbors_degree", "nsi_max_neighbors_degree",
                  "average_neighbors_degree", "nsi_closeness",
                  "nsi_local_clustering", "average_path_length",
                  "nsi_average_path_length", "transitivity"):
            ok0, v0 = ctx.call(getattr(o0, m))
            ok1, v1 = ctx.call(getattr(o1, m))
            ctx.evals(2)
            if not (ok0 and ok1):
                if ok0 != ok1:
                    ctx.violation(f"Network:{m}():raises-on-one-labelling:"
                                  "large", {**case, "exc":
                                            repr(v1 if ok0 else v0)}, cid)
                continue
            items = [(m, v0, v1)]
            if isinstance(v0, dict) and isinstance(v1, dict):
                items = [(f"{m}[{k}]", v0[k], v1.get(k)) for k in sorted(v0)]
            for lab, a, b in items:
                comp, good, varied = relate(lab, a, b, p, n,
                                            float(np.sum(w)) ** 2
                                            if "betweenness" in lab else 0.0)
                ctx.count("kind:Network")
                if varied:
                    ctx.nontrivial(("large", lab, n))
                if comp and not good:
                    ctx.violation(f"Network:{lab}:not-equivariant:large",
                                  {**case, "orig": a, "relabelled": b}, cid)
        # the optional process pool is one more way of asking the same thing
        ok0, v0 = ctx.call(o0.nsi_betweenness, parallelize=True)
        ok1, v1 = ctx.call(o1.nsi_betweenness)
        ctx.evals(2)
        if ok0 and ok1:
            ctx.count("large_pool_measures")
            if not eq(np.asarray(v0, float)[p], np.asarray(v1, float),
                      tol_for("nsi_betweenness"), float(np.sum(w)) ** 2):
                ctx.violation("Network:nsi_betweenness(parallelize=True):"
                              "not-equivariant:large", case, cid)
        elif ok0 != ok1:
            ctx.violation("Network:nsi_betweenness(parallelize=True):raises-"
                          "on-one-labelling:large",
                          {**case, "exc": repr(v1 if ok0 else v0)}, cid)
        # node groups on the large network: a layer of consecutive nodes
        # plus one further node, asked for several such nodes in turn (the
        # lists are handed over as arrays of the narrowest integer type
        # that holds the node numbers, the way np.arange(..., dtype=...) or
        # a loaded index file delivers them)
        from pyunicorn.core import InteractingNetworks
        inv = np.argsort(p)
        c = int(r.integers(65, 80))
        with ctx.quiet():
            i0 = InteractingNetworks(adjacency=A, node_weights=w,
                                     silence_level=3)
            i1 = InteractingNetworks(adjacency=A[np.ix_(p, p)],
                                     node_weights=w[p], silence_level=3)
        for x in r.choice(np.arange(c, 96), 3, replace=False):
            dt = (np.int8, np.uint8, np.int16)[int(x) % 3]
            g1 = np.append(np.arange(c), int(x)).astype(dt)
            g2 = np.arange(96, 128).astype(dt)     # the same every time
            h1, h2 = inv[g1].astype(np.int16), inv[g2].astype(np.int16)
            for m, obj0, obj1, style in (
                    ("nsi_betweenness", o0, o1, "kw"),
                    ("interregional_betweenness", o0, o1, "kw"),
                    ("number_cross_links", i0, i1, "pos"),
                    ("cross_link_density", i0, i1, "pos"),
                    ("cross_degree", i0, i1, "pos"),
                    ("nsi_cross_degree", i0, i1, "pos"),
                    ("number_internal_links", i0, i1, "one"),
                    ("internal_degree", i0, i1, "one")):
                f0, f1 = getattr(obj0, m), getattr(obj1, m)
                if style == "kw":
                    ok0, v0 = ctx.call(f0, sources=g1, targets=g2)
                    ok1, v1 = ctx.call(f1, sources=h1, targets=h2)
                elif style == "pos":
                    ok0, v0 = ctx.call(f0, g1, g2)
                    ok1, v1 = ctx.call(f1, h1, h2)
                else:
                    ok0, v0 = ctx.call(f0, g1)
                    ok1, v1 = ctx.call(f1, h1)
                ctx.evals(2)
                if not (ok0 and ok1):
                    if ok0 != ok1:
                        ctx.violation(f"Network:{m}(groups):raises-on-one-"
                                      "labelling:large",
                                      {**case, "exc": repr(v1 if ok0 else v0)},
                                      cid)
                    continue
                a = np.asarray(v0, dtype=float)
                b = np.asarray(v1, dtype=float)
                ctx.count("large_group_measures")
                ctx.nontrivial(("large", m, n, int(x)))
                good = eq(a[p], b, tol_for(m)) if style == "kw" and \
                    a.shape == (n,) else eq(a, b, tol_for(m))
                if not good:
                    ctx.violation(f"Network:{m}(groups):not-equivariant:"
                                  "large", {**case, "further_node": int(x),
                                            "layer": c, "dtype": str(dt)},
                                  cid)


def run(ctx):
    all_n = 5 if ctx.thorough else 4
    for j, n in enumerate((300, 517, 257) if ctx.thorough else (300,)):
        if ctx.mine(j) and ctx.want(f"large:{n}"):
            with ctx.guard(600):
                large_case(ctx, n, j)
    k = 0
    cap = 30000 if ctx.thorough else 1500
    # exhaustive-permutation block first (time independent)
    blocks = [(kind, rep) for kind in KINDS
              for rep in range(3 if ctx.thorough else 2)]
    for bi, (kind, rep) in enumerate(blocks):
        if not ctx.mine(bi):
            continue
        cid = f"allperm:{kind}:{rep}"
        if not ctx.want(cid):
            continue
        r = ctx.rng("ap", kind, rep)
        for _ in range(50):
            make, n, info = build_case(ctx, kind, r, small=True)
            if n <= all_n:
                break
        else:
            continue
        with ctx.quiet():
            o0 = make(np.arange(n))
        ctx.count("all_perms_graphs")
        allp = perms_for(ctx, r, n, True)
        if info.get("blocks"):
            b1 = info["blocks"][0]
            allp = [q_ for q_ in allp if set(q_[:b1]) == set(range(b1))]
        for p in allp:
            with ctx.quiet():
                o1 = make(p)
            if info.get("mirror") and type(o1) is type(o0):
                mirror_measures(ctx, kind, o0, o1, p, n, cid,
                                {"kind": kind, "x": info["x"],
                                 "horizontal": info["horizontal"]})
            case = {"kind": kind, **{kk: vv for kk, vv in info.items()
                                     if kk not in ("connected",
                                                   "extra_skip")}}
            compare_objects(ctx, kind, o0, o1, p, n, cid, case,
                            info["have_attr"], pick=12,
                            extra_skip=info.get("extra_skip", ()),
                            spectral_ok=info["connected"])
            if kind in ("Network", "InteractingNetworks", "GeoNetwork",
                        "VisibilityGraph", "RecurrenceNetwork"):
                node_list_measures(ctx, kind, o0, o1, p, n, cid, case,
                                   ctx.rng("nl", cid, int(p[0]), int(p[-1])))
            if kind == "ResNetwork":
                node_indexed_resistive(ctx, o0, o1, p, n, cid, case,
                                       ctx.rng("ni", cid, int(p[0])))
    while ctx.time_left() > 0 and k < cap:
        k += 1
        if not ctx.mine(k):
            continue
        cid = f"rnd:{k}"
        if not ctx.want(cid):
            continue
        r = ctx.rng("rnd", k)
        kind = KINDS[k // ctx.nshards % len(KINDS)]
        with ctx.guard(120):
            make, n, info = build_case(ctx, kind, r, small=False)
            with ctx.quiet():
                o0 = make(np.arange(n))
            case = {"kind": kind, **{kk: vv for kk, vv in info.items()
                                     if kk not in ("connected",
                                                   "extra_skip")}}
            pl = perms_for(ctx, r, n, False)
            if info.get("mirror") and n > 1:
                pl.append(np.arange(n)[::-1].copy())
            if info.get("blocks"):
                b1, b2 = info["blocks"]
                pl = [np.concatenate([r.permutation(b1),
                                      b1 + r.permutation(b2)])
                      for _ in range(3)]
                pl = [q_ for q_ in pl
                      if not np.array_equal(q_, np.arange(n))]
            for p in pl:
                with ctx.quiet():
                    o1 = make(p)
                if info.get("mirror") and type(o1) is type(o0):
                    mirror_measures(ctx, kind, o0, o1, p, n, cid, case)
                compare_objects(ctx, kind, o0, o1, p, n, cid, case,
                                info["have_attr"], pick=25,
                                extra_skip=info.get("extra_skip", ()),
                                spectral_ok=info["connected"])
                if kind in ("Network", "InteractingNetworks", "GeoNetwork",
                            "VisibilityGraph", "RecurrenceNetwork"):
                    node_list_measures(ctx, kind, o0, o1, p, n, cid, case, r)
                if kind == "ResNetwork":
                    node_indexed_resistive(ctx, o0, o1, p, n, cid, case, r)
                # permuted_copy cross-check (plain networks)
                if kind in ("Network", "Network[directed]"):
                    ok, pc = ctx.call(o0.permuted_copy, p)
                    if not ok or not np.array_equal(
                            np.asarray(pc.adjacency),
                            np.asarray(o1.adjacency)) or not np.allclose(
                                pc.node_weights, o1.node_weights):
                        ctx.violation(f"{kind}:permuted_copy:differs-from-"
                                      "relabelled-network",
                                      {**case, "perm": p}, cid)
        if len(ctx.samples) < 3:
            ctx.sample({"case": cid, "kind": kind, "N": n})
