"""C14 — visibility graphs realise the geometric visibility criterion."""
import itertools

import numpy as np

from pvm.ref import visibility as ref

META = dict(
    shards={"quick": 8, "thorough": 16},
    budget={"quick": 25, "thorough": 420},
    timeout={"quick": 600, "thorough": 3000},
    rule=("cases: every series over {0,1,2} of length 2..L (L=6 quick, 8 "
          "thorough) x {natural,horizontal} x {regular, 2 irregular dyadic "
          "timings}; every NaN mask of every such series up to length 5 (6 "
          "thorough) with missing_values=True; seeded random integer / dyadic "
          "series up to length 80 with irregular timings; random float series "
          "where every decisive comparison has relative margin > 1e-4. Oracle: "
          "visibility criterion in exact Fractions. Relations on each case: "
          "affine maps (power-of-two scale), time reversal mirror with "
          "retarded<->advanced exchange, retarded+advanced degree = degree. "
          "non-trivial = distinct (series,timing,type) whose reference graph "
          "has at least one non-adjacent-sample link AND at least one blocked "
          "pair (so both outcomes of the criterion are exercised)."),
    floors={"quick": {"adjacency_compared": 2000, "mirror_checked": 500,
                      "nan_cases": 300},
            "thorough": {"adjacency_compared": 20000, "mirror_checked": 5000,
                         "nan_cases": 2000}},
    exhaustive_subspaces={
        "quick": ["series over {0,1,2}, length 2..6, both graph types",
                  "all NaN masks of series over {0,1,2}, length 2..5"],
        "thorough": ["series over {0,1,2}, length 2..8, both graph types",
                     "all NaN masks of series over {0,1,2}, length 2..6"]},
    technique="exact rational reference oracle (Fractions) over generated "
              "series + affine / time-reversal relations on the observed "
              "graphs",
    level_text=("bounded-exhaustive and seeded exploration: every observed "
                "adjacency bit is compared with the visibility criterion in "
                "exact arithmetic; held on the executions produced"),
    assumptions=[
        "values/timings are small integers or dyadic rationals so float32 "
        "storage and float32 slope division are order preserving",
        "float series only compared when every comparison has margin>1e-4"],
)


META["rule"] += (
    " " + 'Added after the second round of seeded changes: series of 140 (thorough also 200, 270) samples with hub nodes in the past / future / both (parabola, hub-first, hub-last, hub-middle), both graph types, all relations.')

META["rule"] += (
    " " + 'Added after the third round: the accessors `visibility(i, j)` (all pairs of short series, neighbouring pairs otherwise) and `visibility_single(i)` against the reference graph.')

META["rule"] += (
    " " + 'Added after the fifth round: records of 515 and 1027 (thorough 2051) samples, both graph types, against an exact O(n^2) integer reference; the horizontal / missing_values switches as bool / np.bool_ / int / np.int64.')

META["rule"] += (
    " " + 'Added after the sixth round: series held as float32 when exact and in strided / reversed / column layouts; 30 % of the affine relations change the units by 2^+-60 .. 2^+-90 (values) with 2^+-30 .. 2^+-50 (times), same direction.')

META["rule"] += (
    " " + 'Added after the seventh round: 30 % of the constructor calls are positional in the documented order.')

def _eq(a, b):
    a = np.asarray(a, dtype=float)
    b = np.asarray(b, dtype=float)
    if a.shape != b.shape:
        return False
    return bool(np.all((a == b) | (np.isnan(a) & np.isnan(b)) |
                       (np.abs(a - b) <= 1e-9 * np.maximum(1, np.abs(b)))))


def check_series(ctx, VG, x, t, horizontal, missing, cid, relations=True,
                 dtype=float):
    """x: list of floats (may hold nan), t: list or None; dtype: the numeric
    type the caller holds the (exactly representable) values in."""
    import warnings
    n = len(x)
    kind = "horizontal" if horizontal else "natural"
    tt = list(range(n)) if t is None else list(t)
    whole = n > 300 and t is None and not missing and \
        all(float(v) == int(v) for v in x)
    if horizontal:
        R = ref.horizontal_fast(x) if whole else ref.horizontal(x, missing)
    else:
        R = ref.natural_int(x) if whole else ref.natural(x, tt, missing)
    # the two switches in the type a caller may hold them in: a Python bool,
    # a NumPy bool (element of a flag array, result of a comparison) or 0 / 1
    rf = ctx.rng("flagtype", cid)
    as_flag = [bool, bool, np.bool_, int, np.int64][int(rf.integers(0, 5))]
    if as_flag is not bool:
        ctx.count("switches_not_python_bool")
    # the series in the numeric type and memory layout a caller may hold it
    # in: float32 when every value is exactly representable, and contiguous,
    # every second element of a buffer, a reversed view, or a column of a
    # [time, node] array
    xa = np.array(x, dtype=dtype)
    if dtype is float and rf.random() < 0.3:
        x32 = xa.astype(np.float32)
        if np.array_equal(x32.astype(float), xa, equal_nan=True):
            xa = x32
            ctx.count("series_held_as_float32")
    lay = int(rf.integers(0, 5))
    if lay == 1:
        big = np.full(2 * n, 77, dtype=xa.dtype)
        big[::2] = xa
        xa = big[::2]
    elif lay == 2:
        xa = xa[::-1].copy()[::-1]
    elif lay == 3:
        big = np.full((n, 3), 77, dtype=xa.dtype)
        big[:, 1] = xa
        xa = big[:, 1]
    if lay in (1, 2, 3):
        ctx.count("series_held_in_a_strided_layout")
    targ = None if t is None else np.array(t, dtype=float)
    if rf.random() < 0.3:
        # the arguments in the documented positional order
        # (time_series, timings, missing_values, horizontal)
        ctx.count("constructor_called_positionally")
        ok, g = ctx.call(VG, xa, targ, as_flag(missing),
                         as_flag(horizontal), silence_level=3)
    else:
        ok, g = ctx.call(VG, xa, timings=targ,
                         missing_values=as_flag(missing),
                         horizontal=as_flag(horizontal), silence_level=3)
    ctx.evals()
    case = {"x": x, "t": t, "horizontal": horizontal, "missing": missing}
    if not ok:
        ctx.violation(f"{kind}:missing={missing}:constructor-raises:"
                      f"{type(g).__name__}", {**case, "exc": repr(g)}, cid)
        return
    A = np.asarray(g.adjacency)
    ctx.count("adjacency_compared")
    has_nan = any(np.isnan(v) for v in x)
    if has_nan:
        ctx.count("nan_cases")
    far = np.triu(np.ones((n, n), bool), 2)
    if R[far].any() and (~R[far].astype(bool)).any():
        ctx.nontrivial((kind, tuple(map(str, x)), tuple(tt), missing))
    if A.shape != R.shape or not np.array_equal(A, R):
        d = np.argwhere(A != R)[:5].tolist() if A.shape == R.shape else None
        nanrole = ""
        if has_nan and d:
            i, j = d[0]
            nanrole = ":nan-endpoint" if (np.isnan(x[i]) or np.isnan(x[j])) \
                else ":nan-between"
        ctx.violation(f"{kind}:missing={missing}:adjacency-differs{nanrole}",
                      {**case, "diff_at": d, "lib": A, "ref": R}, cid)
        return
    ctx.sample({"x": x, "t": t, "type": kind, "links": int(R.sum() // 2)})
    # the pairwise / per-node accessors answer from the same graph
    # (neighbouring samples and, for short series, every pair)
    pairs = [(i, i + 1) for i in range(n - 1)] + [(i + 1, i)
                                                   for i in range(n - 1)]
    if n <= 8:
        pairs = [(i, j) for i in range(n) for j in range(n) if i != j]
    elif n > 40:
        pairs = pairs[::max(1, n // 20)]
    for i, j in pairs:
        ok, v = ctx.call(g.visibility, i, j)
        ctx.evals()
        if not ok or int(v) != int(R[i][j]):
            nanrole = ":nan-endpoint" if (np.isnan(x[i]) or np.isnan(x[j])) \
                else ""
            ctx.violation(f"{kind}:missing={missing}:visibility(i,j)-differs-"
                          f"from-graph{nanrole}",
                          {**case, "pair": [i, j], "lib": repr(v),
                           "ref": int(R[i][j])}, cid)
            break
    ctx.count("pair_accessor_checked")
    for i in ([0, n - 1, n // 2] if n > 8 else range(n)):
        ok, v = ctx.call(g.visibility_single, i)
        ctx.evals()
        if not ok or not np.array_equal(np.asarray(v).astype(int),
                                        np.asarray(R[i]).astype(int)):
            ctx.violation(f"{kind}:missing={missing}:visibility_single-"
                          "differs-from-graph",
                          {**case, "node": i, "lib": repr(v)}, cid)
            break
    if not relations:
        return
    with warnings.catch_warnings():
        warnings.simplefilter("ignore")
        ok, res = ctx.call(lambda: (g.retarded_degree(), g.advanced_degree(),
                                    g.degree()))
    if not ok:
        ctx.violation(f"{kind}:degree-raises:{type(res).__name__}",
                      {**case, "exc": repr(res)}, cid)
        return
    rd, ad, dg = res
    ctx.evals(3)
    refr = np.array([R[i, :i].sum() for i in range(n)])
    refa = np.array([R[i, i + 1:].sum() for i in range(n)])
    if not (np.array_equal(rd, refr) and np.array_equal(ad, refa)):
        ctx.violation(f"{kind}:retarded/advanced-degree-differs",
                      {**case, "ret": rd, "adv": ad, "ref_ret": refr,
                       "ref_adv": refa}, cid)
    if not np.array_equal(rd + ad, dg):
        ctx.violation(f"{kind}:ret+adv!=degree", {**case, "ret": rd,
                                                   "adv": ad, "deg": dg}, cid)
    ctx.count("degree_sum_checked")
    if relations == "degrees":
        return
    # (series with missing samples take part in the relations as well: the
    #  graph is then disconnected, which is where the time-directed
    #  closeness measures meet infinite path lengths)
    # --- affine invariance --------------------------------------------
    r = ctx.rng("aff", cid)
    a = float(2.0 ** r.integers(-2, 3))
    b = float(r.integers(-8, 9))
    c = float(2.0 ** r.integers(-2, 3))
    d0 = float(r.integers(-8, 9))
    if r.random() < 0.3:
        # other units by many orders of magnitude (exact powers of two, well
        # inside the single-precision range): the criterion knows no scale
        # (values and times scaled in the same direction: the slopes,
        #  which scale with a / c, stay far from the limits of the range)
        ea, ec = [(-90, -50), (-60, -30), (60, 30), (80, 50)][
            int(r.integers(0, 4))]
        a, c = float(2.0 ** ea), float(2.0 ** ec)
        b, d0 = b * a, d0 * c
        ctx.count("affine_by_orders_of_magnitude")
    x2 = [a * v + b for v in x]
    t2 = [c * v + d0 for v in tt]
    ok, g2 = ctx.call(VG, np.array(x2), timings=np.array(t2),
                      missing_values=missing, horizontal=horizontal,
                      silence_level=3)
    ctx.evals()
    if not ok or not np.array_equal(np.asarray(g2.adjacency), A):
        ctx.violation(f"{kind}:affine-map-changes-graph",
                      {**case, "a": a, "b": b, "c": c, "d": d0,
                       "exc": None if ok else repr(g2)}, cid)
    ctx.count("affine_checked")
    # --- time reversal ------------------------------------------------
    xr = x[::-1]
    tr = [-v for v in tt[::-1]]
    ok, g3 = ctx.call(VG, np.array(xr), timings=np.array(tr, dtype=float),
                      missing_values=missing, horizontal=horizontal,
                      silence_level=3)
    ctx.evals()
    if not ok:
        ctx.violation(f"{kind}:reversal-raises", {**case, "exc": repr(g3)},
                      cid)
        return
    if not np.array_equal(np.asarray(g3.adjacency), A[::-1, ::-1]):
        ctx.violation(f"{kind}:time-reversal-not-mirror", case, cid)
        return
    ctx.count("mirror_checked")
    pairs = [("retarded_degree", "advanced_degree"),
             ("retarded_local_clustering", "advanced_local_clustering"),
             ("retarded_closeness", "advanced_closeness")]
    if n <= 12:
        pairs.append(("retarded_betweenness", "advanced_betweenness"))
    with warnings.catch_warnings():
        warnings.simplefilter("ignore")
        for mr, ma in pairs:
            ok1, v1 = ctx.call(getattr(g, mr))
            ok2, v2 = ctx.call(getattr(g3, ma))
            ok3, v3 = ctx.call(getattr(g, ma))
            ok4, v4 = ctx.call(getattr(g3, mr))
            ctx.evals(4)
            if not (ok1 and ok2 and ok3 and ok4):
                ex = [repr(v) for o, v in ((ok1, v1), (ok2, v2), (ok3, v3),
                                           (ok4, v4)) if not o]
                ctx.violation(f"{kind}:{mr}/{ma}:raises",
                              {**case, "exc": ex}, cid)
                continue
            if not (_eq(v1, np.asarray(v2)[::-1]) and
                    _eq(v3, np.asarray(v4)[::-1])):
                ctx.violation(f"{kind}:{mr}<->{ma}:not-exchanged-by-reversal",
                              {**case, "ret": v1, "adv_rev": v2, "adv": v3,
                               "ret_rev": v4}, cid)
            ctx.count("exchange_checked")
        # direct definitions of the directed clustering on the reference
        ok1, rc = ctx.call(g.retarded_local_clustering)
        ok2, ac = ctx.call(g.advanced_local_clustering)
        if ok1 and ok2:
            rr = np.zeros(n)
            aa = np.zeros(n)
            R = np.asarray(R).astype(int).tolist()     # Python integers
            R = np.array(R, dtype=object)
            for i in range(n):
                p = [j for j in range(i) if R[i, j]]
                f = [j for j in range(i + 1, n) if R[i, j]]
                if len(p) > 1:
                    rr[i] = sum(R[u, v] for u, v in
                                itertools.combinations(p, 2)) / \
                        (len(p) * (len(p) - 1) / 2)
                if len(f) > 1:
                    aa[i] = sum(R[u, v] for u, v in
                                itertools.combinations(f, 2)) / \
                        (len(f) * (len(f) - 1) / 2)
            if not (_eq(rc, rr) and _eq(ac, aa)):
                ctx.violation(f"{kind}:directed-clustering-differs",
                              {**case, "ret": rc, "ref_ret": rr, "adv": ac,
                               "ref_adv": aa}, cid)
            ctx.count("clustering_checked")


def irregular_timings(rng, n):
    steps = rng.choice([0.25, 0.5, 1, 2, 3, 5], size=n)
    t = np.cumsum(steps) - steps[0] + float(rng.integers(-4, 5))
    return [float(v) for v in t]


def run(ctx):
    from pyunicorn.timeseries import VisibilityGraph as VG
    L = 8 if ctx.thorough else 6
    LN = 6 if ctx.thorough else 5
    idx = 0
    # 1. exhaustive small series
    for n in range(2, L + 1):
        for xs in itertools.product((0.0, 1.0, 2.0), repeat=n):
            idx += 1
            if not ctx.mine(idx):
                continue
            for hz in (False, True):
                cid = f"ex:{n}:{''.join(str(int(v)) for v in xs)}:{int(hz)}"
                if not ctx.want(cid):
                    continue
                rel = (n <= 6) or (idx % 7 == 0)
                check_series(ctx, VG, list(xs), None, hz, False, cid, rel)
                if not hz and n >= 3:
                    r = ctx.rng("irr", idx)
                    for rep in range(2 if n <= 6 else 1):
                        t = irregular_timings(r, n)
                        check_series(ctx, VG, list(xs), t, False, False,
                                     f"{cid}:t{rep}", relations=False)
    # 2. all NaN masks
    for n in range(2, LN + 1):
        for xs in itertools.product((0.0, 1.0, 2.0), repeat=n):
            idx += 1
            if not ctx.mine(idx):
                continue
            for mask in range(1, 1 << n):
                x = [float("nan") if mask >> i & 1 else xs[i]
                     for i in range(n)]
                # canonical: only one representative of the values hidden
                # under NaN (those positions must be 0 in xs)
                if any(mask >> i & 1 and xs[i] != 0 for i in range(n)):
                    continue
                for hz in (False, True):
                    cid = f"nan:{n}:{''.join(str(int(v)) for v in xs)}:" \
                          f"{mask}:{int(hz)}"
                    if ctx.want(cid):
                        check_series(ctx, VG, x, None, hz, True, cid)
    # 2b. long series with hubs: nodes with more than 127 / 255 neighbours
    # in their past or future (degree counters of narrow integer type)
    sizes = (140, 200, 270) if ctx.thorough else (140,)
    j = 0
    for n in sizes:
        c = n // 3
        shapes = {
            "parabola": [float((i - c) ** 2) for i in range(n)],
            "hub-first": [float(4 * n)] + [float(i) for i in range(n - 1)],
            "hub-last": [float(n - 2 - i) for i in range(n - 1)]
            + [float(4 * n)],
            "hub-middle": [float(i) for i in range(c)] + [float(4 * n)]
            + [float(n - i) for i in range(c + 1, n)],
        }
        for name, x in shapes.items():
            for hz in (False, True):
                j += 1
                cid = f"long:{n}:{name}:{int(hz)}"
                if ctx.mine(j) and ctx.want(cid):
                    with ctx.guard(300):
                        check_series(ctx, VG, x, None, hz, False, cid)
                    ctx.count("long_hub_series")
    # 2c. records longer than 512 / 1024 (/ 2048) samples (row blocks of
    # chunked implementations): whole-numbered random walks with plateaus,
    # adjacency, accessors and degrees against the exact integer reference
    for n in (515, 1027) + ((2051,) if ctx.thorough else ()):
        for hz in (False, True):
            j += 1
            cid = f"verylong:{n}:{int(hz)}"
            if ctx.mine(j) and ctx.want(cid):
                r = ctx.rng("verylong", n, int(hz))
                x = np.cumsum(r.integers(-3, 4, n)).astype(float).tolist()
                with ctx.guard(600):
                    check_series(ctx, VG, x, None, hz, False, cid,
                                 relations="degrees")
                ctx.count("very_long_series")
    # 3. random
    k = 0
    while ctx.time_left() > 0 and k < (60000 if ctx.thorough else 400):
        k += 1
        if not ctx.mine(k):
            continue
        r = ctx.rng("rnd", k)
        n = int(r.integers(3, 81 if k % 4 == 0 else 25))
        style = r.choice(["int", "dyadic", "plateau", "float", "nan",
                          "narrow-int"])
        hz = bool(r.integers(0, 2))
        t = irregular_timings(r, n) if r.random() < 0.6 else None
        miss = False
        dt = float
        if style == "narrow-int":
            # counts / digitised records held in a narrow integer type that
            # they fill completely
            dt = [np.int8, np.uint8, np.int16, np.uint16][int(
                r.integers(0, 4))]
            ii = np.iinfo(dt)
            x = r.integers(ii.min, ii.max + 1, n).astype(float)
            x[int(r.integers(0, n))] = ii.min
            x[int(r.integers(0, n))] = ii.max
            ctx.count("narrow_integer_series")
        elif style == "int":
            x = r.integers(-6, 7, n).astype(float)
        elif style == "dyadic":
            x = r.integers(-64, 65, n) / 8.0
        elif style == "plateau":
            x = np.repeat(r.integers(0, 4, n), r.integers(1, 4, n))[:n] \
                .astype(float)
            n = len(x)
            if t is not None:
                t = t[:n]
        elif style == "nan":
            x = r.integers(-4, 5, n).astype(float)
            x[r.random(n) < 0.15] = np.nan
            miss = True
        else:
            x = np.float32(r.normal(size=n)).astype(float)
            tt = np.arange(n) if t is None else t
            if hz:
                xs_ = np.sort(x)
                if n > 1 and np.min(np.diff(xs_)) < 1e-4 * np.ptp(x):
                    ctx.count("float_borderline_skipped")
                    continue
            elif ref.natural_margin(x, tt) < 1e-4:
                ctx.count("float_borderline_skipped")
                continue
        cid = f"rnd:{k}"
        if ctx.want(cid):
            with ctx.guard(60):
                check_series(ctx, VG, [float(v) for v in x], t, hz, miss,
                             cid, dtype=dt)
