"""C03 - network measures equal their published definitions.

Every measure of ``pyunicorn.core.network.Network`` listed in DESIGN.md (C03)
is evaluated by the library and by the naive references of
``pvm.ref.netmeasures`` on the same adjacency matrix (and link attribute) and
compared.  Signature of an event:

    <method>[:<argument / input-class pattern>]:<directed|undirected>:<differs|raises:<Exc>>
"""

import numpy as np

from pvm.gen import graphs as G
from pvm.ref import netmeasures as R

RTOL = 1e-9         # plain floating point measures
RTOL_SPEC = 1e-6    # ARPACK / PRPACK based ones

# every method the check must have compared at least floor times (a measure
# that is silently never reached makes the run INCONCLUSIVE, not held)
METHODS = (
    "degree indegree outdegree bildegree degree_distribution "
    "indegree_distribution outdegree_distribution degree_cdf indegree_cdf "
    "outdegree_cdf average_neighbors_degree max_neighbors_degree "
    "local_clustering global_clustering transitivity "
    "higher_order_transitivity local_cyclemotif_clustering "
    "local_midmotif_clustering local_inmotif_clustering "
    "local_outmotif_clustering local_cliquishness path_lengths "
    "average_path_length diameter closeness global_efficiency "
    "local_vulnerability betweenness interregional_betweenness "
    "link_betweenness edge_betweenness newman_betweenness arenas_betweenness "
    "matching_index coreness assortativity laplacian eigenvector_centrality "
    "pagerank msf_synchronizability nsi_degree nsi_indegree nsi_outdegree "
    "nsi_bildegree nsi_local_clustering nsi_betweenness").split()

# The corrected n.s.i. motif clusterings (`typical_weight` given) are NOT part
# of the oracle: their docstrings only say "typical node weight to be used for
# correction" and state no relation to the unweighted coefficients, and
# tests/test_core/test_network.py::test_nsi_local_cyclemotif_clustering pins
# the present values.  (Observation, for the record: at uniform weights they
# differ from the unweighted motif clusterings, e.g. inf instead of 1 on an
# undirected triangle; selftest/proposed_fixes/c03_09_*.patch makes the
# relation hold.)  Set to True to compare them under their own signatures
# nsi_local_*motif_clustering:typical_weight=*.
CHECK_CORRECTED_MOTIF = False

META = dict(
    shards={"quick": 16, "thorough": 16},
    budget={"quick": 150, "thorough": 1200},
    timeout={"quick": 600, "thorough": 3000},
    rule=(
        "cases: every labelled undirected graph with 2..4 nodes (quick) / 2..5 "
        "(thorough) and every labelled directed graph with 2..3 (quick) / 2..4 "
        "(thorough) nodes, each with one seeded random positive link attribute "
        "(uniform reals or small-integer ties); a seeded density-swept sample of "
        "the next size up (undirected 5 / directed 4 nodes quick: 320+512; "
        "undirected 6 / directed 5 thorough: 8192+8192); the structured families of "
        "pvm.gen.graphs.families() plus their orientations; seeded G(n,p) and "
        "random connected graphs with 6..40 nodes over p in [0,1], directed and "
        "undirected (320 quick / 8000 thorough). For each graph every measure listed under 'measures' in the "
        "notes is called on one fresh Network object and compared with the naive "
        "reference evaluated on the same adjacency matrix: exact equality for "
        "integer valued measures, |lib-ref| <= 1e-9*max(1,|ref|max) otherwise, "
        "1e-6 for pagerank / msf synchronizability / eigenvector centrality (the "
        "latter widened to 2e-8*N^2/(lambda1-lambda2) where that is larger: the "
        "accuracy ARPACK guarantees for eigsh(sigma=N^2, tol=1e-8)). "
        "Inputs on which a measure is undefined (closeness and spectral measures "
        "on non-(strongly-)connected graphs, transitivity without triples, "
        "assortativity of regular graphs, averages over empty sets, vulnerability "
        "with N<3 or zero efficiency, random-walk/matching/cliquishness measures "
        "on directed graphs) are skipped and counted. Unit-weight relations: with "
        "node weights c*1 and typical_weight=c the corrected nsi_(in/out/bil)degree "
        "equal the plain degrees and nsi_local_clustering equals local_clustering "
        "on nodes of degree >= 2 (the corrected nsi_local_*motif_clusterings are "
        "not compared: no relation is documented); with unit node weights nsi_*degree(key) equal the "
        "strengths and nsi_betweenness() equals twice the betweenness. "
        "non-trivial = distinct (labelled graph, directedness, measure, argument "
        "pattern) whose reference value is not constant over the compared "
        "nodes/pairs (for scalar measures: whose graph has a non-constant degree "
        "sequence), so that an index or normalisation error would be visible."),
    floors={"quick": dict(
                {"compared": 12000, "exhaustive_graphs": 130,
                 "sampled_small_graphs": 250, "random_graphs": 100,
                 "family_graphs": 40, "weighted_compared": 3000,
                 "spectral_compared": 700, "randomwalk_compared": 200,
                 "nsi_relations": 2000, "oracle_selfcheck": 150},
                **{f"m:{m}": 60 for m in METHODS}),
            "thorough": dict(
                {"compared": 300000, "exhaustive_graphs": 5000,
                 "sampled_small_graphs": 5000, "random_graphs": 2500,
                 "family_graphs": 40, "weighted_compared": 60000,
                 "spectral_compared": 15000, "randomwalk_compared": 5000,
                 "nsi_relations": 40000, "oracle_selfcheck": 3000},
                **{f"m:{m}": 1500 for m in METHODS})},
    exhaustive_subspaces={
        "quick": ["all labelled undirected graphs on 2..4 nodes (74)",
                  "all labelled directed graphs on 2..3 nodes (68)"],
        "thorough": ["all labelled undirected graphs on 2..5 nodes (1098)",
                     "all labelled directed graphs on 2..4 nodes (4164)"]},
    assumptions=[
        "numpy.linalg dense eigh/eigvalsh/inv/solve are accurate to 1e-12 on these well conditioned <=40x40 problems (numpy.linalg.pinv is not used: its default cut-off failed on a 36-node Laplacian)",
        "the references in pvm/ref/netmeasures.py encode the documented "
        "conventions written next to each function; they were cross-checked "
        "against networkx (betweenness, edge betweenness, coreness, clustering, "
        "transitivity, assortativity, current-flow betweenness, eigenvector "
        "centrality, pagerank) on random graphs and against textbook values at "
        "the start of every shard",
        "1-node networks cannot be constructed (link density 0/0) and are not "
        "part of the workload"],
    technique="differential testing against naive definitional oracles",
    level_text=("exhaustive agreement on all small labelled graphs plus seeded "
                "random and structured graphs up to 40 nodes"),
    level_note="trusted base: numpy linear algebra, the reference module",
)

META["rule"] += (
    " " + 'Added after the second round of seeded changes: dense graphs of 140/220/300 nodes (density >= 0.97, undirected and directed) on which degrees, clustering, transitivity, neighbour degrees, matching index, the four motif clusterings and their n.s.i. relatives are compared with int64 matrix expressions (counts beyond 16-bit ranges).')

META["rule"] += (
    " " + 'Added after the third round: strengths and attribute read-back with link weights of either sign; the adjacency handed over as dense int8/int64/bool/float, nested list or scipy csr/csc/coo/lil of bool/int8/uint8/int64/float; a third of the objects have a past (built with non-uniform node weights, n.s.i. measures queried, weights reset to the default); hub graphs (degree 230 .. 2100 with small cliques among the neighbours) for the degree-normalised measures.')

META["rule"] += (
    " " + 'Added after the fifth round: a fifth of the weighted graphs have links of length exactly 0; the directed switch is handed over as bool / np.bool_ / 0-1.')

META["rule"] += (
    " " + 'Added after the seventh round: empty source / target selections (the empty sum); the returned attribute matrix is edited in place by the caller, then read back and used for strengths.')

META["rule"] += (
    " " + "Added after the eighth round: a thirteenth constructor form (the caller's own igraph object, links entered in any order and orientation); nsi_average_path_length with uniform node weights equals the mean hop distance over all ordered pairs joined by a path (self-distance 1).")

REFUSALS = ("NotImplementedError",)


# --------------------------------------------------------------------------
def _agree(lib, ref, exact, rtol, mask=None):
    """-> (ok, max abs error)."""
    try:
        a = np.asarray(lib, dtype=float)
    except Exception:  # noqa
        return False, np.inf
    b = np.asarray(ref, dtype=float)
    if a.shape != b.shape:
        return False, np.inf
    if mask is not None:
        a, b = a[mask], b[mask]
    if a.size == 0:
        return True, 0.0
    same = (a == b) | (np.isnan(a) & np.isnan(b))
    if exact:
        return bool(same.all()), 0.0 if same.all() else np.inf
    fin = np.isfinite(a) & np.isfinite(b)
    scale = max(1.0, float(np.max(np.abs(b[np.isfinite(b)]), initial=0.0)))
    err = np.zeros(a.shape)
    err[fin] = np.abs(a[fin] - b[fin])
    ok = same | (fin & (err <= rtol * scale))
    return bool(ok.all()), float(err.max() / scale)


def _nonconst(ref, mask=None):
    b = np.asarray(ref, dtype=float)
    if mask is not None:
        b = b[mask]
    b = b[np.isfinite(b)]
    return b.size > 1 and float(np.ptp(b)) > 0


class Case:
    def __init__(self, ctx, Network, A, directed, cid, W):
        self.ctx, self.A, self.directed, self.cid, self.W = ctx, A, directed, cid, W
        self.n = len(A)
        self.dirs = "directed" if directed else "undirected"
        self.gkey = (self.n, directed, np.packbits(A.astype(bool)).tobytes().hex())
        self.recip = bool(directed and (A & A.T).any())
        self.kvar = bool(np.ptp(R.degree(A, directed)) > 0)
        self.net = None
        # the adjacency in a representation a caller may hold it in (dense
        # of several dtypes, nested list, scipy sparse of several formats and
        # dtypes, bool included): same graph
        import scipy.sparse as sp
        rh = ctx.rng("adjform", cid)
        form = str(rh.choice(["i1", "i1", "i8", "bool", "f8", "list",
                              "csr", "csc", "coo", "lil", "csr0", "csc0",
                              "igraph"]))
        if form == "igraph" and not A.any():
            form = "i1"
        if form == "igraph":
            # a graph object of the caller's own: its links are numbered in
            # the order the caller entered them
            import igraph
            ed = np.argwhere(A if directed else np.triu(A))
            ed = ed[rh.permutation(len(ed))]
            if not directed:
                fl = rh.random(len(ed)) < 0.5
                ed[fl] = ed[fl][:, ::-1]
            Ah = igraph.Graph(n=self.n, edges=[(int(a), int(b))
                                                for a, b in ed],
                              directed=bool(directed))
        elif form in ("i1", "i8", "bool", "f8"):
            Ah = A.astype(form)
        elif form == "list":
            Ah = A.astype(int).tolist()
        elif form in ("csr0", "csc0"):
            # sparse input with explicitly stored zeros (entries cleared in
            # place, thresholded data arrays): they are not links
            rr, cc = np.nonzero(~np.eye(self.n, dtype=bool))
            Ah = getattr(sp, form[:3] + "_matrix")(
                (A[rr, cc].astype(np.int8), (rr, cc)),
                shape=(self.n, self.n))
            form += ":explicit-zeros"
        else:
            sdt = str(rh.choice(["bool", "i1", "i8", "f8", "u1"]))
            Ah = getattr(sp, form + "_matrix")(A.astype(sdt))
            form = f"{form}:{sdt}"
        ctx.count("adjacency_held_as:" + form)
        # ... and, in a third of the cases, an object with a past: built
        # with non-uniform node weights, n.s.i. measures queried, weights
        # reset to the default afterwards
        past = rh.random() < 0.33 and self.n >= 2
        kw = {"node_weights": rh.uniform(0.5, 3.0, self.n)} if past else {}
        from pvm.gen.held import as_flag
        if form == "igraph":
            ok, net = ctx.call(Network.FromIGraph, Ah, silence_level=3)
            if ok and past:
                net.node_weights = kw["node_weights"]
        else:
            ok, net = ctx.call(Network, adjacency=Ah,
                               directed=as_flag(rh, directed),
                               silence_level=3, **kw)
        if not ok:
            ctx.violation(f"constructor:{self.dirs}:raises:{type(net).__name__}",
                          self.info(exc=repr(net), held_as=form), cid)
            return
        if past:
            import warnings
            with warnings.catch_warnings():
                warnings.simplefilter("ignore")
                with np.errstate(all="ignore"):
                    for q in ("nsi_degree", "nsi_betweenness",
                              "nsi_local_clustering", "nsi_closeness",
                              "nsi_average_path_length", "nsi_indegree",
                              "nsi_outdegree", "nsi_bildegree"):
                        ctx.call(getattr(net, q))
            net.node_weights = None
            ctx.count("objects_with_a_past")
        self.net = net
        if W is not None:
            ok, e = ctx.call(net.set_link_attribute, "w", W.copy())
            if not ok:
                ctx.violation(f"set_link_attribute:{self.dirs}:raises:"
                              f"{type(e).__name__}", self.info(exc=repr(e)), cid)
                self.W = None

    def info(self, **kw):
        d = {"n": self.n, "directed": self.directed}
        if self.n <= 60:
            d["edges"] = [list(map(int, e)) for e in np.argwhere(self.A)
                          if self.directed or e[0] < e[1]]
        else:
            # (regenerated from the case id on replay)
            d["links"] = int(self.A.sum() // (1 if self.directed else 2))
        d.update(kw)
        return d

    def sig(self, method, argpat, kind):
        parts = [method] + ([argpat] if argpat else []) + [self.dirs, kind]
        return ":".join(parts)

    def lib(self, method, argpat, *a, **k):
        """Call the library; returns (ok, value). Refusals and exceptions are
        classified here."""
        ctx = self.ctx
        import warnings
        with warnings.catch_warnings():
            warnings.simplefilter("ignore")
            with np.errstate(all="ignore"):
                ok, v = ctx.call(getattr(self.net, method), *a, **k)
        if ok:
            return True, v
        name = type(v).__name__
        if name in REFUSALS or (name == "NetworkError" and
                                "ot implemented" in str(v)):
            ctx.count(f"refused:{method}:{self.dirs}:{name}")
            return False, None
        ctx.violation(self.sig(method, argpat, f"raises:{name}"),
                      self.info(args=repr(a) + repr(k), exc=repr(v)[:300]),
                      self.cid)
        return False, v

    def check(self, method, argpat, ref, *a, exact=False, rtol=RTOL,
              mask=None, readings=None, scalar=False, counter=None,
              post=None, **k):
        """Compare method(*a, **k) with ref (or any of `readings`)."""
        ctx = self.ctx
        ok, v = self.lib(method, argpat, *a, **k)
        if not ok:
            return None
        if post is not None:
            v = post(v)
        if isinstance(v, np.ndarray):
            v = v.copy()
        ctx.evals()
        ctx.count("compared")
        ctx.count(f"m:{method}")
        if counter:
            ctx.count(counter)
        refs = readings if readings is not None else [ref]
        best = np.inf
        good = False
        for r_ in refs:
            g, err = _agree(v, r_, exact, rtol, mask)
            best = min(best, err)
            good = good or g
        if good and not exact:
            ctx.maxstat(f"relerr:{method}", best)
        nt = self.kvar if scalar else any(_nonconst(r_, mask) for r_ in refs)
        if nt:
            ctx.nontrivial((self.gkey, method, argpat))
        if not good:
            ctx.violation(self.sig(method, argpat, "differs"),
                          self.info(args=repr(a) + repr(k), lib=v,
                                    ref=refs[0] if len(refs) == 1 else refs,
                                    W=self.W if (a or k) and self.W is not None
                                    else None),
                          self.cid)
        return v


# --------------------------------------------------------------------------
def check_graph(ctx, Network, A, directed, cid, rng, heavy=True):
    A = np.asarray(A, dtype=np.int8)
    n = len(A)
    if n < 2:
        return
    ties = bool(rng.random() < 0.4)
    # a link attribute cannot exist on a network without links (igraph keeps
    # attributes per edge): the weighted variants need at least one link
    W = G.link_attr(rng, A, directed=directed, ties=ties) if A.any() else None
    if W is not None and rng.random() < 0.2:
        # some links of length / weight exactly 0 (distinct nodes at weighted
        # distance 0; a zero is still a link)
        z = rng.random(W.shape) < 0.3
        if not directed:
            z = np.triu(z, 1)
            z = z | z.T
        W = np.where(z, 0.0, W)
        ctx.count("graphs_with_zero_weight_links")
    c = Case(ctx, Network, A, directed, cid, W)
    if c.net is None:
        return
    W = c.W
    rp = "recip" if c.recip else ""        # input class for closure measures
    U = R.closure(A)
    kin, kout = R.indegree(A), R.outdegree(A)
    kdeg, kbil = R.degree(A, directed), R.bildegree(A)

    # ---- degrees and strengths ---------------------------------------------
    c.check("degree", "", kdeg, exact=True)
    c.check("indegree", "", kin, exact=True)
    c.check("outdegree", "", kout, exact=True)
    c.check("bildegree", "", kbil, exact=True)
    if W is not None:
        c.check("degree", "key", R.degree(A, directed, W), "w",
                counter="weighted_compared")
        c.check("indegree", "key", R.indegree(A, W), "w",
                counter="weighted_compared")
        c.check("outdegree", "key", R.outdegree(A, W), "w",
                counter="weighted_compared")
        c.check("bildegree", "key", R.bildegree(A, W), "w",
                counter="weighted_compared")
        # strengths are plain sums: link weights of either sign (a second
        # attribute on the same object; read back first)
        sg = rng.choice([-1.0, 1.0], size=W.shape)
        if not directed:
            sg = np.triu(sg, 1)
            sg = sg + sg.T
        Ws = W * sg
        oks, e = ctx.call(c.net.set_link_attribute, "ws", Ws.copy())
        if oks:
            c.check("link_attribute", "signed", Ws, "ws",
                    counter="signed_weights_compared")
            c.check("degree", "key,signed", R.degree(A, directed, Ws), "ws",
                    counter="signed_weights_compared")
            c.check("indegree", "key,signed", R.indegree(A, Ws), "ws",
                    counter="signed_weights_compared")
            c.check("outdegree", "key,signed", R.outdegree(A, Ws), "ws",
                    counter="signed_weights_compared")
            # the caller works on the matrix it was handed (rescales it,
            # masks the zeros): the network's weights are the network's
            okv, V_ = ctx.call(c.net.link_attribute, "ws")
            if okv and isinstance(V_, np.ndarray) and V_.flags.writeable:
                V_ *= 1000.0
                V_[V_ == 0] = np.nan
                ctx.count("returned_attribute_matrix_edited_by_caller")
                c.check("link_attribute", "signed,after-caller-edit", Ws,
                        "ws", counter="signed_weights_compared")
                c.check("bildegree" if directed else "degree",
                        "key,signed,after-caller-edit",
                        R.bildegree(A, Ws) if directed
                        else R.degree(A, directed, Ws), "ws",
                        counter="signed_weights_compared")
        else:
            ctx.violation(f"set_link_attribute:{c.dirs}:raises:"
                          f"{type(e).__name__}:signed", c.info(exc=repr(e)),
                          cid)

    # ---- degree distributions -----------------------------------------------
    for pre, kk in (("", kdeg), ("in", kin), ("out", kout)):
        cls = ("kmin=0" if kk.min() == 0 else
               "kmin=1" if kk.min() == 1 else "kmin>=2")
        if kk.max() == 0:
            cls = "edgeless"
        c.check(pre + "degree_distribution", cls, None,
                readings=R.degree_distribution_readings(kk))
        c.check(pre + "degree_cdf", cls, None,
                readings=R.degree_cdf_readings(kk))

    # ---- neighbour degrees ----------------------------------------------------
    iso = "isolated-nodes" if (U.sum(axis=1) == 0).any() else ""
    pat = ",".join(p for p in (rp, iso) if p)
    if U.any():
        rd, defined = R.average_neighbors_degree(A, directed)
        c.check("average_neighbors_degree", pat, None, readings=rd,
                mask=defined)
    else:
        ctx.count("undefined_skipped")
    c.check("max_neighbors_degree", rp, None,
            readings=R.max_neighbors_degree(A, directed), exact=True)

    # ---- clustering -------------------------------------------------------------
    lc = R.local_clustering(A)
    c.check("local_clustering", rp, lc)
    c.check("global_clustering", rp, float(lc.mean()), scalar=True)
    tr = R.transitivity(A)
    if tr is None:
        ctx.count("undefined_skipped")
    else:
        c.check("transitivity", rp, tr, scalar=True)
    if not directed:
        c.check("higher_order_transitivity", "4",
                R.higher_order_transitivity(A, 4), 4, scalar=True)
        if tr is not None:
            c.check("higher_order_transitivity", "3", tr, 3, scalar=True)
        c.check("local_cliquishness", "3", lc, 3)
        c.check("local_cliquishness", "4", R.local_cliquishness(A, 4), 4)
        c.check("local_cliquishness", "5", R.local_cliquishness(A, 5), 5)
    else:
        ctx.count("undefined_skipped", 2)
    for kind in ("cycle", "mid", "in", "out"):
        m = f"local_{kind}motif_clustering"
        c.check(m, "", R.motif_clustering(A, kind))
        if W is not None:
            c.check(m, "key", R.motif_clustering(A, kind, W), key="w",
                    counter="weighted_compared")

    # ---- shortest paths -----------------------------------------------------------
    D = R.path_lengths(A)
    c.check("path_lengths", "", D, exact=True)
    apl = R.average_path_length(D)
    if apl is None:
        ctx.count("undefined_skipped")
    else:
        c.check("average_path_length", "", apl, scalar=True)
    c.check("diameter", "", R.diameter(D), exact=True, scalar=True)
    strongly = bool(np.isfinite(D).all())
    weakly = R.is_connected(A)
    if directed:
        DU = R.path_lengths(U)
        c.check("diameter", "directed=False", R.diameter(DU), exact=True,
                scalar=True, directed=False)
        conn_u = weakly
    else:
        conn_u = strongly
    # documented: "If False and the network is unconnected, the number of all
    # nodes is returned"
    c.check("diameter", "only_connected=False",
            R.diameter(D) if strongly else float(n), exact=True, scalar=True,
            only_connected=False)
    if directed:
        c.check("diameter", "directed=False,only_connected=False",
                R.diameter(DU) if conn_u else float(n), exact=True, scalar=True,
                directed=False, only_connected=False)
    if strongly:
        c.check("closeness", "", R.closeness(D))
    else:
        ctx.count("undefined_skipped")
    c.check("global_efficiency", "", R.global_efficiency(D), scalar=True)
    if W is not None:
        DW = R.path_lengths(A, W)
        c.check("path_lengths", "link_attribute", DW, "w",
                counter="weighted_compared")
        aplw = R.average_path_length(DW)
        if aplw is not None:
            c.check("average_path_length", "link_attribute", aplw, "w",
                    scalar=True, counter="weighted_compared")
        # (1/d measures are undefined where distinct nodes are at weighted
        #  distance 0)
        offd = ~np.eye(n, dtype=bool)
        zero_d = bool((DW[offd] == 0).any())
        if strongly and not zero_d:
            c.check("closeness", "link_attribute", R.closeness(DW), "w",
                    counter="weighted_compared")
        if not zero_d:
            c.check("global_efficiency", "link_attribute",
                    R.global_efficiency(DW), "w", scalar=True,
                    counter="weighted_compared")
        else:
            ctx.count("undefined_skipped")
    if n >= 3 and A.any() and heavy:
        edgeless_sub = any(not np.delete(np.delete(A, i, 0), i, 1).any()
                           for i in range(n))
        cls = "edgeless-subgraph" if edgeless_sub else ""
        c.check("local_vulnerability", cls, R.local_vulnerability(A))
        if W is not None and not (W[A != 0] == 0).any():
            c.check("local_vulnerability",
                    ",".join(p for p in ("link_attribute", cls) if p),
                    R.local_vulnerability(A, W), "w",
                    counter="weighted_compared")
    else:
        ctx.count("undefined_skipped")

    # ---- shortest-path betweenness -------------------------------------------------
    bt = R.betweenness(A, directed)
    if n <= 5:
        if not np.allclose(bt, R.betweenness_by_enumeration(A, directed),
                           rtol=1e-12, atol=1e-12):
            raise RuntimeError(f"oracle self-check failed on {cid}")
        ctx.count("oracle_selfcheck")
    c.check("betweenness", "", bt)
    c.check("link_betweenness", rp, R.link_betweenness(A))
    if not directed:
        c.check("edge_betweenness", "", R.link_betweenness(A))
        full = R.interregional_betweenness(A, range(n), range(n))
        c.check("interregional_betweenness", "all", full)
        c.check("nsi_betweenness", "unit-weights", full,
                counter="nsi_relations")
        for rep in range(2):
            ns = int(rng.integers(1, n + 1))
            nt = int(rng.integers(1, n + 1))
            S = sorted(int(v) for v in rng.choice(n, ns, replace=False))
            T = sorted(int(v) for v in rng.choice(n, nt, replace=False))
            c.check("interregional_betweenness", "sources,targets",
                    R.interregional_betweenness(A, S, T), sources=S, targets=T)
        # an empty selection of sources or targets (an empty list, array or
        # range; the library itself asks this for the first / last sample of
        # a visibility graph): no pair, the empty sum
        if n >= 2:
            S = sorted(int(v) for v in rng.choice(n, 2, replace=False))
            empty = [[], np.arange(0), range(0)][int(rng.integers(0, 3))]
            c.check("interregional_betweenness", "empty-selection",
                    np.zeros(n), sources=empty, targets=S)
            c.check("nsi_betweenness", "empty-selection", np.zeros(n),
                    sources=S, targets=empty, counter="nsi_relations")
    else:
        # the kernel documents "contains each link twice!" and asserts it:
        # directed input is refused, not answered
        ok, v = c.ctx.call(c.net.interregional_betweenness, sources=[0],
                           targets=[n - 1])
        if not ok and type(v).__name__ == "AssertionError":
            ctx.count("refused:interregional_betweenness:directed:AssertionError")
        elif not ok:
            ctx.violation(c.sig("interregional_betweenness", "sources,targets",
                                f"raises:{type(v).__name__}"),
                          c.info(exc=repr(v)), cid)
        else:
            ctx.evals()
            ctx.count("compared")
            ref = R.interregional_betweenness(A, [0], [n - 1])
            if not _agree(v, ref, False, RTOL)[0]:
                ctx.violation(c.sig("interregional_betweenness",
                                    "sources,targets", "differs"),
                              c.info(lib=v, ref=ref), cid)

    # ---- random-walk betweenness, matching index (undirected only) -----------------
    if not directed:
        if heavy:
            c.check("newman_betweenness", "", R.newman_betweenness(A),
                    counter="randomwalk_compared")
            c.check("arenas_betweenness", "", R.arenas_betweenness(A),
                    counter="randomwalk_compared")
        M = R.matching_index(A)
        c.check("matching_index", "", M, mask=np.isfinite(M))
    else:
        ctx.count("undefined_skipped", 3)

    # ---- coreness, assortativity, laplacian -------------------------------------------
    c.check("coreness", "", R.coreness(A, directed), exact=True)
    ra = R.assortativity(A, directed)
    if ra is None:
        ctx.count("undefined_skipped")
    else:
        c.check("assortativity", "", ra, scalar=True)
    c.check("laplacian", "", R.laplacian(A, directed, "out"), exact=True)
    if directed:
        c.check("laplacian", "direction=in", R.laplacian(A, True, "in"),
                exact=True, direction="in")

    # ---- spectral --------------------------------------------------------------------
    c.check("pagerank", "", R.pagerank(A), rtol=RTOL_SPEC,
            counter="spectral_compared")
    if directed:
        # `use_directed` is not described in the docstring; the library's
        # convention: every directed link becomes an undirected one, a
        # reciprocated pair therefore a double link (weight 2)
        c.check("pagerank", "use_directed=False",
                R.pagerank(A, (A + A.T).astype(float), symmetric=True),
                rtol=RTOL_SPEC, use_directed=False,
                counter="spectral_compared")
    if W is not None:
        c.check("pagerank", "link_attribute", R.pagerank(A, W),
                rtol=RTOL_SPEC, link_attribute="w",
                counter="spectral_compared")
    if not directed and strongly:
        if n >= 3:
            # eigsh(sigma=N**2, tol=1e-8): ARPACK stops when the residual of
            # the shift-inverted problem is <= tol*|theta|, theta ~ 1/N**2,
            # while the transformed gap is ~ (l1-l2)/N**4, so the eigenvector
            # is only guaranteed to ~ tol*N**2/(l1-l2) (observed: 9e-6 on
            # 38-node trees, bound 3.4e-5).  Factor 2 for the max-normalisation.
            tol = max(RTOL_SPEC, 2 * 1e-8 * n * n / R.adjacency_gap(A))
            ctx.maxstat("eigenvector_tolerance", tol)
            c.check("eigenvector_centrality", "", R.eigenvector_centrality(A),
                    rtol=tol, counter="spectral_compared")
        c.check("msf_synchronizability", "", R.msf_synchronizability(A),
                rtol=RTOL_SPEC, scalar=True, counter="spectral_compared")
    else:
        ctx.count("undefined_skipped", 2)

    nsi_relations(ctx, c, A, directed, rng, kdeg, kin, kout, kbil, lc, W)
    if len(ctx.samples) < 2 and n >= 4:
        ctx.sample({"graph": c.info(), "betweenness": bt, "coreness":
                    R.coreness(A, directed)})


def nsi_relations(ctx, c0, A, directed, rng, kdeg, kin, kout, kbil, lc, W):
    """Corrected n.s.i. measures with uniform node weights c and
    typical_weight=c equal the unweighted measures; n.s.i. strengths with unit
    node weights equal the strengths."""
    from pyunicorn.core.network import Network
    n = len(A)
    cw = float(rng.choice([1.0, 2.0, 0.5, 1.7]))
    ok, net = ctx.call(Network, adjacency=A.copy(), directed=directed,
                       node_weights=np.full(n, cw), silence_level=3)
    if not ok:
        ctx.violation(f"constructor:node_weights:{c0.dirs}:raises:"
                      f"{type(net).__name__}", c0.info(exc=repr(net)), c0.cid)
        return
    c = Case.__new__(Case)
    c.__dict__.update(c0.__dict__)
    c.net = net
    pat = "typical_weight=w" if cw != 1.0 else "typical_weight=1"
    c.check("nsi_degree", pat, kdeg, typical_weight=cw,
            counter="nsi_relations")
    c.check("nsi_indegree", pat, kin, typical_weight=cw,
            counter="nsi_relations")
    c.check("nsi_outdegree", pat, kout, typical_weight=cw,
            counter="nsi_relations")
    c.check("nsi_bildegree", pat, kbil, typical_weight=cw,
            counter="nsi_relations")
    if not directed:
        c.check("nsi_local_clustering", pat, lc, typical_weight=cw,
                mask=kdeg >= 2, counter="nsi_relations")
    # with uniform node weights the n.s.i. average path length is the mean
    # hop distance over all ordered pairs joined by a path, every node being
    # at distance 1 from itself (the documented convention)
    Dn = R.path_lengths(A).astype(float) + np.eye(n)
    fin = np.isfinite(Dn)
    c.check("nsi_average_path_length", "uniform-weights",
            float(Dn[fin].sum() / fin.sum()), scalar=True,
            counter="nsi_relations")
    # corrected n.s.i. motif clustering: same `typical_weight` "correction"
    # wording as nsi_degree / nsi_local_clustering; compared where the
    # unweighted coefficient has a non-zero denominator
    Tm = {"cycle": kin * kout - kbil, "mid": kin * kout - kbil,
          "in": kin * (kin - 1), "out": kout * (kout - 1)}
    for kind in ("cycle", "mid", "in", "out") if CHECK_CORRECTED_MOTIF else ():
        if (Tm[kind] > 0).any():
            c.check(f"nsi_local_{kind}motif_clustering", pat,
                    R.motif_clustering(A, kind), typical_weight=cw,
                    mask=Tm[kind] > 0, counter="nsi_relations")
    if W is not None:
        c.net = c0.net      # unit node weights, link attribute "w" set
        c.check("nsi_degree", "key,unit-weights", R.degree(A, directed, W),
                key="w", counter="nsi_relations")
        c.check("nsi_indegree", "key,unit-weights", R.indegree(A, W),
                key="w", counter="nsi_relations")
        c.check("nsi_outdegree", "key,unit-weights", R.outdegree(A, W),
                key="w", counter="nsi_relations")


# --------------------------------------------------------------------------
def textbook_selfcheck():
    """Closed-form values the references must reproduce (oracle sanity)."""
    fam = G.families()
    star = fam["star7"]            # centre 0, 6 leaves
    assert np.allclose(R.betweenness(star, False), [15, 0, 0, 0, 0, 0, 0])
    assert np.allclose(R.closeness(R.path_lengths(star)),
                       [1.0] + [6 / 11] * 6)
    path = fam["path5"]
    assert np.allclose(R.betweenness(path, False), [0, 3, 4, 3, 0])
    assert R.diameter(R.path_lengths(path)) == 4
    k5 = fam["clique5"]
    assert np.allclose(R.local_cliquishness(k5, 5), 1)
    assert np.allclose(R.local_cliquishness(k5, 4), 1)
    assert R.higher_order_transitivity(k5, 4) == 1.0
    assert R.transitivity(k5) == 1.0
    assert np.allclose(R.matching_index(k5)[0, 1], 3 / 5)
    assert np.array_equal(R.coreness(fam["k5pend"], False),
                          [4, 4, 4, 4, 4, 1, 1])
    # current through the middle of a path is the full unit current
    nb = R.newman_betweenness(fam["path3"])
    assert np.allclose(nb, 3 * np.array([2 / 3, 1.0, 2 / 3]))
    # walk on a single link: target reached at the first step
    assert np.allclose(R.arenas_betweenness(fam["path2"]), [1, 1])
    assert abs(R.msf_synchronizability(k5) - 1.0) < 1e-12
    assert abs(R.msf_synchronizability(star) - 7.0) < 1e-12
    assert np.allclose(R.pagerank(k5), 0.2)
    cyc = np.zeros((3, 3), np.int8)
    cyc[0, 1] = cyc[1, 2] = cyc[2, 0] = 1
    assert np.allclose(R.motif_clustering(cyc, "cycle"), 1)
    assert np.allclose(R.motif_clustering(cyc, "mid"), 0)
    assert np.allclose(R.closeness(R.path_lengths(cyc)), 2 / 3)
    assert abs(R.assortativity(star, False) + 1.0) < 1e-12


def orientations(rng, A):
    """A random orientation (some links kept reciprocal) of an undirected
    graph."""
    B = A.copy()
    for i, j in np.argwhere(np.triu(A, 1)):
        u = rng.random()
        if u < 0.4:
            B[i, j] = 0
        elif u < 0.8:
            B[j, i] = 0
    return B


def large_dense(ctx, Network, k):
    """Dense graphs with a few hundred nodes: neighbour, triangle and motif
    counts exceed 8- and 16-bit ranges.  Count-valued measures against their
    definitions written as int64 matrix expressions."""
    cid = f"dense:{k}"
    rng = ctx.rng("dense", k)
    directed = bool(k % 2)
    n = [140, 220, 300][(k // 2) % 3] if ctx.thorough \
        else [220, 140][(k // 2) % 2]
    p = float(rng.choice([0.97, 1.0]))
    A = (rng.random((n, n)) < p).astype(np.int8)
    if directed:
        np.fill_diagonal(A, 0)
    else:
        A = np.triu(A, 1)
        A = A + A.T
    c = Case(ctx, Network, A, directed, cid, None)
    if c.net is None:
        return
    ctx.count("large_dense_graphs")
    D = A.astype(np.int64)
    kin, kout = D.sum(0), D.sum(1)
    kbil = (D * D.T).sum(1)
    with np.errstate(all="ignore"):
        if directed:
            c.check("indegree", "", kin, exact=True)
            c.check("outdegree", "", kout, exact=True)
            c.check("bildegree", "", kbil, exact=True)
            den = (kin * kout - kbil).astype(float)
            c.check("local_cyclemotif_clustering", "",
                    np.diag(D @ D @ D) / den)
            c.check("local_midmotif_clustering", "",
                    np.diag(D @ D.T @ D) / den)
            c.check("local_inmotif_clustering", "",
                    np.diag(D.T @ D @ D) / (kin * (kin - 1.0)))
            c.check("local_outmotif_clustering", "",
                    np.diag(D @ D @ D.T) / (kout * (kout - 1.0)))
        else:
            kk = kout
            tri = np.diag(D @ D @ D) / 2.0
            lc = tri / (kk * (kk - 1) / 2.0)
            c.check("degree", "", kk, exact=True)
            c.check("local_clustering", "", lc)
            c.check("global_clustering", "", lc.mean(), scalar=True)
            c.check("transitivity", "",
                    2 * tri.sum() / (kk * (kk - 1.0)).sum(), scalar=True)
            c.check("average_neighbors_degree", "", (D @ kk) / kk)
            c.check("max_neighbors_degree", "",
                    (D * kk[None, :]).max(axis=1), exact=True)
            common = D @ D
            union = kk[:, None] + kk[None, :] - common
            mi = common / union
            np.fill_diagonal(mi, 1.0)
            c.check("matching_index", "", mi,
                    mask=~np.eye(n, dtype=bool))
            c.check("nsi_degree", "", kk + 1.0)
            Dp = D + np.eye(n, dtype=np.int64)
            kp = Dp.sum(1)
            c.check("nsi_local_clustering", "",
                    np.diag(Dp @ Dp @ Dp) / (kp * kp.astype(float)))
        c.check("link_density", "", D.sum() / (n * (n - 1.0)), scalar=True,
                post=lambda v: v() if callable(v) else v) \
            if callable(getattr(c.net, "link_density", None)) else None
    ctx.maxstat("large_dense_max_count", float(np.diag(D @ D @ D).max()))


def hub_graph(ctx, Network, k):
    """A hub with hundreds / more than a thousand neighbours and a few small
    cliques among them: products like k(k-1)(k-2)(k-3) leave the 32-bit
    range (k >= 217, k >= 1291 for three factors).  Degree-normalised
    measures of the hub and of the clique members against their definitions
    evaluated with Python integers."""
    cid = f"hub:{k}"
    rng = ctx.rng("hub", k)
    deg = [230, 1400, 300, 2100][k % 4]
    n = deg + 1
    A = np.zeros((n, n), dtype=np.int8)
    A[0, 1:] = A[1:, 0] = 1
    members = []
    pos = 1
    for size in (4, 3, 5)[: 1 + k % 3]:
        grp = list(range(pos, pos + size))
        pos += size
        members += grp
        for a in grp:
            for b in grp:
                if a != b:
                    A[a, b] = 1
    perm = rng.permutation(n)
    A = A[np.ix_(perm, perm)]
    inv = np.argsort(perm)
    nodes = [int(inv[0])] + [int(inv[m]) for m in members[:4]]
    c = Case(ctx, Network, A, False, cid, None)
    if c.net is None:
        return
    ctx.count("hub_graphs")
    nb = [set(np.flatnonzero(A[i]).tolist()) for i in range(n)]

    def ordered_cliques(i, order):
        """ordered (order-1)-tuples of mutually adjacent neighbours of i"""
        def ext(tup, cand):
            if len(tup) == order - 1:
                return 1
            return sum(ext(tup + [v], cand & nb[v]) for v in cand)
        return ext([], set(nb[i]))

    mask = np.zeros(n, dtype=bool)
    mask[nodes] = True
    for order in (3, 4, 5):
        want = np.zeros(n)
        for i in nodes:
            kk = len(nb[i])
            den = 1
            for f in range(order - 1):
                den *= (kk - f)
            want[i] = ordered_cliques(i, order) / den if den > 0 else 0.0
        c.check("local_cliquishness", f"{order},hub", want, order, mask=mask)
    kdeg = np.array([len(x) for x in nb], dtype=float)
    tri = np.array([sum(len(nb[i] & nb[j]) for j in nb[i]) / 2.0
                    if mask[i] else 0.0 for i in range(n)])
    with np.errstate(all="ignore"):
        c.check("local_clustering", "hub", tri / (kdeg * (kdeg - 1) / 2),
                mask=mask)
    c.check("degree", "hub", kdeg, exact=True)
    c.check("max_neighbors_degree", "hub",
            np.array([max(kdeg[list(x)]) if x else 0 for x in nb]),
            exact=True)


def run(ctx):
    from pyunicorn.core.network import Network
    textbook_selfcheck()
    # 0a. hubs (degree products beyond 32 bit)
    for k in range(8 if ctx.thorough else 2):
        if ctx.mine(k + 1) and ctx.want(f"hub:{k}"):
            with ctx.guard(300):
                hub_graph(ctx, Network, k)
    # 0. a few large dense graphs (counts beyond 16-bit ranges)
    for k in range(12 if ctx.thorough else 4):
        if ctx.mine(k) and ctx.want(f"dense:{k}"):
            with ctx.guard(300):
                large_dense(ctx, Network, k)
    ctx.note("measures", METHODS)
    ctx.note("not_compared_on_directed_networks",
             "higher_order_transitivity, local_cliquishness (refused), "
             "matching_index, newman/arenas_betweenness, "
             "eigenvector_centrality, msf_synchronizability (docstrings give "
             "no directed convention); interregional/nsi_betweenness refuse "
             "directed input with an AssertionError (counted, not an event)")
    nu = 5 if ctx.thorough else 4
    nd = 4 if ctx.thorough else 3
    idx = 0
    # 1. exhaustive small graphs ------------------------------------------------------
    for n in range(2, nu + 1):
        for bits in range(G.count_undirected(n)):
            idx += 1
            if not ctx.mine(idx):
                continue
            cid = f"u:{n}:{bits}"
            if ctx.want(cid):
                with ctx.guard(120):
                    check_graph(ctx, Network, G.nth_undirected(n, bits), False,
                                cid, ctx.rng("w", cid))
                    ctx.count("exhaustive_graphs")
    for n in range(2, nd + 1):
        for bits in range(1 << (n * (n - 1))):
            idx += 1
            if not ctx.mine(idx):
                continue
            cid = f"d:{n}:{bits}"
            if ctx.want(cid):
                with ctx.guard(120):
                    check_graph(ctx, Network, G.nth_directed(n, bits), True,
                                cid, ctx.rng("w", cid))
                    ctx.count("exhaustive_graphs")
    # 1b. seeded samples of the next larger sizes ---------------------------------------
    ns_u, ns_d = nu + 1, nd + 1
    cnt_u, cnt_d = (8192, 8192) if ctx.thorough else (320, 512)
    for j in range(cnt_u + cnt_d):
        idx += 1
        if not ctx.mine(idx):
            continue
        d = j >= cnt_u
        r = ctx.rng("small", j)
        nn = ns_d if d else ns_u
        npairs = nn * (nn - 1) if d else nn * (nn - 1) // 2
        # density swept so that sparse and dense graphs are both frequent
        bits = 0
        p = float(r.choice([0.15, 0.3, 0.5, 0.7, 0.9]))
        for b in range(npairs):
            if r.random() < p:
                bits |= 1 << b
        cid = f"s{'d' if d else 'u'}:{nn}:{bits}"
        if ctx.want(cid):
            with ctx.guard(120):
                check_graph(ctx, Network,
                            G.nth_directed(nn, bits) if d
                            else G.nth_undirected(nn, bits), d, cid,
                            ctx.rng("w", cid))
                ctx.count("sampled_small_graphs")
    # 2. structured families (and one orientation of each) ------------------------------
    for name, A in sorted(G.families().items()):
        for d in (False, True):
            idx += 1
            if not ctx.mine(idx):
                continue
            cid = f"fam:{name}:{int(d)}"
            if not ctx.want(cid):
                continue
            r = ctx.rng("fam", cid)
            B = orientations(r, A) if d else A
            with ctx.guard(300):
                check_graph(ctx, Network, B, d, cid, r)
                ctx.count("family_graphs")
    # 3. random graphs ---------------------------------------------------------------------
    cap = 24000 if ctx.thorough else 320
    k = 0
    while k < cap:
        k += 1
        if not ctx.mine(k):
            continue
        if ctx.time_left() <= 0:
            ctx.count("random_budget_exhausted")
            break
        cid = f"rnd:{k}"
        if not ctx.want(cid):
            continue
        r = ctx.rng("rnd", k)
        d = bool(k % 3 == 0)
        big = (sum(divmod(k, 16)) % 8 == 1)   # spread over the shards
        if k % 2:
            A = G.random_graph(r, 21 if big else 6, 40 if big else 20, d)
        else:
            A = G.random_connected(r, 21 if big else 6, 40 if big else 18, d)
        with ctx.guard(600):
            check_graph(ctx, Network, A, d, cid, r)
            ctx.count("random_graphs")
            ctx.maxstat("largest_n", len(A))
